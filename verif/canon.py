"""Canonical, comparable form of the driver-side state of a real Scenario (everything later batches can read)."""
from __future__ import annotations

import enum
import hashlib
import json
import math
from datetime import date, datetime

import numpy as np
from sqlalchemy import text

SKIP_ATTRS = {
    "logger", "_logger", "_database", "database", "_importer_db", "dynamics", "_dynamics", "clock", "_clock",
    "_reward_executor", "_task_exec_executor", "_target_store", "_sensor_store", "_estimate_store", "_host", "host",
    "_reward", "_decision", "scenario_config", "estimation_config", "_agent_propagator", "_estimate_updater",
    "_estimate_predictor", "_ephem_importer", "adaptive_filter_config", "initial_orbit_determination",
    "julian_date_start", "datetime_start", "_sa_instance_state", "measurement", "_measurement", "field_of_view",
    "reductions", "_sensor_args", "maneuver_detection", "extra_parameters", "_initial_state", "_initial_covariance",
}


def _orm_columns(obj):
    table = getattr(obj, "__table__", None)
    if table is None:
        return None
    return [c.name for c in table.columns if c.name != "id"]


def canon(obj, depth=0, _path=""):
    """Recursive canonical form: plain JSON-able values; arrays as {"nd": shape, "v": [...]}; lists kept in order."""
    if depth > 8:
        return "<deep>"
    if obj is None or isinstance(obj, (bool, int, str)):
        return obj
    if isinstance(obj, (float, np.floating)):
        f = float(obj)
        return f if math.isfinite(f) else repr(f)
    if isinstance(obj, np.integer):
        return int(obj)
    if isinstance(obj, np.bool_):
        return bool(obj)
    if isinstance(obj, np.ndarray):
        if obj.dtype == object:
            return [canon(x, depth + 1) for x in obj.tolist()]
        return {"nd": list(obj.shape), "dt": str(obj.dtype.kind), "v": np.asarray(obj, dtype=float).ravel().tolist()}
    if isinstance(obj, (datetime, date)):
        return obj.isoformat()
    if isinstance(obj, enum.Enum):
        return f"{type(obj).__name__}.{obj.name}"
    if isinstance(obj, enum.Flag):
        return repr(obj)
    if isinstance(obj, dict):
        return {str(k): canon(v, depth + 1) for k, v in sorted(obj.items(), key=lambda kv: str(kv[0]))}
    if isinstance(obj, (list, tuple)):
        return [canon(x, depth + 1) for x in obj]
    if isinstance(obj, (set, frozenset)):
        return sorted((canon(x, depth + 1) for x in obj), key=lambda x: json.dumps(x, sort_keys=True))
    if isinstance(obj, np.random.Generator):
        st = obj.bit_generator.state
        return {"rng": hashlib.sha256(repr(st).encode()).hexdigest()[:16]}
    cols = _orm_columns(obj)
    if cols is not None:
        return {"orm": type(obj).__name__, **{c: canon(getattr(obj, c, None), depth + 1) for c in cols}}
    if hasattr(obj, "__dict__"):
        out = {"cls": type(obj).__name__}
        for k, v in sorted(vars(obj).items()):
            if k in SKIP_ATTRS or callable(v):
                continue
            out[k] = canon(v, depth + 1)
        return out
    return repr(obj)


def _sorted_records(records):
    return sorted((canon(r) for r in records), key=lambda x: json.dumps(x, sort_keys=True))


# per-update intermediates laid out in *stacking order* of the simultaneous observations: permuted (not changed) when
# the observations arrive in another order, overwritten by the next forecast/update, and not part of "the estimate"
STACK_ORDER_FIELDS = ("innovation", "innov_cvr", "cross_cvr", "kalman_gain", "mean_pred_y", "true_y", "r_matrix",
                      "is_angular", "sigma_y_res")


def _estimate(agent):
    out = canon(agent)
    holders = [out.get("_filter"), out.get("_filter_step")] + list(out.get("_filter_info") or [])
    for flt in holders:
        if isinstance(flt, dict):
            for k in list(flt):
                if k.lstrip("_") in STACK_ORDER_FIELDS:
                    flt.pop(k)
    return out


def _by_target(observations):
    out = {}
    for o in observations:
        out.setdefault(str(o.target_id), []).append(canon(o))
    return dict(sorted(out.items()))


def dump_db(db) -> dict:
    """Every table, rows without surrogate ids, sorted."""
    out = {}
    with db.engine.connect() as conn:
        tables = [r[0] for r in conn.execute(text("SELECT name FROM sqlite_master WHERE type='table' ORDER BY name"))]
        for t in tables:
            cols = [r[1] for r in conn.execute(text(f'PRAGMA table_info("{t}")'))]
            keep = [c for c in cols if c != "id"]
            if not keep:
                continue
            rows = conn.execute(text(f'SELECT {", ".join(chr(34) + c + chr(34) for c in keep)} FROM "{t}"')).fetchall()
            rows = [[canon(v) for v in r] for r in rows]
            rows.sort(key=lambda r: json.dumps(r, sort_keys=True))
            out[t] = {"cols": keep, "rows": rows}
    return out


def scenario_state(sc, with_db=True) -> dict:
    st = {
        "time": float(sc.clock.time),
        "targets": {str(k): canon(v) for k, v in sorted(sc.target_agents.items())},
        "sensors": {
            str(k): {
                **canon(v),
                "boresight": canon(v.sensors.boresight),
                "time_last_tasked": float(v.sensors.time_last_tasked),
            }
            for k, v in sorted(sc.sensor_agents.items())
        },
        "estimates": {str(k): _estimate(v) for k, v in sorted(sc.estimate_agents.items())},
        "engines": {},
    }
    for eid, eng in sorted(sc.tasking_engines.items()):
        st["engines"][str(eid)] = {
            "target_list": list(eng.target_list),
            "sensor_list": list(eng.sensor_list),
            "reward_matrix": canon(eng.reward_matrix),
            "decision_matrix": canon(eng.decision_matrix),
            "visibility_matrix": canon(eng.visibility_matrix),
            "metric_matrix": canon(eng.metric_matrix),
            "sensor_changes": canon(eng.sensor_changes),
            # the scenario groups engine.observations by target and stacks each target's filter update in list
            # order; the property allows the posterior to change "up to rounding" under that reordering, so the
            # records are compared as a multiset here and the estimates downstream with a rounding tolerance
            "observations": _sorted_records(eng._observations),  # noqa: SLF001
            "missed_observations": _sorted_records(eng._missed_observations),  # noqa: SLF001
            "saved_observations": _sorted_records(eng._saved_observations),  # noqa: SLF001
            "saved_missed_observations": _sorted_records(eng._saved_missed_observations),  # noqa: SLF001
        }
    if with_db:
        st["db"] = dump_db(sc.database)
    return st


# ---------------------------------------------------------------------------------------- comparison
def diff(a, b, path="", exact=lambda p: True, rtol=1e-9, atol=1e-12, out=None, limit=20):
    """List of (path, a, b) where two canonical forms differ. ``exact(path)`` selects bitwise float comparison."""
    if out is None:
        out = []
    if len(out) >= limit:
        return out
    if isinstance(a, dict) and isinstance(b, dict):
        if "nd" in a and "nd" in b and "v" in a:
            if a["nd"] != b["nd"]:
                out.append((path, a["nd"], b["nd"]))
                return out
            va, vb = np.asarray(a["v"], dtype=float), np.asarray(b["v"], dtype=float)
            if exact(path):
                bad = ~((va == vb) | (np.isnan(va) & np.isnan(vb)))
            else:
                bad = ~np.isclose(va, vb, rtol=rtol, atol=atol + rtol * float(np.max(np.abs(vb), initial=0.0)), equal_nan=True)
            if bad.any():
                i = int(np.argmax(bad))
                out.append((f"{path}[{i}]", float(va[i]), float(vb[i])))
            return out
        for k in sorted(set(a) | set(b)):
            if k not in a or k not in b:
                out.append((f"{path}/{k}", "<missing>" if k not in a else "<present>", "<missing>" if k not in b else "<present>"))
                continue
            diff(a[k], b[k], f"{path}/{k}", exact, rtol, atol, out, limit)
        return out
    if isinstance(a, list) and isinstance(b, list):
        if len(a) != len(b):
            out.append((f"{path}#len", len(a), len(b)))
            return out
        for i, (x, y) in enumerate(zip(a, b)):
            diff(x, y, f"{path}[{i}]", exact, rtol, atol, out, limit)
        return out
    if isinstance(a, float) and isinstance(b, float):
        if exact(path):
            if a != b:
                out.append((path, a, b))
        elif not math.isclose(a, b, rel_tol=rtol, abs_tol=atol):
            out.append((path, a, b))
        return out
    if a != b:
        out.append((path, a, b))
    return out


def state_hash(st, digits=None) -> str:
    """Hash of a canonical form; with ``digits`` floats are rounded to that many significant digits first."""

    def rnd(x):
        if isinstance(x, float) and digits is not None and x != 0 and math.isfinite(x):
            return float(f"{x:.{digits}e}")
        if isinstance(x, dict):
            return {k: rnd(v) for k, v in x.items()}
        if isinstance(x, list):
            return [rnd(v) for v in x]
        return x

    return hashlib.sha256(json.dumps(rnd(st), sort_keys=True).encode()).hexdigest()[:20]
