"""C07 - tasking decisions are feasible and optimal in the sense each policy documents; rewards are the documented
combination of normalised metrics.

Lattice explorer: every (visibility mask, reward matrix) of the announced small scope is pushed through the real
``Decision.calculate()`` of every policy and compared with a brute-force reference (all complete one-to-one
assignments / per-column maxima); every enumerated metric tensor is pushed through the real ``Reward`` classes and
``CentralizedTaskingEngine.calculateRewards/generateTasking/getCurrentTasking`` and compared with the docstring
formulae evaluated entry by entry.

Configuration path (what a scenario actually runs): every configured metric LIST (all sequences of the announced
lengths, repeats and order included) goes through the reward config classes / ``EngineConfig`` -> ``rewardsFactory``
and the engine chain and is compared with the documented combination of that list; every 'engines' section of 1-3
engines over a pool of three sensors (all tuples of the announced sensor lists: disjoint, identical, nested, partly
overlapping, repeated within an engine) goes through the real ``ScenarioBuilder``: a section that lists a sensor id
twice must be refused at build time, a legal one is run over the fake-ray seam and the tasks table of every step must
hold at most one decision per sensor id ACROSS engines.
"""
from __future__ import annotations

from copy import deepcopy
from datetime import datetime, timedelta
from itertools import permutations, product
from math import factorial
from types import SimpleNamespace

import numpy as np

from verif import framework as fw
from verif import scen  # installs the in-process fake ray before resonaate is imported (engine module imports ray)
from verif.oracles import c07_assign as orc

from pydantic import TypeAdapter

from resonaate.common.exceptions import DuplicateSensorError
from resonaate.common.labels import DecisionLabel, MetricTypeLabel, RewardLabel
from resonaate.data import setDBPath
from resonaate.parallel.tasking_reward_generation import RewardCalcResult, TaskingRewardRegistration
from resonaate.physics.time.stardate import JulianDate
from resonaate.scenario.config.decision_config import (
    AllVisibleDecision as AllVisibleDecisionConfig,
)
from resonaate.scenario.config.decision_config import (
    MunkresDecisionConfig,
    MyopicNaiveGreedyDecisionConfig,
    RandomDecisionConfig,
)
from resonaate.scenario.config.engine_config import EngineConfig
from resonaate.scenario.config.reward_config import (
    CombinedRewardConfig,
    CostConstrainedRewardConfig,
    MetricConfig,
    RewardConfig,
    SimpleSummationRewardConfig,
)
from resonaate.tasking.decisions import decisionFactory
from resonaate.tasking.decisions.decisions import (
    AllVisibleDecision,
    MunkresDecision,
    MyopicNaiveGreedyDecision,
    RandomDecision,
)
from resonaate.tasking.engine.centralized_engine import CentralizedTaskingEngine
from resonaate.tasking.metrics import metric_base
from resonaate.tasking.metrics.information import KLDivergence, ShannonInformation
from resonaate.tasking.metrics.sensor import SlewDistanceMaximization, SlewTimeMaximization, SlewTimeMinimization
from resonaate.tasking.metrics.stability import LyapunovStability
from resonaate.tasking.metrics.state import Range
from resonaate.tasking.metrics.target import TimeSinceObservation
from resonaate.tasking.metrics.uncertainty import PositionCovarianceTrace
from resonaate.tasking.rewards import rewardsFactory
from resonaate.tasking.rewards.rewards import CombinedReward, CostConstrainedReward, SimpleSummationReward

PROPERTY = "C07"
LEVEL = "model_checking"
RULE = (
    "decisions: every (visibility mask, reward matrix) lattice point of the announced shapes/alphabets, the reward "
    "matrix being masked by visibility (0 where invisible, as the engine produces it), is passed to the real "
    "Decision.calculate() of each policy, one call per point, and every clause (visible-only, at most one per "
    "sensor / per target, optimal complete assignment, column maximum, all-visible = mask, relabelling) is its own "
    "elemental case; rewards: every enumerated metric tensor x metric-type order x delta goes through "
    "Reward.calculateMetrics/normalizeMetrics/calculate and the engine's calculateRewards/generateTasking/"
    "getCurrentTasking. non-trivial (counted once per implementation call, on the primary clause): decisions = mask "
    "neither all-true nor all-false and rewards on the visible entries not constant (random/all-visible: mask "
    "mixed); relabelling = admissible decision unique and permutation not identity; rewards = some metric slice has "
    "a positive maximum different from 1 (normalisation acts) and the tensor is not constant; engine chain = mask "
    "mixed. distinct by construction (lattice points; each clause record belongs to exactly one call). "
    "configuration path: (a) every configured metric list = every sequence (order, repeats) over the announced metric "
    "names and lengths, per reward class, built by three routes (config class, RewardConfig union from a dict, "
    "EngineConfig from a dict) through rewardsFactory; a list the reward class documents as illegal must be refused "
    "with the documented exception, a legal one must give a reward over exactly that list and, through "
    "processResults/calculateRewards/generateTasking/getCurrentTasking on stand-in agents (3 shapes x 2 value tables "
    "x named masks x munkres/greedy), the reward column = the check's own combination of the configured list and the "
    "decision column = an optimum of that documented reward; non-trivial = the list repeats a metric name or a metric "
    "type. (b) every tuple of sensor lists for 1, 2 and 3 engines over the pool {a,b,c} (lists: singles, ordered "
    "pairs, repeated pairs, abc) through the real ScenarioBuilder, target lists disjoint / partly overlapping / "
    "identical and policies / reward configurations (repeated metric names included) rotated over the engines: a "
    "section in which a sensor id occurs twice must raise DuplicateSensorError at build time (non-trivial = >= 2 "
    "engines), a legal section must build as configured, run 3 steps, and per step and sensor id the tasks table holds "
    "at most one decision across engines (non-trivial = >= 2 engines task in that step), every engine's block equals "
    "its matrices, its reward column is the documented combination of its configured list on its own metric columns "
    "and its decision column the policy's optimum."
)
ASSUMPTIONS = [
    "the reward matrix handed to a decision is masked by visibility (metric rows of invisible pairs are zero, hence "
    "reward 0); for reward matrices that are not masked only feasibility and calculate == _calculate AND "
    "visibility are required",
    "ties are not alarms: any optimal assignment / any column maximum is accepted; relabelling must relabel the "
    "decision only when the admissible decision is unique",
    "small-integer rewards are summed exactly in binary64; for real-valued rewards any assignment whose total is "
    "within 1e-9 of the maximum is accepted (rounding of <= 8 addends of magnitude <= 4 is < 1e-14)",
    "the RandomDecision stream itself is not specified: only feasibility, one target per sensor that sees "
    "anything, reproducibility for equal seeds and full support over 64 draws are required",
    "stub Metric subclasses of the library's metric-type base classes stand in for the filter-based metrics (their "
    "values are the subject of other properties)",
    "configuration path: the VALUE of a metric for a (target, sensor) pair is trusted (subject of other properties): "
    "the reference evaluates the library's metric class, instantiated by the check from its own name -> class table, "
    "once per entry of the configured list; which metrics enter the reward, how often and how they are combined is "
    "the check's own. A metrics list is legal for CostConstrained/Combined iff it has exactly one metric of each "
    "documented type (ValueError for a wrong count, TypeError for wrong types, either when both), any non-empty list "
    "is legal for SimpleSummation ('takes any range of metrics, and sums them all together')",
    "an 'engines' section is legal iff no sensor id occurs twice in it ('Sensor can't be tasked by two engines', "
    "DuplicateSensorError); targets may be shared by engines (the builder only refuses differing initial states), so "
    "'at most one sensor per target' is required per engine only; sensors of an AllVisibleDecision engine are exempt "
    "from the at-most-one clause",
    "scenario-level reward reference: the engine's own metric columns of the step (normalised again by the check, "
    "which is idempotent) combined according to the configured list; column count must equal the list length",
]
EXPECT_MIN_NONTRIVIAL = 1000000

# tolerance for real-valued rewards / reward formulae.  Error source: binary64 rounding, <= 10 operations on
# magnitudes <= 4 -> < 1e-14.  Smallest defect to expose: a wrong coefficient/sign/index changes a reward by
# >= 0.0125 (delta grid 0.25 x metric grid 0.05) -> > 9 orders of margin on either side.
TOL = 1e-9

A4 = (-1.0, 0.0, 1.0, 2.0)
A3 = (-1.0, 0.0, 2.0)
A3P = (0.0, 1.0, 2.0)
A2 = (0.0, 1.0)
A2N = (-1.0, 1.0)
AREAL = (0.1, 0.2, 0.3)
AREAL5 = (0.1, 0.2, 0.3, 0.5, 0.5 + 2.0**-53)
ALPHABETS = {"A4": A4, "A3": A3, "A3P": A3P, "A2": A2, "A2N": A2N, "AREAL": AREAL, "AREAL5": AREAL5}
EXACT = {"A4", "A3", "A3P", "A2", "A2N"}

CHUNK = 40000  # lattice points per work item (~2-3 s of CPU)

POLICIES = ("munkres", "greedy")


# ------------------------------------------------------------------------------------------------ items
def _lat_items(t, s, alph, chunk=CHUNK):
    total = (len(ALPHABETS[alph]) + 1) ** (t * s)
    return [("lat", t, s, alph, c0, min(c0 + chunk, total)) for c0 in range(0, total, chunk)]


def _msk_items(t, s, alph, mask_code, chunk=CHUNK):
    k = bin(mask_code).count("1")
    total = len(ALPHABETS[alph]) ** k
    return [("msk", t, s, alph, mask_code, c0, min(c0 + chunk, total)) for c0 in range(0, total, chunk)]


def _mask_family(t, s, seed, every_single):
    """Named masks for shapes too large for all 2^(T*S) masks: all, none, (anti)diagonal band, its complement,
    single-zero and single-one masks (all of them, or 4 positions whose phase is shifted by the seed)."""
    n = t * s
    full = (1 << n) - 1
    diag = 0
    for i in range(max(t, s)):
        diag |= 1 << ((i % t) * s + (i % s))
    out = [("all", full), ("none", 0), ("diag", diag), ("offdiag", full & ~diag)]
    cb = 0
    for i in range(t):
        for j in range(s):
            if (i + j) % 2 == 0:
                cb |= 1 << (i * s + j)
    out.append(("checker", cb))
    positions = list(range(n)) if every_single else sorted({(seed * 5 + k * (n // 4) + k) % n for k in range(4)})
    for p in positions:
        out.append((f"zero@{p}", full & ~(1 << p)))
    for p in range(n):
        out.append((f"one@{p}", 1 << p))
    return out


SHAPES = [(t, s) for t in range(1, 5) for s in range(1, 5)]


def _decision_items(tier, seed):
    out = []
    for t, s in SHAPES:
        n = t * s
        if n <= 8:
            out += _lat_items(t, s, "A4")
        elif n == 9:
            out += _lat_items(t, s, "A4" if tier == "thorough" else "A3")
        elif n == 12:
            if tier == "thorough":
                out += _lat_items(t, s, "A2")
                out += _msk_items(t, s, "A3P", (1 << n) - 1)
            for _name, m in _mask_family(t, s, seed, tier == "thorough"):
                out += _msk_items(t, s, "A2" if tier == "quick" else "A2N", m)
        else:  # 4x4
            for name, m in _mask_family(t, s, seed, tier == "thorough"):
                out += _msk_items(t, s, "A2", m)
                if tier == "thorough" and name in ("all", "diag", "offdiag", "checker"):
                    out += _msk_items(t, s, "A3P" if name != "all" else "A2N", m)
            if tier == "thorough":
                out += _msk_items(t, s, "A3P", (1 << n) - 1, chunk=4 * CHUNK)
    # real-valued rewards (ties up to rounding)
    for t, s in [(2, 2), (2, 3), (3, 2)]:
        out += _lat_items(t, s, "AREAL5" if (tier == "thorough" or t * s == 4) else "AREAL")
    out += _msk_items(3, 3, "AREAL", 0b111111111)
    out += _msk_items(3, 3, "AREAL", 0b101111011)
    if tier == "thorough":
        out += _lat_items(3, 3, "AREAL")
    return out


def _equiv_items(tier, seed):
    out = []
    for t, s in SHAPES:
        n = t * s
        if n <= 6:
            total = 5**n
            out += [("equiv", t, s, "A4", "all", c0, min(c0 + 4000, total)) for c0 in range(0, total, 4000)]
        elif n <= 9:
            alph = "A3" if tier == "thorough" else "A2N"
            total = (len(ALPHABETS[alph]) + 1) ** n
            out += [("equiv", t, s, alph, "gen", c0, min(c0 + 6000, total)) for c0 in range(0, total, 6000)]
        else:
            alph = "A2N"
            fam = dict(_mask_family(t, s, seed, False))
            names = ["offdiag", "checker"] + (["all"] if (tier == "thorough" or n < 16) else [])
            for name in names:
                m = fam[name]
                total = 2 ** bin(m).count("1")
                step = 6000
                out += [("equivm", t, s, alph, "gen", m, c0, min(c0 + step, total)) for c0 in range(0, total, step)]
    return out


def _maskonly_items(tier, seed):
    out = []
    for t, s in SHAPES:
        total = 2 ** (t * s)
        step = 4096
        for c0 in range(0, total, step):
            out.append(("maskonly", t, s, seed, c0, min(c0 + step, total)))
    out.append(("support", seed))
    out.append(("factory", seed))
    return out


def _unmasked_items(tier, seed):
    out = []
    for t, s in SHAPES:
        n = t * s
        alphs = []
        if n <= 4 or (tier == "thorough" and n <= 6):
            alphs.append("A4")
        elif n <= 6:
            alphs.append("A3")
        elif n <= 9 and tier == "thorough":
            alphs.append("A2N")
        for alph in alphs:
            total = (2 * len(ALPHABETS[alph])) ** n  # per entry: (visible?, reward), independent
            step = CHUNK // 2
            out += [("unmasked", t, s, alph, c0, min(c0 + step, total)) for c0 in range(0, total, step)]
    return out


BIG_SHAPES_Q = [(5, 5), (6, 6), (5, 7), (7, 5), (8, 3), (3, 8), (7, 7), (8, 8), (6, 8), (8, 6)]


def _big_items(tier, seed):
    out = []
    for n in (5, 6) if tier == "quick" else (5, 6, 7):
        step = 120 if n < 7 else 252
        for c0 in range(0, factorial(n), step):
            out.append(("bigperm", n, c0, min(c0 + step, factorial(n))))
    for t, s in BIG_SHAPES_Q:
        out.append(("bigfam", t, s, seed))
    for t, s in KNOWN_SHAPES:
        out.append(("bigknown", t, s, seed))
    return out


REWARD_KINDS = ("cost_constrained", "combined", "simple_sum")


def _reward_items(tier, seed):
    out = []
    for kind in REWARD_KINDS:
        for shape in REWARD_SHAPES:
            plan = _reward_plan(kind, shape, tier)
            n_total = plan["n_values"]
            per_item = max(1, 6000 // max(1, len(plan["variants"])))
            for c0 in range(0, n_total, per_item):
                out.append(("reward", kind, list(shape), tier, c0, min(c0 + per_item, n_total)))
    return out


def _engine_items(tier, seed):
    out = []
    for t, s in ENGINE_SHAPES:
        for kind in REWARD_KINDS:
            out.append(("engine", t, s, kind, seed, tier))
    return out


def items(tier, seed):
    out = []
    out += _decision_items(tier, seed)
    out += _equiv_items(tier, seed)
    out += _maskonly_items(tier, seed)
    out += _unmasked_items(tier, seed)
    out += _big_items(tier, seed)
    out += _reward_items(tier, seed)
    out += _engine_items(tier, seed)
    out += [("scenario", pol, kind, seed) for pol in SCEN_POLICIES for kind in SCEN_REWARDS]
    out += _cfgreward_items(tier, seed)
    out += _cfgscen_items(tier, seed)
    return out


def bounds(tier, seed):
    its = items(tier, seed)
    kinds = {}
    for it in its:
        kinds[it[0]] = kinds.get(it[0], 0) + 1
    return {
        "shapes": "all T x S with 1 <= T,S <= 4 (T targets = rows, S sensors = columns)",
        "masked_lattices": {
            "T*S<=8": "all masks x rewards {-1,0,1,2} on the visible entries (5^(T*S) points)",
            "3x3": "all masks x {-1,0,2} (quick) / {-1,0,1,2} (thorough)",
            "3x4,4x3": "quick: named masks x {0,1}; thorough: all masks x {0,1}, all-visible x {0,1,2}, named x {-1,1}",
            "4x4": "named masks (all, none, diag, offdiag, checker, single-zero, single-one) x {0,1}; thorough adds "
            "{0,1,2}^16 all-visible and {-1,1}/{0,1,2} on the structured masks",
            "real-valued": "2x2 {0.1,0.2,0.3,0.5,0.5+1ulp} all masks; 2x3,3x2,3x3 {0.1,0.2,0.3}",
        },
        "beyond_4x4": "deterministic families instead of random matrices: all permutation-matrix rewards x {1,2} "
        "for n=5,6 (7 thorough) under 4 masks; strictly ordered / rank-one / constant / cyclic families for shapes "
        + str(BIG_SHAPES_Q)
        + "; beyond 8x8 (no brute force possible): constructed rewards with a known optimum (scaled one-to-one maps "
        "and their negated complements: shifts, reversal, affine maps) under 4 masks for shapes " + str(KNOWN_SHAPES),
        "policies": ["MunkresDecision", "MyopicNaiveGreedyDecision", "RandomDecision", "AllVisibleDecision"],
        "rewards": {k: [list(sh) for sh in REWARD_SHAPES] for k in REWARD_KINDS},
        "configured_metric_lists": {
            "simple_sum": f"all sequences of length 1-3 over {list(SS_NAMES)}, length 4 over "
            + (str(list(SS_NAMES)) if tier == "thorough" else str(list(SS_NAMES[:3])))
            + ", 4 longer lists with 3-5 repeats",
            "cost_constrained": f"all sequences of length 1-4 over {list(TY_NAMES6)}" + (f", length 5 over {list(TY_NAMES4)}" if tier == "thorough" else ""),
            "combined": f"all sequences of length 1-4 over {list(TY_NAMES6)}, length 5" + ("-6" if tier == "thorough" else "") + f" over {list(TY_NAMES4)}",
            "counts": {k: len(_cfg_sequences(k, tier)) for k in REWARD_KINDS},
            "routes": list(CFG_ROUTES),
            "deltas_for_legal_typed_lists": ["default", 0.5, 0.25],
            "numeric_chain": f"shapes {CFG_SHAPES} x 2 stand-in value tables (phase = seed) x masks "
            + str({f"{t}x{s}": _cfg_masks(t, s) for t, s in CFG_SHAPES}) + " x (munkres, greedy), one route per (list, delta) in rotation",
        },
        "engines_sections": {
            "sensor_pool": "a,b,c = 3 co-located ground radars (which site is 'a' = seed % 3), 5 targets (4 visible to all, 1 never)",
            "sensor_list_tuples": {str(ne): {"all": len(_cfg_sensor_patterns(ne)), "legal": len(_cfg_split(ne)[0]),
                                             "must_be_refused": len(_cfg_split(ne)[1])} for ne in (1, 2, 3)},
            "target_lists": CFG_TARGET_PATTERNS,
            "policies": "rotated over engines: munkres/greedy/random (variants 0-2), allvisible+munkres (variant 3)",
            "reward_configurations": [[k, list(n), d] for k, n, d in CFG_SCEN_REWARDS],
            "per_tuple": "quick: one (target pattern, variant) per tuple in rotation; thorough: all 3 x 4",
            "steps": CFG_NSTEPS,
        },
        "work_items_by_kind": kinds,
    }


# ------------------------------------------------------------------------------------------------ decisions
_DEC = {}


def _decisions():
    """Real policy objects, built through the library's factory from config objects."""
    if not _DEC:
        _DEC["munkres"] = decisionFactory(MunkresDecisionConfig())
        _DEC["greedy"] = decisionFactory(MyopicNaiveGreedyDecisionConfig())
        _DEC["allvisible"] = decisionFactory(AllVisibleDecisionConfig())
    return _DEC


def _call_batch(dec, r_in, v_in):
    """One real ``calculate`` call per lattice point.  Returns (decisions (N,T,S) bool, errors {index: text})."""
    n, t, s = r_in.shape
    out = np.zeros((n, t, s), dtype=bool)
    errors = {}
    calc = dec.calculate
    for i in range(n):
        try:
            d = calc(r_in[i], v_in[i])
            if d.shape != (t, s) or d.dtype != np.bool_:
                d = np.asarray(d)
                if d.shape != (t, s) or d.dtype.kind not in "biu":
                    errors[i] = f"malformed decision: shape {d.shape} dtype {d.dtype}"
                    continue
                d = d.astype(bool)
            out[i] = d
        except Exception as exc:  # noqa: BLE001 - any exception raised by the policy is a finding, not a harness error
            errors[i] = f"{type(exc).__name__}: {exc}"
    return out, errors


def _decode_lat(t, s, alph, c0, c1):
    vals = np.array(ALPHABETS[alph])
    a = len(vals)
    n = t * s
    c = np.arange(c0, c1, dtype=np.int64)
    digits = (c[:, None] // (np.int64(a + 1) ** np.arange(n, dtype=np.int64))[None, :]) % (a + 1)
    vis = digits > 0
    rew = np.where(vis, vals[np.maximum(digits - 1, 0)], 0.0)
    return c, rew.reshape(-1, t, s), vis.reshape(-1, t, s)


def _decode_msk(t, s, alph, mask_code, c0, c1):
    vals = np.array(ALPHABETS[alph])
    a = len(vals)
    n = t * s
    pos = [k for k in range(n) if (mask_code >> k) & 1]
    c = np.arange(c0, c1, dtype=np.int64)
    rew = np.zeros((len(c), n))
    if pos:
        digits = (c[:, None] // (np.int64(a) ** np.arange(len(pos), dtype=np.int64))[None, :]) % a
        rew[:, pos] = vals[digits]
    vis = np.zeros((len(c), n), dtype=bool)
    vis[:, pos] = True
    return c, rew.reshape(-1, t, s), vis.reshape(-1, t, s)


def _nontrivial_masked(rew, vis):
    """mask neither all-true nor all-false and rewards on the visible entries not constant."""
    n = rew.shape[0]
    vf = vis.reshape(n, -1)
    rf = rew.reshape(n, -1)
    mixed = vf.any(axis=1) & ~vf.all(axis=1)
    hi = np.where(vf, rf, -np.inf).max(axis=1)
    lo = np.where(vf, rf, np.inf).min(axis=1)
    return mixed & (hi > lo)


def _check_decisions(res, rew, vis, ident, mk_item, policies=POLICIES, exact=True):
    """Run every policy on every lattice point of the batch and record one elemental case per clause.

    ``ident(i)`` gives the identifying fields of point i, ``mk_item(i)`` a work item that replays just that point.
    """
    n, t, s = rew.shape
    nontriv = _nontrivial_masked(rew, vis)
    decs = _decisions()
    tol = 0.0 if exact else TOL
    for pol in policies:
        d, errors = _call_batch(decs[pol], rew.copy(), vis.copy())
        res.observe(d)
        sub_vis = (d & ~vis).reshape(n, -1).any(axis=1)  # tasked but not visible
        per_sensor = d.sum(axis=1).max(axis=1)
        per_target = d.sum(axis=2).max(axis=1)
        dcode = orc.pack(d)
        if pol == "munkres":
            opt, dcodes, near = orc.assignment_oracle(rew, vis, tol=tol)
            hit_exact = (opt & (dcodes == dcode[:, None])).any(axis=1)
            hit_near = (near & (dcodes == dcode[:, None])).any(axis=1)
            # number of distinct admissible decisions (for the outcome label / relabelling rule)
            n_opt = opt.sum(axis=1)
        else:
            hit_exact, _uniq, _ = orc.greedy_oracle(rew, vis, d)
            hit_near = hit_exact
            n_opt = (rew >= rew.max(axis=1, keepdims=True)).sum(axis=1).max(axis=1)
        for i in range(n):
            base = ident(i)
            base["policy"] = pol
            if i in errors:
                full = dict(base, reward=rew[i].tolist(), visible=vis[i].tolist())
                res.case(f"{pol}/no_exception", full, False, signature=f"C07/{pol}/exception", observed=errors[i],
                         expected="a boolean T x S decision matrix", item=mk_item(i))
                continue
            bad = sub_vis[i] or per_sensor[i] > 1 or (pol == "munkres" and per_target[i] > 1) or not hit_near[i]
            case = dict(base, reward=rew[i].tolist(), visible=vis[i].tolist()) if (bad or len(res.samples) < 2) else base
            it = mk_item(i) if bad else None
            obs = d[i].tolist() if bad else None
            res.case(f"{pol}/visible_only", case, not sub_vis[i], signature=f"C07/{pol}/tasked_invisible",
                     observed=obs, expected="decision subset of visibility", item=it)
            res.case(f"{pol}/one_target_per_sensor", case, per_sensor[i] <= 1,
                     signature=f"C07/{pol}/sensor_tasked_twice", observed=obs, expected="column sums <= 1", item=it)
            if pol == "munkres":
                res.case(f"{pol}/one_sensor_per_target", case, per_target[i] <= 1,
                         signature=f"C07/{pol}/target_tasked_twice", observed=obs, expected="row sums <= 1", item=it)
                if hit_near[i] and not hit_exact[i]:
                    res.either_way += 1
                res.case(f"{pol}/optimal_assignment", case, bool(hit_near[i]), nontrivial=bool(nontriv[i]),
                         signature=f"C07/{pol}/not_an_optimal_assignment_AND_visibility", observed=obs,
                         expected="(maximum-total complete one-to-one assignment of the masked rewards) AND visibility",
                         outcome=f"optimal_assignments={min(int(n_opt[i]), 9)},tasked={int(d[i].sum())}", item=it)
            else:
                res.case(f"{pol}/column_maximum", case, bool(hit_exact[i]), nontrivial=bool(nontriv[i]),
                         signature=f"C07/{pol}/not_the_column_maximum", observed=obs,
                         expected="per sensor: a maximum-reward target of its column, tasked iff visible",
                         outcome=f"max_ties={min(int(n_opt[i]), 9)},tasked={int(d[i].sum())}", item=it)


def _run_lat(res, item):
    _, t, s, alph, c0, c1 = item
    c, rew, vis = _decode_lat(t, s, alph, c0, c1)
    _check_decisions(
        res, rew, vis,
        lambda i: {"T": t, "S": s, "alphabet": alph, "code": int(c[i])},
        lambda i: ("lat", t, s, alph, int(c[i]), int(c[i]) + 1),
        exact=alph in EXACT,
    )


def _run_msk(res, item):
    _, t, s, alph, mask_code, c0, c1 = item
    c, rew, vis = _decode_msk(t, s, alph, mask_code, c0, c1)
    _check_decisions(
        res, rew, vis,
        lambda i: {"T": t, "S": s, "alphabet": alph, "mask": mask_code, "code": int(c[i])},
        lambda i: ("msk", t, s, alph, mask_code, int(c[i]), int(c[i]) + 1),
        exact=alph in EXACT,
    )


# ------------------------------------------------------------------------------------------------ relabelling
def _perm_pairs(t, s, mode):
    rows = list(permutations(range(t)))
    cols = list(permutations(range(s)))
    if mode == "all":
        pairs = [(p, q) for p in rows for q in cols]
    else:  # generating set: adjacent transposition and full cycle on each side, and both reversed
        def gens(k):
            ident = tuple(range(k))
            out = []
            if k >= 2:
                out.append((1, 0) + ident[2:])
                out.append(ident[1:] + (0,))
                out.append(ident[::-1])
            return ident, out

        ir, gr = gens(t)
        ic, gc = gens(s)
        pairs = [(p, ic) for p in gr] + [(ir, q) for q in gc]
        if gr and gc:
            pairs.append((gr[-1], gc[1]))
        pairs = list(dict.fromkeys(pairs))
    ident = (tuple(range(t)), tuple(range(s)))
    return [pq for pq in pairs if pq != ident]


def _check_equiv(res, rew, vis, t, s, mode, ident, mk_item, exact=True):
    n = rew.shape[0]
    decs = _decisions()
    tol = 0.0 if exact else TOL
    pairs = _perm_pairs(t, s, mode)
    for pol in POLICIES:
        d0, err0 = _call_batch(decs[pol], rew.copy(), vis.copy())
        if pol == "munkres":
            opt, dcodes, _near = orc.assignment_oracle(rew, vis, tol=tol)
            # admissible decision unique <=> all optimal assignments leave the same decision after the AND
            first = dcodes[np.arange(n), opt.argmax(axis=1)]
            unique = (~opt | (dcodes == first[:, None])).all(axis=1)
        else:
            _ok, unique, _ = orc.greedy_oracle(rew, vis, d0)
        for p, q in pairs:
            pl, ql = list(p), list(q)
            rew_p = np.ascontiguousarray(rew[:, pl][:, :, ql])
            vis_p = np.ascontiguousarray(vis[:, pl][:, :, ql])
            dp, errp = _call_batch(decs[pol], rew_p.copy(), vis_p.copy())
            res.observe(dp)
            want = d0[:, pl][:, :, ql]
            same = (dp == want).reshape(n, -1).all(axis=1)
            # the permuted problem's own reference (computed on the permuted input, not by permuting the reference)
            if pol == "munkres":
                opt_p, dcodes_p, near_p = orc.assignment_oracle(rew_p, vis_p, tol=tol)
                adm = (near_p & (dcodes_p == orc.pack(dp)[:, None])).any(axis=1)
            else:
                adm, _u, _ = orc.greedy_oracle(rew_p, vis_p, dp)
            for i in range(n):
                if i in err0 or i in errp:
                    full = dict(ident(i), policy=pol, reward=rew[i].tolist(), visible=vis[i].tolist(), rows=pl, cols=ql)
                    res.case(f"{pol}/relabelling", full, False, signature=f"C07/{pol}/exception",
                             observed=err0.get(i) or errp.get(i), item=mk_item(i))
                    continue
                ok = bool(adm[i]) and (bool(same[i]) or not unique[i])
                case = ident(i)
                case.update(policy=pol, rows=pl, cols=ql)
                if not ok or len(res.samples) < 2:
                    case.update(reward=rew[i].tolist(), visible=vis[i].tolist())
                res.case(
                    f"{pol}/relabelling", case, ok, nontrivial=bool(unique[i]),
                    signature=f"C07/{pol}/relabelling/" + ("not_admissible" if not adm[i] else "unique_optimum_not_relabelled"),
                    observed=None if ok else {"permuted_input_decision": dp[i].tolist(), "permuted_decision": want[i].tolist()},
                    expected="decision of relabelled input = relabelled decision (unique optimum) / an optimum (ties)",
                    outcome="unique" if unique[i] else "tied", item=None if ok else mk_item(i),
                )


def _run_equiv(res, item):
    _, t, s, alph, mode, c0, c1 = item
    c, rew, vis = _decode_lat(t, s, alph, c0, c1)
    _check_equiv(res, rew, vis, t, s, mode,
                 lambda i: {"T": t, "S": s, "alphabet": alph, "code": int(c[i])},
                 lambda i: ("equiv", t, s, alph, mode, int(c[i]), int(c[i]) + 1), exact=alph in EXACT)


def _run_equivm(res, item):
    _, t, s, alph, mode, mask_code, c0, c1 = item
    c, rew, vis = _decode_msk(t, s, alph, mask_code, c0, c1)
    _check_equiv(res, rew, vis, t, s, mode,
                 lambda i: {"T": t, "S": s, "alphabet": alph, "mask": mask_code, "code": int(c[i])},
                 lambda i: ("equivm", t, s, alph, mode, mask_code, int(c[i]), int(c[i]) + 1), exact=alph in EXACT)


# ------------------------------------------------------------------------------------------------ mask-only policies
def _mask_batch(t, s, c0, c1):
    n = t * s
    c = np.arange(c0, c1, dtype=np.int64)
    vis = ((c[:, None] >> np.arange(n, dtype=np.int64)[None, :]) & 1).astype(bool).reshape(-1, t, s)
    # rewards are irrelevant to these policies; a deterministic non-constant filler (masked like the engine's)
    filler = (((c[:, None] * 7 + np.arange(n)[None, :] * 3) % 5) - 1).astype(float).reshape(-1, t, s)
    return c, np.where(vis, filler, 0.0), vis


def _run_maskonly(res, item):
    _, t, s, seed, c0, c1 = item
    c, rew, vis = _mask_batch(t, s, c0, c1)
    n = len(c)
    vf = vis.reshape(n, -1)
    mixed = vf.any(axis=1) & ~vf.all(axis=1)
    # all-visible: exactly the visible pairs
    d, errors = _call_batch(_decisions()["allvisible"], rew.copy(), vis.copy())
    res.observe(d)
    eq = (d == vis).reshape(n, -1).all(axis=1)
    for i in range(n):
        ok = bool(eq[i]) and i not in errors
        case = {"policy": "allvisible", "T": t, "S": s, "mask": int(c[i])}
        res.case("allvisible/exactly_visible_pairs", case, ok, nontrivial=bool(mixed[i]),
                 signature="C07/allvisible/" + ("exception" if i in errors else "not_the_visible_pairs"),
                 observed=errors.get(i) or (None if ok else d[i].tolist()), expected=None if ok else vis[i].tolist(),
                 outcome=f"tasked={int(d[i].sum())}", item=None if ok else ("maskonly", t, s, seed, int(c[i]), int(c[i]) + 1))
    # random: two generators with the same seed (one from the config factory, one constructed directly) over the
    # same input sequence, and one with another seed
    for rs in (seed, seed + 1) if t * s < 16 else (seed,):
        a = decisionFactory(RandomDecisionConfig(seed=rs))
        b = RandomDecision(seed=rs)
        da, ea = _call_batch(a, rew.copy(), vis.copy())
        db, eb = _call_batch(b, rew.copy(), vis.copy())
        # (the drawn targets are deliberately not fed to the determinism digest: an unseeded generator must surface as
        # the reproducibility violation below, not as a harness error)
        same_seq = (da == db).reshape(n, -1).all(axis=1)
        first_diff = int(np.argmin(same_seq)) if not same_seq.all() else None
        # one elemental case per (seed, input sequence): two generators with equal seeds draw the same decisions
        res.case("random/reproducible_for_equal_seed", {"policy": "random", "rng_seed": rs, "T": t, "S": s, "chunk": [c0, c1]},
                 first_diff is None, nontrivial=bool(mixed.any()), signature="C07/random/not_reproducible",
                 observed=None if first_diff is None else {"first_differing_mask": int(c[first_diff]),
                                                           "factory_instance": da[first_diff].tolist(),
                                                           "direct_instance": db[first_diff].tolist()},
                 expected="identical decision sequences", item=item)
        colcnt = da.sum(axis=1)  # (n,S)
        want = vis.any(axis=1).astype(int)
        for i in range(n):
            case = {"policy": "random", "rng_seed": rs, "T": t, "S": s, "mask": int(c[i])}
            it = ("maskonly", t, s, seed, int(c[i]), int(c[i]) + 1)
            if i in ea or i in eb:
                res.case("random/no_exception", case, False, signature="C07/random/exception",
                         observed=ea.get(i) or eb.get(i), item=("maskonly", t, s, seed, c0, int(c[i]) + 1))
                continue
            inv = bool((da[i] & ~vis[i]).any())
            res.case("random/visible_only", case, not inv, signature="C07/random/tasked_invisible",
                     observed=da[i].tolist() if inv else None, expected="subset of visibility", item=it if inv else None)
            res.case("random/one_target_per_sensor", case, bool((colcnt[i] <= 1).all()),
                     signature="C07/random/sensor_tasked_twice", observed=colcnt[i].tolist(), item=it)
            res.case("random/one_if_any_visible", case, bool((colcnt[i] == want[i]).all()), nontrivial=bool(mixed[i]),
                     signature="C07/random/sensor_with_visible_target_idle_or_blind_sensor_tasked",
                     observed=colcnt[i].tolist(), expected=want[i].tolist(), outcome=f"tasked={int(da[i].sum())}", item=it)
    if t >= 2 and n >= 64:
        # the seed is used: another seed gives a different decision sequence on this chunk
        other, _ = _call_batch(RandomDecision(seed=seed + 1), rew.copy(), vis.copy())
        first, _ = _call_batch(RandomDecision(seed=seed), rew.copy(), vis.copy())
        res.case("random/seed_is_used", {"policy": "random", "T": t, "S": s, "chunk": [c0, c1]},
                 bool((other != first).any()), signature="C07/random/seed_ignored", item=item)


def _run_support(res, item):
    """RandomDecision is a choice among *all* visible targets: over 64 consecutive draws of one seeded generator
    every visible target of every sensor is chosen at least once (a miss has probability < 4*(3/4)^64 = 4e-8 for a
    uniform choice; the run is deterministic for the pinned numpy)."""
    seed = item[1]
    for t in (1, 2, 3, 4):
        for s in (1, 2):
            for m in range(1, 2 ** (t * s)):
                vis = orc.unpack(m, t, s)
                rew = np.where(vis, 1.0, 0.0)
                dec = RandomDecision(seed=seed + 17)
                seen = np.zeros((t, s), dtype=bool)
                err = None
                try:
                    for _ in range(64):
                        seen |= dec.calculate(rew.copy(), vis.copy())
                except Exception as exc:  # noqa: BLE001
                    err = f"{type(exc).__name__}: {exc}"
                res.observe(seen)
                res.case("random/support_is_all_visible_targets", {"policy": "random", "T": t, "S": s, "mask": m},
                         err is None and bool((seen == vis).all()), nontrivial=int(vis.sum(axis=0).max()) >= 2,
                         signature="C07/random/support" if err is None else "C07/random/exception",
                         observed=err or seen.tolist(), expected=vis.tolist(), item=item)


def _run_factory(res, item):
    """Label -> class mapping of the factories, seed/delta hand-over of fromConfig."""
    want = {
        DecisionLabel.MUNKRES: (MunkresDecisionConfig(), MunkresDecision),
        DecisionLabel.MYOPIC_NAIVE_GREEDY: (MyopicNaiveGreedyDecisionConfig(), MyopicNaiveGreedyDecision),
        DecisionLabel.RANDOM: (RandomDecisionConfig(seed=3), RandomDecision),
        DecisionLabel.ALL_VISIBLE: (AllVisibleDecisionConfig(), AllVisibleDecision),
    }
    for label, (cfg, cls) in want.items():
        obj = decisionFactory(cfg)
        res.case("factory/decision_class", {"label": str(label.value)}, type(obj) is cls, nontrivial=True,
                 signature="C07/factory/decision_class", observed=type(obj).__name__, expected=cls.__name__, item=item)
    rmap = {
        RewardLabel.COST_CONSTRAINED: (CostConstrainedRewardConfig, CostConstrainedReward,
                                       ["ShannonInformation", "LyapunovStability", "SlewTimeMinimization"]),
        RewardLabel.SIMPLE_SUM: (SimpleSummationRewardConfig, SimpleSummationReward, ["TimeSinceObservation", "Range"]),
        RewardLabel.COMBINED: (CombinedRewardConfig, CombinedReward,
                               ["ShannonInformation", "LyapunovStability", "SlewTimeMinimization", "TimeSinceObservation"]),
    }
    for label, (ccls, cls, metrics) in rmap.items():
        cfg = ccls(metrics=[MetricConfig(name=m) for m in metrics])
        obj = rewardsFactory(cfg)
        names = [type(m).__name__ for m in obj.metrics]
        ok = type(obj) is cls and names == metrics and (not hasattr(cfg, "delta") or obj._delta == cfg.delta)  # noqa: SLF001
        res.case("factory/reward_class", {"label": str(label.value)}, ok, nontrivial=True,
                 signature="C07/factory/reward_class", observed=[type(obj).__name__, names], expected=[cls.__name__, metrics],
                 item=item)
    # delta hand-over of fromConfig (rewards.py) - stand-in config object, then the library's own config classes
    tensor = orc.normalise_ref(_engine_tables(2, 3, 4, 1, 0))
    for cls, ccls, kind, names in (
        (CostConstrainedReward, CostConstrainedRewardConfig, "cost_constrained", rmap[RewardLabel.COST_CONSTRAINED][2]),
        (CombinedReward, CombinedRewardConfig, "combined", rmap[RewardLabel.COMBINED][2]),
    ):
        order = ("sensor", "information", "stability", "target")[: len(names)]
        for delta in (0.85, 0.5, 0.25):
            case = {"reward": kind, "delta": delta, "via": "fromConfig(stand-in config)"}
            try:
                obj = cls.fromConfig([STUBS[k]() for k in order], SimpleNamespace(delta=delta, name=kind, metrics=[]))
                got = np.asarray(obj.calculate(tensor[..., : len(order)].copy()), dtype=float).reshape(2, 3)
                ref = orc.reward_ref(kind, list(order), tensor[..., : len(order)], delta)
                res.case("factory/fromConfig_delta", case, fw.maxabs(got, ref) <= TOL, nontrivial=delta != 0.85,
                         signature="C07/factory/fromConfig_delta", observed=got.tolist(), expected=ref.tolist(), item=item)
            except Exception as exc:  # noqa: BLE001
                res.case("factory/fromConfig_delta", case, False, signature="C07/factory/exception",
                         observed=f"{type(exc).__name__}: {exc}", item=item)
            case = {"reward": kind, "delta": delta, "via": "library config class + rewardsFactory"}
            try:
                cfg = ccls(metrics=[MetricConfig(name=m) for m in names], delta=delta)
            except Exception as exc:  # noqa: BLE001
                text = f"{type(exc).__name__}: {exc}"
                rejected = type(exc).__name__ == "ValidationError" and "delta" in text and "less than 0" in text
                res.case("factory/reward_delta_from_config", case, False,
                         signature="C07/factory/reward_config_rejects_delta" if rejected else "C07/factory/exception",
                         observed=text[:300], expected="a reward with the configured delta (documented: ratio of "
                         "information reward to sensor reward, default 0.85)", item=item)
                continue
            try:
                obj = rewardsFactory(cfg)
                types = [str(getattr(m.metric_type, "value", m.metric_type)) for m in obj.metrics]
                got = np.asarray(obj.calculate(tensor[..., : len(names)].copy()), dtype=float).reshape(2, 3)
                ref = orc.reward_ref(kind, types, tensor[..., : len(names)], delta)
                res.case("factory/reward_delta_from_config", case, fw.maxabs(got, ref) <= TOL, nontrivial=True,
                         signature="C07/factory/reward_delta_from_config", observed=got.tolist(), expected=ref.tolist(), item=item)
            except Exception as exc:  # noqa: BLE001
                res.case("factory/reward_delta_from_config", case, False, signature="C07/factory/exception",
                         observed=f"{type(exc).__name__}: {exc}", item=item)
    res.observe("factory")


# ------------------------------------------------------------------------------------------------ unmasked inputs
def _run_unmasked(res, item):
    """Reward matrices that are NOT masked by visibility (the property's 'for any reward and visibility matrices'
    clauses): feasibility, and calculate() == _calculate() AND visibility as decision_base documents."""
    _, t, s, alph, c0, c1 = item
    n = t * s
    vals = np.array(ALPHABETS[alph])
    a = len(vals)
    c = np.arange(c0, c1, dtype=np.int64)
    digits = (c[:, None] // (np.int64(2 * a) ** np.arange(n, dtype=np.int64))[None, :]) % (2 * a)
    vis = (digits >= a).reshape(-1, t, s)
    rew = vals[digits % a].reshape(-1, t, s)
    nn = len(c)
    vf = vis.reshape(nn, -1)
    nontriv = vf.any(axis=1) & ~vf.all(axis=1) & (rew.reshape(nn, -1).max(axis=1) > rew.reshape(nn, -1).min(axis=1))
    decs = _decisions()
    for pol in ("munkres", "greedy"):
        dec = decs[pol]
        d, errors = _call_batch(dec, rew.copy(), vis.copy())
        res.observe(d)
        raw = np.zeros_like(d)
        for i in range(nn):
            try:
                raw[i] = dec._calculate(rew[i].copy(), vis[i].copy())  # noqa: SLF001
            except Exception as exc:  # noqa: BLE001
                errors.setdefault(i, f"{type(exc).__name__}: {exc}")
        inv = (d & ~vis).reshape(nn, -1).any(axis=1)
        per_sensor = d.sum(axis=1).max(axis=1)
        per_target = d.sum(axis=2).max(axis=1)
        anded = ((raw & vis) == d).reshape(nn, -1).all(axis=1)
        # the selection itself (before the AND) on the reward matrix as given
        if pol == "munkres":
            opt, _dc, _near = orc.assignment_oracle(rew, np.ones_like(vis))
            _r, _c, acodes = orc.assignments(t, s)
            sel_ok = (opt & (acodes[None, :] == orc.pack(raw)[:, None])).any(axis=1)
        else:
            sel_ok, _u, _ = orc.greedy_oracle(rew, np.ones_like(vis), raw)
        for i in range(nn):
            case = {"policy": pol, "T": t, "S": s, "alphabet": alph, "code": int(c[i])}
            it = ("unmasked", t, s, alph, int(c[i]), int(c[i]) + 1)
            if i in errors:
                res.case(f"{pol}/unmasked/no_exception", case, False, signature=f"C07/{pol}/exception",
                         observed=errors[i], item=it)
                continue
            bad = inv[i] or per_sensor[i] > 1 or (pol == "munkres" and per_target[i] > 1) or not anded[i] or not sel_ok[i]
            if bad:
                case.update(reward=rew[i].tolist(), visible=vis[i].tolist())
            obs = {"calculate": d[i].tolist(), "_calculate": raw[i].tolist()} if bad else None
            res.case(f"{pol}/unmasked/visible_only", case, not inv[i], signature=f"C07/{pol}/tasked_invisible",
                     observed=obs, item=it if bad else None)
            res.case(f"{pol}/unmasked/one_target_per_sensor", case, per_sensor[i] <= 1,
                     signature=f"C07/{pol}/sensor_tasked_twice", observed=obs, item=it if bad else None)
            if pol == "munkres":
                res.case(f"{pol}/unmasked/one_sensor_per_target", case, per_target[i] <= 1,
                         signature=f"C07/{pol}/target_tasked_twice", observed=obs, item=it if bad else None)
            res.case(f"{pol}/unmasked/selection_then_AND", case, bool(anded[i]) and bool(sel_ok[i]),
                     nontrivial=bool(nontriv[i]),
                     signature=f"C07/{pol}/unmasked/" + ("calculate_is_not_selection_AND_visibility" if not anded[i]
                                                         else "selection_not_optimal_for_given_rewards"),
                     observed=obs, expected="policy selection on the given rewards, then AND with visibility",
                     outcome=f"tasked={int(d[i].sum())}", item=it if bad else None)


# ------------------------------------------------------------------------------------------------ beyond 4x4
def _check_big(res, sub, rew, vis, ident, item):
    """Same clauses as the small lattices, brute force over all complete assignments (n! <= 40320)."""
    n, t, s = rew.shape
    decs = _decisions()
    nontriv = _nontrivial_masked(rew, vis)
    for pol in POLICIES:
        d, errors = _call_batch(decs[pol], rew.copy(), vis.copy())
        res.observe(d)
        for i in range(n):
            case = dict(ident(i), policy=pol, T=t, S=s)
            if i in errors:
                res.case(f"{pol}/{sub}", case, False, signature=f"C07/{pol}/exception", observed=errors[i], item=item)
                continue
            r1, v1, d1 = rew[i : i + 1], vis[i : i + 1], d[i : i + 1]
            feas = not (d[i] & ~vis[i]).any() and d[i].sum(axis=0).max() <= 1
            if pol == "munkres":
                feas = feas and d[i].sum(axis=1).max() <= 1
                opt, dcodes, _near = _big_assignment_oracle(r1[0], v1[0])
                hit = bool((opt & (dcodes == _pack_big(d[i]))).any())
            else:
                ok, _u, _ = orc.greedy_oracle(r1, v1, d1)
                hit = bool(ok[0])
            good = bool(feas and hit)
            if not good:
                case.update(reward=rew[i].tolist(), visible=vis[i].tolist())
            res.case(f"{pol}/{sub}", case, good, nontrivial=bool(nontriv[i]),
                     signature=f"C07/{pol}/{sub}/" + ("infeasible" if not feas else "not_optimal"),
                     observed=None if good else d[i].tolist(), outcome=f"tasked={int(d[i].sum())}", item=item)


def _pack_big(mat):
    flat = mat.reshape(-1)
    return (np.uint64(1) << np.nonzero(flat)[0].astype(np.uint64)).sum(dtype=np.uint64)


def _big_assignment_oracle(rew, vis):
    """Single T x S problem (T*S <= 64), decisions packed into uint64."""
    t, s = rew.shape
    rows, cols, _ = orc.assignments(t, s)
    totals = rew[rows, cols].sum(axis=1)
    opt = totals == totals.max()
    bits = (np.uint64(1) << (rows * s + cols).astype(np.uint64))
    dcodes = np.where(vis[rows, cols], bits, np.uint64(0)).sum(axis=1, dtype=np.uint64)
    return opt, dcodes, None


def _big_masks(t, s):
    full = np.ones((t, s), dtype=bool)
    ii, jj = np.indices((t, s))
    return {"all": full, "checker": (ii + jj) % 2 == 0, "lower": ii >= jj, "band": np.abs(ii - jj) <= 1}


def _run_bigperm(res, item):
    _, n, c0, c1 = item
    perms = list(permutations(range(n)))[c0:c1]
    masks = _big_masks(n, n)
    for scale in (1.0, 2.0):
        for mname, m in masks.items():
            rew = np.zeros((len(perms), n, n))
            for k, p in enumerate(perms):
                rew[k, np.arange(n), list(p)] = scale
            vis = np.broadcast_to(m, rew.shape).copy()
            rew = np.where(vis, rew, 0.0)
            _check_big(res, f"beyond4x4/permutation_n{n}", rew, vis,
                       lambda i, mname=mname, scale=scale: {"family": "permutation", "perm": list(perms[i]), "mask": mname, "scale": scale},
                       item)


def _run_bigfam(res, item):
    _, t, s, seed = item
    ii, jj = np.indices((t, s))
    fams = {
        "ordered": (ii * s + jj).astype(float),
        "ordered_neg": -(ii * s + jj).astype(float),
        "ordered_T": (jj * t + ii).astype(float),
        "rank_one": ((ii + 1) * (jj + 1)).astype(float),
        "rank_one_anti": ((ii + 1) * (s - jj)).astype(float),
        "constant": np.ones((t, s)),
        "zero": np.zeros((t, s)),
        "cyclic": ((ii + jj + seed) % max(t, s)).astype(float),
        "cyclic_neg": -((ii * 2 + jj + seed) % max(t, s)).astype(float),
        "latin_signed": (((ii * 3 + jj * 5 + seed) % 7) - 3).astype(float),
    }
    masks = _big_masks(t, s)
    names, rews, viss = [], [], []
    for fname, r in fams.items():
        for mname, m in masks.items():
            names.append((fname, mname))
            rews.append(np.where(m, r, 0.0))
            viss.append(m)
    _check_big(res, "beyond4x4/families", np.array(rews), np.array(viss),
               lambda i: {"family": names[i][0], "mask": names[i][1]}, item)



# ------------------------------------------------------------------------------------------------ up to 40 x 40
KNOWN_SHAPES = [(9, 9), (12, 12), (16, 16), (25, 25), (40, 40), (40, 25), (25, 40), (12, 30), (30, 7)]


def _injections(t, s, seed):
    """Deterministic one-to-one maps from the smaller side into the larger (as boolean T x S matrices)."""
    small, large = min(t, s), max(t, s)
    maps = {
        "shift0": [i % large for i in range(small)],
        "shift1": [(i + 1) % large for i in range(small)],
        f"shift{2 + seed % (large - 2)}": [(i + 2 + seed % (large - 2)) % large for i in range(small)],
        "reverse": [large - 1 - i for i in range(small)],
    }
    for a in (3, 7, 11):
        if np.gcd(a, large) == 1:
            maps[f"affine{a}"] = [(a * i + 5 + seed) % large for i in range(small)]
    out = {}
    for name, img in maps.items():
        p = np.zeros((t, s), dtype=bool)
        if t <= s:
            p[np.arange(small), img] = True
        else:
            p[img, np.arange(small)] = True
        out[name] = p
    return out


def _run_bigknown(res, item):
    """Sizes where n! brute force is impossible (the property text: up to 40 x 40): reward matrices whose optimum
    is known by construction.  R = c*P (P a one-to-one map of the smaller side): every optimal complete
    assignment contains all visible pairs of P, and for the all-visible mask P is the unique optimum;
    R = -c*(1-P): every tasked pair lies on P.  The greedy reference is O(T*S) and is used in full."""
    _, t, s, seed = item
    decs = _decisions()
    masks = _big_masks(t, s)
    for pname, pm in _injections(t, s, seed).items():
        for scale in (1.0, 2.0):
            for variant in ("positive", "negative"):
                for mname, m in masks.items():
                    raw = scale * pm if variant == "positive" else -scale * (~pm)
                    rew = np.where(m, raw, 0.0)[None]
                    vis = m[None].copy()
                    case = {"T": t, "S": s, "map": pname, "scale": scale, "variant": variant, "mask": mname}
                    for pol in POLICIES:
                        d, errors = _call_batch(decs[pol], rew.copy(), vis.copy())
                        res.observe(d)
                        c = dict(case, policy=pol)
                        if errors:
                            res.case(f"{pol}/upto40x40", c, False, signature=f"C07/{pol}/exception", observed=errors[0], item=item)
                            continue
                        d0 = d[0]
                        feas = not (d0 & ~m).any() and d0.sum(axis=0).max() <= 1 and (pol != "munkres" or d0.sum(axis=1).max() <= 1)
                        if pol == "greedy":
                            ok, _u, _ = orc.greedy_oracle(rew, vis, d)
                            good = bool(ok[0])
                        elif variant == "positive":
                            good = bool((d0 & pm & m == pm & m).all()) and (mname != "all" or bool((d0 == pm).all()))
                        else:
                            good = bool((d0 & ~(pm & m)).sum() == 0) and (mname != "all" or bool((d0 == pm).all()))
                        res.case(f"{pol}/upto40x40", c, bool(feas and good), nontrivial=mname != "all",
                                 signature=f"C07/{pol}/upto40x40/" + ("infeasible" if not feas else "known_optimum_missed"),
                                 observed=None if (feas and good) else np.argwhere(d0).tolist(),
                                 expected=None if (feas and good) else np.argwhere(pm & m).tolist(),
                                 outcome=f"tasked_is_P={bool((d0 == (pm & m)).all())}", item=item)


# ------------------------------------------------------------------------------------------------ rewards
class _Stub:
    """Mixin: value of the metric for a (target, sensor) pair is looked up in a table set by the harness."""

    def __init__(self):
        self.table = None

    def calculate(self, estimate_agent, sensor_agent):
        return self.table[estimate_agent.row, sensor_agent.col]


class StubInformation(_Stub, metric_base.InformationMetric):
    pass


class StubStability(_Stub, metric_base.StabilityMetric):
    pass


class StubSensor(_Stub, metric_base.SensorMetric):
    pass


class StubTarget(_Stub, metric_base.TargetMetric):
    pass


class StubUncertainty(_Stub, metric_base.UncertaintyMetric):
    pass


class StubState(_Stub, metric_base.StateMetric):
    pass


class StubInformation2(_Stub, metric_base.InformationMetric):
    pass


STUBS = {
    "information": StubInformation,
    "stability": StubStability,
    "sensor": StubSensor,
    "target": StubTarget,
    "uncertainty": StubUncertainty,
    "state": StubState,
    "information2": StubInformation2,
}
TYPE_OF = {k: (MetricTypeLabel.INFORMATION.value if k == "information2" else k) for k in STUBS}

REWARD_SHAPES = [(1, 1), (1, 2), (2, 1), (2, 2), (2, 3), (3, 2), (1, 4), (4, 1), (3, 3)]
ENGINE_SHAPES = [(1, 1), (1, 2), (2, 1), (2, 2), (2, 3), (3, 2), (3, 3), (1, 4), (4, 2)]
RVALS = (-1.0, 0.0, 0.5, 2.0)


def _slice_family(shape, small):
    """Metric slices (T,S) a tensor is assembled from."""
    t, s = shape
    n = t * s
    if n == 1:
        return [np.full((1, 1), v) for v in RVALS]
    if n == 2:
        vals = (-1.0, 0.0, 2.0) if small else RVALS
        return [np.array(c).reshape(t, s) for c in product(vals, repeat=2)]
    k = np.arange(n, dtype=float)
    fam = [
        np.zeros(n),  # max 0: not normalised
        -(k + 1) / 4.0,  # all negative, distinct: not normalised
        (k + 1) / 2.0,  # distinct positives, max at the last entry (> 1)
        (n - k) / (4.0 * n),  # distinct positives, max at the first entry (< 1)
        np.where(k % 2 == 0, k + 1.0, -(k + 1.0) / 2.0),  # mixed signs, distinct
    ]
    if not small:
        fam += [
            np.roll((k - 1.0) / 2.0, 1),  # contains -0.5, 0 and positives
            np.where(k == n // 2, 2.0, 0.0),  # single positive entry
            np.full(n, 0.5),  # constant
        ]
    return [f.reshape(t, s) for f in fam]


def _reward_plan(kind, shape, tier):
    """variants = (metric kinds in constructor order, delta or None for the constructor default, slice family)."""
    n = shape[0] * shape[1]
    thorough = tier == "thorough"
    if kind == "cost_constrained":
        base = ("information", "stability", "sensor")
        orders = list(permutations(base))
        if thorough or n != 2:
            combos = [(o, dl) for o in orders for dl in (None, 0.5, 0.25)]
        else:
            combos = [(o, None) for o in orders] + [(base, 0.5), (base[::-1], 0.25), (orders[3], 0.5)]
        variants = [(o, dl, _slice_family(shape, shape == (2, 1) and not thorough)) for o, dl in combos]
    elif kind == "combined":
        base = ("information", "stability", "sensor", "target")
        orders = list(permutations(base))
        if n == 2 and not thorough:
            orders = orders[::4] if shape == (1, 2) else orders[1::6]
        elif n > 2 and not thorough:
            orders = orders[::2] if (shape[0] + shape[1]) % 2 else orders[1::2]
        combos = [(o, None) for o in orders] + [(base, 0.5), (base[::-1], 0.25)]
        if n == 2 and not thorough:
            combos = combos[:-1] if shape == (1, 2) else combos[:-2] + [(base[::-1], 0.25)]
        variants = [(o, dl, _slice_family(shape, not thorough or n > 2)) for o, dl in combos]
    else:
        combos = [
            ("information",),
            ("target", "sensor"),
            ("uncertainty", "state", "information"),
            ("information", "information2", "stability", "target"),
        ]
        variants = [(o, None, _slice_family(shape, len(o) == 4 and n == 2 and not thorough)) for o in combos]
    n_values = max(len(f) ** len(o) for o, _dl, f in variants)
    return {"variants": variants, "n_values": n_values}


_ENGINE_READY = False


def _engine(t, s, reward, decision, sensor_ids=None, target_ids=None):
    global _ENGINE_READY  # noqa: PLW0603
    if not _ENGINE_READY:
        scen.fresh()
        setDBPath("sqlite://")
        _ENGINE_READY = True
    target_ids = target_ids or [300 + 7 * k for k in range(t)]
    sensor_ids = sensor_ids or [100 + 3 * k for k in range(s)]
    return CentralizedTaskingEngine(1, list(sensor_ids), list(target_ids), reward, decision, None, True)


def _build_reward(kind, order, delta):
    metrics = [STUBS[k]() for k in order]
    if kind == "simple_sum":
        return SimpleSummationReward(metrics), metrics, 0.0
    cls = CostConstrainedReward if kind == "cost_constrained" else CombinedReward
    if delta is None:
        return cls(metrics), metrics, 0.85  # documented constructor default
    return cls(metrics, delta=delta), metrics, delta


def _run_reward(res, item):
    _, kind, shape, tier, c0, c1 = item
    shape = tuple(shape)
    t, s = shape
    plan = _reward_plan(kind, shape, tier)
    ests = [SimpleNamespace(row=i, simulation_id=300 + 7 * i) for i in range(t)]
    sens = [SimpleNamespace(col=j, simulation_id=100 + 3 * j) for j in range(s)]
    for order, delta, fam in plan["variants"]:
        p = len(order)
        nf = len(fam)
        reward, metrics, dval = _build_reward(kind, order, delta)
        engine = _engine(t, s, reward, _decisions()["munkres"])
        types = [TYPE_OF[k] for k in order]
        for code in range(c0, min(c1, nf**p)):
            idx = [(code // nf**k) % nf for k in range(p)]
            tensor = np.stack([fam[i] for i in idx], axis=-1)  # (T,S,P) reference copy of the enumerated values
            for m, i in zip(metrics, idx):
                m.table = fam[i]
            case = {"reward": kind, "order": list(order), "delta": delta, "T": t, "S": s, "slices": idx}
            it = ("reward", kind, list(shape), tier, code, code + 1)
            tops = tensor.reshape(-1, p).max(axis=0)
            nontriv = bool(((tops > 0) & (tops != 1.0)).any()) and float(tensor.max()) > float(tensor.min())
            stab_label = "no_stability_metric"
            if "stability" in order:
                signs = sorted({int(np.sign(x)) for x in tensor[..., list(order).index("stability")].ravel()})
                stab_label = "stability_signs=" + ",".join(str(x) for x in signs)
            try:
                got = np.zeros((t, s, p))
                for i in range(t):
                    for j in range(s):
                        got[i, j] = reward.calculateMetrics(ests[i], sens[j])
                ok_m = bool((got == tensor).all())
                res.case("reward/calculateMetrics_order", case, ok_m, signature=f"C07/reward/{kind}/calculateMetrics",
                         observed=None if ok_m else got.tolist(), expected=None if ok_m else tensor.tolist(), item=it)
                norm = reward.normalizeMetrics(got.copy())
                ref_norm = orc.normalise_ref(tensor)
                ntops = np.asarray(norm).reshape(-1, p).max(axis=0)
                ok_top = bool((ntops <= 1.0 + 1e-12).all())
                res.case("reward/normalised_at_most_one", case, ok_top, signature=f"C07/reward/{kind}/normalised_max_above_one",
                         observed=None if ok_top else ntops.tolist(), expected="<= 1", item=it)
                ok_norm = np.asarray(norm).shape == ref_norm.shape and fw.maxabs(norm, ref_norm) <= TOL
                res.case("reward/normalised_is_metric_over_max", case, bool(ok_norm),
                         signature=f"C07/reward/{kind}/normalisation_value", observed=None if ok_norm else np.asarray(norm).tolist(),
                         expected=None if ok_norm else ref_norm.tolist(), outcome=f"slices_normalised={int(((tops > 0) & (tops != 1.0)).sum())}", item=it)
                # through the engine: calculateRewards() = normalise + formula + reshape to (targets, sensors)
                engine.metric_matrix = tensor.copy()
                engine.visibility_matrix = np.ones((t, s), dtype=bool)
                engine.calculateRewards()
                rmat = np.asarray(engine.reward_matrix, dtype=float)
                ref = orc.reward_ref(kind, types, ref_norm, dval)
                ok = rmat.shape == (t, s) and bool(np.isfinite(rmat).all()) and fw.maxabs(rmat, ref) <= TOL
                res.case(f"reward/formula/{kind}", case, ok, nontrivial=nontriv,
                         signature=f"C07/reward/{kind}/formula", observed=None if ok else rmat.tolist(),
                         expected=None if ok else ref.tolist(),
                         outcome=stab_label, item=it)
                direct = np.asarray(reward.calculate(ref_norm.copy()), dtype=float)
                ok_d = direct.size == t * s and fw.maxabs(direct.reshape(t, s), ref) <= TOL
                res.case(f"reward/calculate_direct/{kind}", case, ok_d, signature=f"C07/reward/{kind}/calculate_direct",
                         observed=None if ok_d else direct.tolist(), expected=None if ok_d else ref.tolist(), item=it)
                res.observe(rmat)
            except Exception as exc:  # noqa: BLE001
                res.case(f"reward/no_exception/{kind}", case, False, signature=f"C07/reward/{kind}/exception",
                         observed=f"{type(exc).__name__}: {exc}", item=it)


# ------------------------------------------------------------------------------------------------ engine chain
def _engine_tables(t, s, p, which, seed):
    """Deterministic metric tables with distinct entries (so that any transposition / row mix-up changes rewards)."""
    k = np.arange(t * s * p, dtype=float).reshape(t, s, p)
    if which == 0:
        return ((k * 7 + seed) % 11) / 2.0 - 1.0
    if which == 1:
        return ((k * 5 + 3 + seed) % 13) / 4.0 - 0.5
    if which == 2:
        return -(((k * 3 + seed) % 7) + 1.0) / 3.0
    return np.where((k + seed) % 3 == 0, 0.0, ((k * 11) % 17) / 8.0 - 0.75)


def _run_engine(res, item):
    """Hand-filled visibility / metric rows -> TaskingRewardRegistration.processResults -> calculateRewards ->
    generateTasking -> getCurrentTasking rows, for every decision class."""
    _, t, s, kind, seed, tier = item
    order = {"cost_constrained": ("sensor", "information", "stability"),
             "combined": ("target", "stability", "sensor", "information"),
             "simple_sum": ("target", "uncertainty")}[kind]
    p = len(order)
    types = [TYPE_OF[k] for k in order]
    # ids deliberately given unsorted: the engine sorts them and indexes rows/columns by sorted position
    target_ids = [300 + 7 * ((k * 2 + 1) % t if t % 2 else (t - 1 - k)) for k in range(t)]
    sensor_ids = [100 + 3 * (s - 1 - k) for k in range(s)]
    t_sorted, s_sorted = sorted(target_ids), sorted(sensor_ids)
    n = t * s
    masks = range(2**n) if n <= 6 or tier == "thorough" else sorted({(m * 37 + seed) % 2**n for m in range(0, 2**n, 5)} | {0, 2**n - 1})
    jd = JulianDate(2459304.5)
    pols = {
        "munkres": lambda: decisionFactory(MunkresDecisionConfig()),
        "greedy": lambda: decisionFactory(MyopicNaiveGreedyDecisionConfig()),
        "allvisible": lambda: decisionFactory(AllVisibleDecisionConfig()),
        "random": lambda: decisionFactory(RandomDecisionConfig(seed=seed + 5)),
    }
    for pol, mk in pols.items():
        reward, metrics, dval = _build_reward(kind, order, None)
        engine = _engine(t, s, reward, mk(), sensor_ids=sensor_ids, target_ids=target_ids)
        ests = [SimpleNamespace(row=i, simulation_id=t_sorted[i]) for i in range(t)]
        sens = [SimpleNamespace(col=j, simulation_id=s_sorted[j]) for j in range(s)]
        for m in masks:
            vis = orc.unpack(m, t, s)
            for which in range(4 if n <= 6 else 2):
                tables = _engine_tables(t, s, p, which, seed)
                for q, met in enumerate(metrics):
                    met.table = tables[..., q]
                case = {"reward": kind, "policy": pol, "T": t, "S": s, "mask": int(m), "tables": which}
                try:
                    # what asyncCalculateReward assembles per target: metrics of the visible pairs, zeros elsewhere
                    engine.visibility_matrix = np.zeros((t, s), dtype=bool)
                    engine.metric_matrix = np.zeros((t, s, p))
                    engine.reward_matrix = np.zeros((t, s))
                    engine.decision_matrix = np.zeros((t, s), dtype=bool)
                    tensor = np.zeros((t, s, p))
                    arrival = [(r * 2 + 1 + which) % t if t % 2 else (t - 1 - r) for r in range(t)]
                    for i in arrival:  # results arrive in a scrambled order
                        rowm = np.zeros((s, p))
                        for j in range(s):
                            if vis[i, j]:
                                rowm[j] = reward.calculateMetrics(ests[i], sens[j])
                        tensor[i] = rowm
                        reg = TaskingRewardRegistration(engine, None, reward, [None] * s)
                        reg.processResults(RewardCalcResult(estimate_id=t_sorted[i], visibility=vis[i].copy(), metric_matrix=rowm.copy()))
                    engine.calculateRewards()
                    engine.generateTasking()
                    rows = list(engine.getCurrentTasking(jd))
                except Exception as exc:  # noqa: BLE001
                    res.case("engine/no_exception", case, False, signature=f"C07/engine/{pol}/exception",
                             observed=f"{type(exc).__name__}: {exc}", item=item)
                    continue
                ref = orc.reward_ref(kind, types, orc.normalise_ref(tensor), dval)
                got_r = np.full((t, s), np.nan)
                got_v = np.zeros((t, s), dtype=bool)
                got_d = np.zeros((t, s), dtype=bool)
                seen = set()
                for row in rows:
                    i, j = t_sorted.index(row.target_id), s_sorted.index(row.sensor_id)
                    seen.add((i, j))
                    got_r[i, j], got_v[i, j], got_d[i, j] = float(row.reward), bool(row.visibility), bool(row.decision)
                mixed = 0 < int(vis.sum()) < n
                ok_rows = len(rows) == n and len(seen) == n and all(abs(float(r.julian_date) - float(jd)) < 1e-9 for r in rows)
                res.case("engine/task_rows_complete", case, ok_rows, signature=f"C07/engine/{pol}/task_rows",
                         observed=len(rows), expected=n, item=item)
                res.case("engine/visibility_column", case, bool((got_v == vis).all()),
                         signature=f"C07/engine/{pol}/visibility_column", observed=got_v.tolist(), expected=vis.tolist(), item=item)
                ok_r = bool(np.isfinite(got_r).all()) and fw.maxabs(got_r, ref) <= TOL
                res.case("engine/reward_column", case, ok_r, signature=f"C07/engine/{kind}/reward_column",
                         observed=got_r.tolist(), expected=ref.tolist(), item=item)
                res.case("engine/reward_masked_by_visibility", case, bool((np.abs(got_r[~vis]) <= TOL).all()) if ok_r else True,
                         signature=f"C07/engine/{kind}/reward_of_invisible_pair_nonzero", observed=got_r.tolist(), item=item)
                # decision column against the reference evaluated on the engine's own reward matrix
                r1, v1, d1 = got_r[None] if ok_r else ref[None], vis[None], got_d[None]
                feas = not (got_d & ~vis).any()
                if pol == "munkres":
                    _opt, dcodes, near = orc.assignment_oracle(r1, v1, tol=TOL)
                    good = feas and bool((near & (dcodes == orc.pack(d1)[:, None])).any()) and got_d.sum(axis=0).max() <= 1 and got_d.sum(axis=1).max() <= 1
                elif pol == "greedy":
                    okg, _u, _ = orc.greedy_oracle(r1, v1, d1)
                    good = feas and bool(okg[0])
                elif pol == "allvisible":
                    good = bool((got_d == vis).all())
                else:
                    good = feas and bool((got_d.sum(axis=0) == vis.any(axis=0)).all())
                if not good:
                    case = dict(case, visible=vis.tolist(), reward_matrix=got_r.tolist())
                res.case(f"engine/decision_column/{pol}", case, bool(good), nontrivial=mixed,
                         signature=f"C07/engine/{pol}/decision_column", observed=got_d.tolist(),
                         expected="policy reference on the stored reward/visibility columns",
                         outcome=f"tasked={int(got_d.sum())}", item=item)
                res.observe(got_r, got_d if pol != "random" else None)  # random draws: see _run_maskonly



# ------------------------------------------------------------------------------------------------ real scenario
SCEN_POLICIES = {
    "munkres": "MunkresDecision",
    "greedy": "MyopicNaiveGreedyDecision",
    "random": "RandomDecision",
    "allvisible": "AllVisibleDecision",
}
SCEN_REWARDS = {
    "simple_sum": ("SimpleSummationReward", ["TimeSinceObservation", "ShannonInformation"]),
    "cost_constrained": ("CostConstrainedReward", ["ShannonInformation", "LyapunovStability", "SlewTimeMinimization"]),
    "combined": ("CombinedReward", ["ShannonInformation", "LyapunovStability", "SlewTimeMinimization", "TimeSinceObservation"]),
}


def _run_scenario(res, item):
    """A real 4-target x 2-sensor scenario (real filters, real metrics, assess() over the in-process ray stand-in):
    the visibility / reward / decision columns of the tasks table of every step satisfy the same clauses."""
    from datetime import datetime, timedelta  # noqa: PLC0415

    from resonaate.data.task import Task  # noqa: PLC0415
    from resonaate.physics.time.conversions import getTargetJulianDate  # noqa: PLC0415
    from sqlalchemy.orm import Query  # noqa: PLC0415

    global _ENGINE_READY  # noqa: PLW0603
    _, pol, kind, seed = item
    _ENGINE_READY = False  # scen.build() starts a fresh cluster / DB
    start = datetime(2021, 3, 30, 16, 0, 0) + timedelta(minutes=11 * (seed % 7))
    step, n_steps = 60, 4
    when = start + timedelta(seconds=step)
    targets = [
        scen.target_eci(10001, *scen.overhead_orbit(when, 10.0, 20.0, 900.0)),
        scen.target_eci(10002, *scen.overhead_orbit(when, 10.0, 50.0, 1200.0, heading_deg=45.0)),
        scen.target_eci(10003, *scen.overhead_orbit(when, 10.0, 35.0, 6000.0)),
        scen.target_eci(10004, *scen.overhead_orbit(when, -10.0, 200.0, 900.0)),
        # low in the west of sensor 20001 and moving away: visible in the first step, below the horizon of BOTH sensors two
        # steps later, while the target and sensor sets (the shape of every matrix) stay what they are
        scen.target_eci(10005, *scen.overhead_orbit(when, 10.0, 20.0 - 24.5, 900.0, heading_deg=270.0)),
    ]
    sensors = [scen.ground_sensor(20001, 10.0, 20.0), scen.ground_sensor(20002, 10.0, 50.0)]
    rname, metrics = SCEN_REWARDS[kind]
    eng = scen.engine(1, targets, sensors, decision=SCEN_POLICIES[pol], reward=rname, metrics=[{"name": m} for m in metrics])
    if pol == "random":
        eng["decision"]["seed"] = seed + 3
    sc = scen.build(scen.config(start, n_steps + 1, [eng], physics=step))
    try:
        sc.propagateTo(getTargetJulianDate(sc.clock.julian_date_start, timedelta(seconds=n_steps * step)))
        rows = sc.database.getData(Query(Task))
    except Exception as exc:  # noqa: BLE001 - an exception out of the tasking step is a finding, not a harness error
        res.case("scenario/no_exception", {"policy": pol, "reward": kind}, False, signature=f"C07/scenario/{pol}/exception",
                 observed=f"{type(exc).__name__}: {exc}", expected="the tasking steps complete", item=item)
        return
    tids, sids = [10001, 10002, 10003, 10004, 10005], [20001, 20002]
    t, s = len(tids), len(sids)
    # independent notion of "cannot be visible": the TRUTH target more than 2 deg below the sensor's geocentric horizontal
    # (elevation masks start at +1 deg, the estimate is within kilometres of the truth, geodetic vs geocentric vertical
    # <= 0.2 deg) - from the stored truth rows, nothing of the tasking code
    from resonaate.data.ephemeris import TruthEphemeris  # noqa: PLC0415

    jd0 = float(sc.clock.julian_date_start)
    pos = {(round((e.julian_date - jd0) * 86400.0), e.agent_id): np.array([e.pos_x_km, e.pos_y_km, e.pos_z_km])
           for e in sc.database.getData(Query(TruthEphemeris))}

    def geo_elevation(sec, tid, sid):
        rs, rt = pos[(sec, sid)], pos[(sec, tid)]
        d = rt - rs
        return float(np.degrees(np.arcsin(np.clip(d @ rs / (np.linalg.norm(d) * np.linalg.norm(rs)), -1.0, 1.0))))

    seen_before, set_transitions = set(), 0
    by_epoch = {}
    for r in rows:
        by_epoch.setdefault(round((r.julian_date - float(sc.clock.julian_date_start)) * 86400.0), []).append(r)
    res.case("scenario/epochs_with_tasks", {"policy": pol, "reward": kind}, sorted(by_epoch) == [step * k for k in range(n_steps + 1)],
             signature="C07/scenario/epochs", observed=sorted(by_epoch), expected=[step * k for k in range(n_steps + 1)], item=item)
    for sec, rws in sorted(by_epoch.items()):
        case = {"policy": pol, "reward": kind, "second": sec}
        vis = np.zeros((t, s), dtype=bool)
        dec = np.zeros((t, s), dtype=bool)
        rew = np.full((t, s), np.nan)
        pairs = set()
        for r in rws:
            i, j = tids.index(r.target_id), sids.index(r.sensor_id)
            pairs.add((i, j))
            vis[i, j], dec[i, j] = bool(r.visibility), bool(r.decision)
            rew[i, j] = float("nan") if r.reward is None else float(r.reward)  # sqlite stores NaN as NULL
        complete = len(rws) == t * s and len(pairs) == t * s and bool(np.isfinite(rew).all())
        res.case("scenario/task_rows_complete", case, complete, signature="C07/scenario/task_rows", observed=len(rws),
                 expected=t * s, item=item)
        if not complete:
            continue
        below = [(tids[i], sids[j], round(geo_elevation(sec, tids[i], sids[j]), 2)) for i in range(t) for j in range(s)
                 if (sec, tids[i]) in pos and (sec, sids[j]) in pos and geo_elevation(sec, tids[i], sids[j]) < -2.0]
        wrong = [b for b in below if vis[tids.index(b[0]), sids.index(b[1])] or dec[tids.index(b[0]), sids.index(b[1])]]
        gone = {b[0] for b in below if all((b[0], sj, ) in {(x[0], x[1]) for x in below} for sj in sids)}
        set_transitions += len(gone & seen_before)
        res.case("scenario/visibility_vs_geometry", dict(case, pairs_below_horizon=len(below)), not wrong, nontrivial=bool(gone & seen_before),
                 signature=f"C07/scenario/{pol}/visible_or_tasked_below_horizon", observed=wrong[:4],
                 expected="visibility and decision False for a pair whose truth geometry is > 2 deg below the horizon", item=item)
        seen_before |= {tids[i] for i in range(t) if vis[i].any()}
        masked = bool((rew[~vis] == 0.0).all())
        res.case("scenario/reward_masked_by_visibility", case, masked, signature="C07/scenario/reward_of_invisible_pair_nonzero",
                 observed=rew.tolist(), expected=vis.tolist(), item=item)
        feas = not (dec & ~vis).any()
        r1, v1, d1 = rew[None], vis[None], dec[None]
        if pol == "munkres":
            _opt, dcodes, near = orc.assignment_oracle(r1, v1, tol=TOL)
            good = feas and dec.sum(axis=0).max() <= 1 and dec.sum(axis=1).max() <= 1 and bool((near & (dcodes == orc.pack(d1)[:, None])).any())
        elif pol == "greedy":
            okg, _u, _ = orc.greedy_oracle(r1, v1, d1)
            good = feas and bool(okg[0])
        elif pol == "allvisible":
            good = bool((dec == vis).all())
        else:
            good = feas and bool((dec.sum(axis=0) == vis.any(axis=0)).all())
        mixed = 0 < int(vis.sum()) < t * s
        res.case(f"scenario/decision_column/{pol}", dict(case, visible=vis.tolist(), reward_matrix=rew.tolist()), bool(good),
                 nontrivial=mixed, signature=f"C07/scenario/{pol}/decision_column", observed=dec.tolist(),
                 expected="policy reference on the stored reward / visibility columns",
                 outcome=f"visible={int(vis.sum())},tasked={int(dec.sum())},negative_rewards={int((rew < 0).sum() > 0)}", item=item)
        if pol != "random":  # later steps of a random-policy run depend on the draws; reproducibility is checked in _run_maskonly
            res.observe(vis, dec, np.round(rew, 9))
    # the scenario is built so that a target seen in an early step is below every sensor's horizon later (same matrix shapes)
    res.case("scenario/has_set_transition", {"policy": pol, "reward": kind}, set_transitions > 0, signature="C07/harness/no_target_sets_during_scenario",
             observed=set_transitions, item=item)


# ------------------------------------------------------------------------------------------------ configuration path
# Everything above builds Reward / Decision / engine objects directly.  A scenario gets them from its configuration:
# ScenarioConfig -> EngineConfig -> ScenarioBuilder._initTaskingEngines -> rewardsFactory / decisionFactory /
# _validateSensingAgents.  Two clauses of the property rest on that path alone:
#   * "rewards are the documented combination of metrics": the combination is over the configured metric LIST
#     (RewardConfigBase.metrics is a plain list, min_length 1: length, order and repeats are the user's), and
#   * "each sensor is tasked to at most one target": every engine decides for its own reward matrix, so for the tasks
#     table of a step this holds only because a sensor belongs to exactly one engine (DuplicateSensorError,
#     "Sensor can't be tasked by two engines").

# own name -> (class, metric type) table (deliberately not resonaate.tasking.metrics._METRIC_MAPPING)
CFG_METRICS = {
    "TimeSinceObservation": (TimeSinceObservation, "target"),
    "Range": (Range, "state"),
    "ShannonInformation": (ShannonInformation, "information"),
    "KLDivergence": (KLDivergence, "information"),
    "LyapunovStability": (LyapunovStability, "stability"),
    "SlewTimeMinimization": (SlewTimeMinimization, "sensor"),
    "SlewTimeMaximization": (SlewTimeMaximization, "sensor"),
    "SlewDistanceMaximization": (SlewDistanceMaximization, "sensor"),
    "PositionCovarianceTrace": (PositionCovarianceTrace, "uncertainty"),
}
CFG_REWARD_LABEL = {"simple_sum": "SimpleSummationReward", "cost_constrained": "CostConstrainedReward", "combined": "CombinedReward"}
CFG_REWARD_CLASS = {"simple_sum": SimpleSummationReward, "cost_constrained": CostConstrainedReward, "combined": CombinedReward}
CFG_CONFIG_CLASS = {"simple_sum": SimpleSummationRewardConfig, "cost_constrained": CostConstrainedRewardConfig,
                    "combined": CombinedRewardConfig}
CFG_NEEDS = {"cost_constrained": ("information", "stability", "sensor"),
             "combined": ("information", "stability", "sensor", "target")}
# simple summation: one name of every metric type plus a second information metric (two names of one type)
SS_NAMES = ("TimeSinceObservation", "Range", "ShannonInformation", "KLDivergence", "LyapunovStability",
            "SlewTimeMaximization", "PositionCovarianceTrace")
# typed rewards: the four required types, plus a second information and a second sensor metric
TY_NAMES4 = ("ShannonInformation", "LyapunovStability", "SlewTimeMinimization", "TimeSinceObservation")
TY_NAMES6 = TY_NAMES4 + ("KLDivergence", "SlewDistanceMaximization")
CFG_ROUTES = ("config_class", "reward_union_from_dict", "engine_config_from_dict")
CFG_SHAPES = [(2, 1), (2, 2), (3, 2)]
CFG_STRIDE = {"simple_sum": 10, "cost_constrained": 4, "combined": 8}  # work items per reward class (interleaved)
_REWARD_ADAPTER = TypeAdapter(RewardConfig)


def _cfg_sequences(kind, tier):
    """Configured metric lists: EVERY sequence (order and repeats matter) of the announced lengths."""
    thorough = tier == "thorough"
    if kind == "simple_sum":
        seqs = [q for n in (1, 2, 3) for q in product(SS_NAMES, repeat=n)]
        seqs += list(product(SS_NAMES if thorough else SS_NAMES[:3], repeat=4))
        seqs += [("TimeSinceObservation",) * 5, ("TimeSinceObservation", "Range") * 3,
                 ("Range",) + ("ShannonInformation",) * 4 + ("Range",), ("KLDivergence", "ShannonInformation") * 2 + ("KLDivergence",)]
        return seqs
    if kind == "cost_constrained":
        seqs = [q for n in (1, 2, 3, 4) for q in product(TY_NAMES6, repeat=n)]
        if thorough:
            seqs += list(product(TY_NAMES4, repeat=5))
        return seqs
    seqs = [q for n in (1, 2, 3, 4) for q in product(TY_NAMES6, repeat=n)]
    seqs += list(product(TY_NAMES4, repeat=5))
    if thorough:
        seqs += list(product(TY_NAMES4, repeat=6))
    return seqs


def _cfg_legal(kind, names):
    """(legal?, exception the reward class documents).  The typed rewards need exactly one metric of each required
    type: 'ValueError: raised if not supplied three [four] metric objects', 'TypeError: raised if not supplied one of
    each metric type'.  With the right count, 'every required type present' already means exactly one of each."""
    if kind == "simple_sum":
        return True, None
    need = CFG_NEEDS[kind]
    types = [CFG_METRICS[n][1] for n in names]
    count_ok = len(names) == len(need)
    types_ok = all(ty in types for ty in need)
    if count_ok and types_ok:
        return True, None
    if count_ok:
        return False, ("TypeError",)
    return False, ("ValueError",) if types_ok else ("ValueError", "TypeError")


_CFG_TEMPLATE = {}


def _cfg_reward_config(kind, names, delta, route):
    body = {"name": CFG_REWARD_LABEL[kind], "metrics": [{"name": n} for n in names]}
    if delta is not None:
        body["delta"] = delta
    if route == "config_class":
        kw = {} if delta is None else {"delta": delta}
        return CFG_CONFIG_CLASS[kind](metrics=[MetricConfig(name=n) for n in names], **kw)
    if route == "reward_union_from_dict":
        return _REWARD_ADAPTER.validate_python(body)
    if not _CFG_TEMPLATE:
        _CFG_TEMPLATE.update(scen.engine(1, [scen.target_eci(10001, *scen.LEO_A)], [scen.ground_sensor(20001, 10.0, 20.0)]))
    eng = deepcopy(_CFG_TEMPLATE)
    eng["reward"] = body
    return EngineConfig(**eng).reward


_CFG_JD = 2459304.5
_CFG_STALE = (600.0, 360.0, 480.0, 240.0)  # seconds since the last observation
_CFG_RADIUS = (7378.0, 8078.0, 7678.0, 8478.0)  # km; the stalest target is the closest: the metrics disagree
_CFG_FRAC = (0.5, 0.8, 0.3, 0.9)  # est_p = frac * pred_p
_CFG_STANDINS = {}


def _cfg_standins(t, s, w):
    """Plain stand-in agents carrying exactly the attributes the library's metric classes read."""
    key = (t, s, w)
    if key not in _CFG_STANDINS:
        ests, sens = [], []
        for i in range(t):
            k = (i + w) % 4
            ang = 0.02 * (i + 1)
            pos = _CFG_RADIUS[k] * np.array([np.cos(ang), np.sin(ang), 0.01 * i])
            pred = np.diag([4.0 + k, 3.0, 2.0 + 0.5 * i, 1.0e-3, 2.0e-3, 1.0e-3 * (1 + k)])
            ests.append(SimpleNamespace(
                row=i, simulation_id=300 + 7 * i, julian_date_epoch=_CFG_JD,
                last_observed_at=_CFG_JD - _CFG_STALE[k] / 86400.0,
                eci_state=np.array([pos[0], pos[1], pos[2], 0.0, 7.3, 0.0]),
                nominal_filter=SimpleNamespace(pred_p=pred, est_p=_CFG_FRAC[k] * pred, time=60.0 * (1 + k)),
                # trace ratio above one for even k, below one for odd k: both signs of the stability metric
                initial_covariance=np.diag([2.0, 2.0, 2.0, 1e-3, 1e-3, 1e-3]) * (1.0 if k % 2 == 0 else 4.0),
            ))
        for j in range(s):
            ang = -0.03 * j
            bore = np.array([0.3, 0.5 + 0.1 * j + 0.05 * w, 0.8])
            bore = bore / np.linalg.norm(bore)
            sens.append(SimpleNamespace(
                col=j, simulation_id=100 + 3 * j, datetime_epoch=datetime(2021, 3, 30, 16, 0, 0),
                eci_state=np.array([6378.0 * np.cos(ang), 6378.0 * np.sin(ang), 0.0, 0.0, 0.46, 0.0]),
                sensors=SimpleNamespace(
                    slew_rate=np.radians(3.0) * (1 + j), r_matrix=np.eye(2) * 1.0e-6,
                    deltaBoresight=lambda v, bore=bore: float(np.arccos(np.clip(np.dot(v, bore) / np.linalg.norm(v), -1.0, 1.0))),
                ),
            ))
        # reference tables: value of each metric name for each pair, from the check's own instances
        tables = {}
        for name, (cls, _ty) in CFG_METRICS.items():
            inst = cls()
            tables[name] = np.array([[float(inst.calculate(e, se)) for se in sens] for e in ests])
        _CFG_STANDINS[key] = (ests, sens, tables)
    return _CFG_STANDINS[key]


def _cfg_masks(t, s):
    n = t * s
    full = (1 << n) - 1
    if n <= 2:
        return [m for m in range(1, full + 1)]
    if n == 4:
        return [full, 0b1001, 0b0110, full & ~1, full & ~8]
    return [full, 0b011001, full & ~4]


def _cfgreward_items(tier, seed):
    out = []
    for kind in REWARD_KINDS:
        n = len(_cfg_sequences(kind, tier))
        step = CFG_STRIDE[kind] * (4 if tier == "thorough" else 1)
        out += [("cfgreward", kind, c0, n, step, seed, tier) for c0 in range(step)]  # sequences c0, c0+step, ...
    return out


def _run_cfgreward(res, item):
    """Rewards built from configuration (config classes / the discriminated union / EngineConfig -> rewardsFactory,
    the call ScenarioBuilder._initTaskingEngines makes) for every configured metric list of the announced alphabet."""
    _, kind, c0, c1, stride, seed, tier = item
    seqs = _cfg_sequences(kind, tier)
    for q in range(c0, min(c1, len(seqs)), stride):
        names = list(seqs[q])
        legal, want_exc = _cfg_legal(kind, names)
        it = ("cfgreward", kind, q, q + 1, 1, seed, tier)
        deltas = (None,) if (kind == "simple_sum" or not legal) else (None, 0.5, 0.25)
        repeated = len(set(names)) < len(names)
        for di, delta in enumerate(deltas):
            for ri, route in enumerate(CFG_ROUTES):
                case = {"reward": kind, "metrics": names, "delta": delta, "route": route}
                try:
                    cfg = _cfg_reward_config(kind, names, delta, route)
                    parsed = [str(getattr(m.name, "value", m.name)) for m in cfg.metrics]
                except Exception as exc:  # noqa: BLE001
                    res.case("config/reward/metric_list_kept_by_config", case, False,
                             signature=f"C07/config/reward/{kind}/config_class_refuses_metric_list",
                             observed=f"{type(exc).__name__}: {exc}"[:300], expected="metrics: list[MetricConfig], min_length 1", item=it)
                    continue
                res.case("config/reward/metric_list_kept_by_config", case, parsed == names,
                         signature=f"C07/config/reward/{kind}/config_changes_metric_list", observed=parsed, expected=names, item=it)
                reward, err = None, None
                try:
                    reward = rewardsFactory(cfg)
                except Exception as exc:  # noqa: BLE001
                    err = (type(exc).__name__, f"{type(exc).__name__}: {exc}"[:300])
                if not legal:
                    ok = reward is None and err[0] in want_exc
                    built = None if reward is None else [type(m).__name__ for m in reward.metrics]
                    sig = ("illegal_metric_list_accepted" if reward is not None else "illegal_metric_list_refused_with_other_exception")
                    res.case(f"config/reward/illegal_metric_list_refused/{kind}", case, ok, nontrivial=repeated,
                             signature=f"C07/config/reward/{kind}/{sig}",
                             observed={"metrics_of_built_reward": built} if reward is not None else err[1],
                             expected=" or ".join(want_exc) + f" (needs exactly one metric of each of {list(CFG_NEEDS[kind])})",
                             outcome="count_wrong" if len(names) != len(CFG_NEEDS[kind]) else "types_wrong", item=it)
                    continue
                if reward is None:
                    res.case(f"config/reward/legal_metric_list_builds/{kind}", case, False,
                             signature=f"C07/config/reward/{kind}/legal_metric_list_refused", observed=err[1], item=it)
                    continue
                built = [type(m).__name__ for m in reward.metrics]
                ok_b = type(reward) is CFG_REWARD_CLASS[kind] and built == names
                res.case(f"config/reward/metrics_built_are_the_configured_list/{kind}", case, ok_b,
                         signature=f"C07/config/reward/{kind}/metrics_built_differ_from_configured_list",
                         observed=[type(reward).__name__, built], expected=[CFG_REWARD_CLASS[kind].__name__, names], item=it)
                if (q + di) % len(CFG_ROUTES) == ri:
                    _cfg_numeric(res, case, it, kind, names, delta, reward, seed)


def _cfg_numeric(res, case0, it, kind, names, delta, reward, seed):
    """metric rows as asyncCalculateReward assembles them (calculateMetrics of the visible pairs, zeros elsewhere) ->
    processResults -> calculateRewards -> generateTasking -> getCurrentTasking, against the documented combination of
    the CONFIGURED list evaluated by the check (own metric instances, own normalisation, own formulae)."""
    dval = 0.85 if delta is None else delta
    types = [CFG_METRICS[n][1] for n in names]
    uniq = list(dict.fromkeys(names))
    jd = JulianDate(_CFG_JD)
    nontriv_list = len(set(names)) < len(names) or len(set(types)) < len(types)
    for t, s in CFG_SHAPES:
        target_ids = [300 + 7 * (t - 1 - k) for k in range(t)]  # given unsorted; the engine sorts
        sensor_ids = [100 + 3 * (s - 1 - k) for k in range(s)]
        t_sorted, s_sorted = sorted(target_ids), sorted(sensor_ids)
        for w in ((seed % 4), (seed + 1) % 4):
            ests, sens, tables = _cfg_standins(t, s, w)
            full_ref = np.stack([tables[n] for n in names], axis=-1)
            dedup_ref = np.stack([tables[n] for n in uniq], axis=-1)
            try:
                lib_full = np.array([[np.asarray(reward.calculateMetrics(ests[i], sens[j]), dtype=float) for j in range(s)]
                                     for i in range(t)])
            except Exception as exc:  # noqa: BLE001
                res.case("config/reward/no_exception", dict(case0, T=t, S=s, tables=w), False,
                         signature=f"C07/config/reward/{kind}/exception", observed=f"{type(exc).__name__}: {exc}"[:300], item=it)
                continue
            for m in _cfg_masks(t, s):
                vis = orc.unpack(m, t, s)
                ref = orc.reward_ref(kind, types, orc.normalise_ref(np.where(vis[..., None], full_ref, 0.0)), dval)
                flips = "n/a"
                if kind == "simple_sum":
                    alt = orc.reward_ref(kind, None, orc.normalise_ref(np.where(vis[..., None], dedup_ref, 0.0)), dval)
                    flips = int(bool((np.argmax(np.where(vis, alt, -np.inf), axis=0) != np.argmax(np.where(vis, ref, -np.inf), axis=0))[vis.any(axis=0)].any()))
                for pol in POLICIES:
                    case = dict(case0, policy=pol, T=t, S=s, mask=int(m), tables=w)
                    try:
                        engine = _engine(t, s, reward, _decisions()[pol], sensor_ids=sensor_ids, target_ids=target_ids)
                        p_lib = engine.num_metrics
                        engine.visibility_matrix = np.zeros((t, s), dtype=bool)
                        engine.metric_matrix = np.zeros((t, s, p_lib))
                        engine.reward_matrix = np.zeros((t, s))
                        engine.decision_matrix = np.zeros((t, s), dtype=bool)
                        for i in [(r * 2 + 1 + w) % t if t % 2 else (t - 1 - r) for r in range(t)]:
                            reg = TaskingRewardRegistration(engine, None, reward, [None] * s)
                            reg.processResults(RewardCalcResult(estimate_id=t_sorted[i], visibility=vis[i].copy(),
                                                                metric_matrix=np.where(vis[i][:, None], lib_full[i], 0.0)))
                        engine.calculateRewards()
                        engine.generateTasking()
                        rows = list(engine.getCurrentTasking(jd))
                    except Exception as exc:  # noqa: BLE001
                        res.case("config/reward/no_exception", case, False, signature=f"C07/config/reward/{kind}/exception",
                                 observed=f"{type(exc).__name__}: {exc}"[:300], item=it)
                        continue
                    got_r = np.full((t, s), np.nan)
                    got_d = np.zeros((t, s), dtype=bool)
                    for row in rows:
                        i, j = t_sorted.index(row.target_id), s_sorted.index(row.sensor_id)
                        got_r[i, j], got_d[i, j] = float(row.reward), bool(row.decision)
                    ok_r = len(rows) == t * s and bool(np.isfinite(got_r).all()) and fw.maxabs(got_r, ref) <= TOL
                    res.case(f"config/reward/documented_combination_of_configured_list/{kind}", case, ok_r,
                             nontrivial=nontriv_list and pol == POLICIES[0],
                             signature=f"C07/config/reward/{kind}/reward_is_not_the_combination_of_the_configured_list",
                             observed=None if ok_r else {"reward_column": got_r.tolist(), "metrics_used": p_lib},
                             expected=None if ok_r else {"reward": ref.tolist(), "metrics_configured": len(names)},
                             outcome=f"len={len(names)},distinct_names={len(uniq)},distinct_types={len(set(types))}", item=it)
                    feas = not (got_d & ~vis).any() and got_d.sum(axis=0).max() <= 1
                    if pol == "munkres":
                        _opt, dcodes, near = orc.assignment_oracle(ref[None], vis[None], tol=TOL)
                        good = feas and got_d.sum(axis=1).max() <= 1 and bool((near & (dcodes == orc.pack(got_d[None])[:, None])).any())
                    else:
                        okg, _u, _ = orc.greedy_oracle(ref[None], vis[None], got_d[None], tol=TOL)
                        good = feas and bool(okg[0])
                    res.case(f"config/decision_is_optimum_of_documented_reward/{pol}", case, bool(good),
                             nontrivial=nontriv_list and 0 < int(vis.sum()),
                             signature=f"C07/config/reward/{kind}/decision_not_an_optimum_of_the_documented_reward/{pol}",
                             observed=None if good else {"decision": got_d.tolist(), "reward_column": got_r.tolist()},
                             expected=None if good else {"documented_reward": ref.tolist(), "visible": vis.tolist()},
                             outcome=f"tasked={int(got_d.sum())},dropping_repeats_would_change_greedy_choice={flips}", item=it)
                    res.observe(np.round(got_r, 9), got_d)


# ---------------------------------------------------------------------------------- several engines, one scenario
CFG_POOL = "abc"
CFG_SENSOR_IDS = (20001, 20002, 20003)
CFG_SITES = ((10.0, 20.0), (10.0, 20.6), (10.5, 20.2))
CFG_ENGINE_IDS = (5, 0, 9)  # deliberately not ascending, and 0 is a legal engine id
CFG_STEP, CFG_NSTEPS = 60, 3
CFG_POLICY_ROT = ("munkres", "greedy", "random")
# per-engine reward configurations of the scenario-level cases (rotated over the engines): single metric, repeated
# metrics, every reward class
CFG_SCEN_REWARDS = [
    ("simple_sum", ("TimeSinceObservation",), None),
    ("simple_sum", ("TimeSinceObservation", "TimeSinceObservation", "Range"), None),
    ("cost_constrained", ("ShannonInformation", "LyapunovStability", "SlewTimeMinimization"), 0.5),
    ("simple_sum", ("Range", "TimeSinceObservation", "Range", "ShannonInformation", "TimeSinceObservation"), None),
    ("combined", ("TimeSinceObservation", "SlewTimeMinimization", "LyapunovStability", "ShannonInformation"), None),
    ("simple_sum", ("ShannonInformation", "ShannonInformation"), None),
]
# target lists of the engines (indices into the target pool; 5 = a target no sensor of the pool ever sees)
CFG_TARGET_PATTERNS = {
    1: {"disjoint": [(1, 2, 3, 4, 5)], "partial": [(4, 2, 5, 1)], "identical": [(3, 1, 2)]},
    2: {"disjoint": [(1, 2), (3, 4, 5)], "partial": [(1, 2, 5), (4, 3, 2)], "identical": [(1, 2, 3, 5), (1, 2, 3, 5)]},
    3: {"disjoint": [(1, 2), (3,), (4, 5)], "partial": [(1, 2), (3, 2), (5, 3, 4)], "identical": [(1, 2, 3, 4)] * 3},
}
CFG_TPAT_NAMES = ("disjoint", "partial", "identical")
CFG_REFUSE_CHUNK = 80


def _cfg_sensor_patterns(n_engines):
    """Sensor lists of the engines over the pool {a,b,c}: EVERY tuple of lists of the announced list alphabet."""
    singles = [(x,) for x in CFG_POOL]
    pairs_distinct = [(x, y) for x in CFG_POOL for y in CFG_POOL if x != y]
    pairs_same = [(x, x) for x in CFG_POOL]
    if n_engines == 1:
        lists = singles + pairs_distinct + pairs_same + [("a", "b", "c"), ("c", "a", "b"), ("a", "b", "a"), ("a", "a", "b"), ("b", "c", "c")]
    elif n_engines == 2:
        lists = singles + pairs_distinct + pairs_same + [("a", "b", "c")]
    else:
        lists = singles + pairs_distinct
    return [list(p) for p in product(lists, repeat=n_engines)]


def _cfg_pattern_class(pattern):
    """legal <=> no sensor id occurs twice in the whole 'engines' section; otherwise the kind of overlap."""
    flat = [x for lst in pattern for x in lst]
    if len(set(flat)) == len(flat):
        return "legal"
    if any(len(set(lst)) < len(lst) for lst in pattern):
        return "sensor_repeated_within_one_engine"
    seen, kinds = [], set()
    for lst in pattern:
        cur = set(lst)
        earlier = set().union(*seen) if seen else set()
        if cur & earlier:
            if any(cur == e for e in seen):
                kinds.add("copy")
            elif cur <= earlier:
                kinds.add("subset")
            else:
                kinds.add("own")
        seen.append(cur)
    if "own" in kinds:
        return "later_engine_shares_some_sensors_and_has_its_own"
    if "subset" in kinds:
        return "later_engine_is_a_subset_of_earlier_engines"
    return "later_engine_repeats_an_earlier_engine"


def _cfg_split(n_engines):
    pats = _cfg_sensor_patterns(n_engines)
    legal = [p for p in pats if _cfg_pattern_class(p) == "legal"]
    illegal = [p for p in pats if _cfg_pattern_class(p) != "legal"]
    return legal, illegal


def _cfgscen_items(tier, seed):
    out = []
    for ne in (1, 2, 3):
        legal, illegal = _cfg_split(ne)
        for k, pat in enumerate(legal):
            combos = [(a, b) for a in range(3) for b in range(4)] if tier == "thorough" else [((k + seed) % 3, (k // 3 + seed) % 4)]
            for tp, variant in combos:
                out.append(("cfgscen", ne, k, tp, variant, seed))
        for c0 in range(0, len(illegal), CFG_REFUSE_CHUNK):
            out.append(("cfgrefuse", ne, c0, min(c0 + CFG_REFUSE_CHUNK, len(illegal)), seed, tier))
    out.append(("cfgbadreward", seed))
    return out


def _cfg_world(seed):
    start = datetime(2021, 3, 30, 16, 0, 0) + timedelta(minutes=11 * (seed % 7))
    when = start + timedelta(seconds=CFG_STEP)
    targets = {
        1: scen.target_eci(10001, *scen.overhead_orbit(when, 10.0, 20.0, 900.0)),
        2: scen.target_eci(10002, *scen.overhead_orbit(when, 10.2, 20.3, 1200.0, heading_deg=45.0)),
        3: scen.target_eci(10003, *scen.overhead_orbit(when, 10.0, 20.5, 6000.0)),
        4: scen.target_eci(10004, *scen.overhead_orbit(when, 9.8, 19.8, 1500.0, heading_deg=135.0)),
        5: scen.target_eci(10005, *scen.overhead_orbit(when, -10.0, 200.0, 900.0)),
    }
    rot = seed % 3  # which site is "a"
    sensors = {x: scen.ground_sensor(CFG_SENSOR_IDS[(k + rot) % 3], *CFG_SITES[(k + rot) % 3]) for k, x in enumerate(CFG_POOL)}
    return start, targets, sensors


def _cfg_engines(pattern, tp, variant, k, world, seed):
    """engine dicts + what the check expects of every engine (ids in configured order, policy, reward, metric list)."""
    _start, targets, sensors = world
    tlists = CFG_TARGET_PATTERNS[len(pattern)][CFG_TPAT_NAMES[tp]]
    engs, expect = [], []
    for e, letters in enumerate(pattern):
        if variant == 3:
            pol = "allvisible" if e % 2 == 0 else "munkres"
        else:
            pol = CFG_POLICY_ROT[(e + variant) % 3]
        kind, names, delta = CFG_SCEN_REWARDS[(e + k + variant) % len(CFG_SCEN_REWARDS)]
        eng = scen.engine(CFG_ENGINE_IDS[e], [deepcopy(targets[i]) for i in tlists[e]], [deepcopy(sensors[x]) for x in letters],
                          decision=SCEN_POLICIES[pol], reward=CFG_REWARD_LABEL[kind], metrics=[{"name": n} for n in names])
        if delta is not None:
            eng["reward"]["delta"] = delta
        if pol == "random":
            eng["decision"]["seed"] = seed + 3 + e
        engs.append(eng)
        expect.append({"id": CFG_ENGINE_IDS[e], "policy": pol, "reward": kind, "metrics": list(names),
                       "delta": 0.85 if delta is None else delta,
                       "sensors": [sensors[x]["id"] for x in letters], "targets": [targets[i]["id"] for i in tlists[e]]})
    return engs, expect


def _cfg_build(world, engs):
    global _ENGINE_READY  # noqa: PLW0603
    _ENGINE_READY = False  # scen.build() starts a fresh cluster / DB
    # one NEUTRAL task priority (factor 1.0: the documented reward is unchanged) per engine, addressed to that engine for
    # the first target of its own list and active over the whole run: every engine must see its own event only - an
    # engine handed another engine's event either scales the wrong row or does not know the target at all
    events = []
    if len(engs) >= 2:
        for eng in engs:
            events.append({"scope": "task_reward_generation", "scope_instance_id": eng["unique_id"], "start_time": scen.iso(world[0]),
                           "end_time": scen.iso(world[0] + timedelta(seconds=(CFG_NSTEPS + 1) * CFG_STEP)), "event_type": "task_priority",
                           "target_id": eng["targets"][0]["id"], "target_name": eng["targets"][0]["name"], "priority": 1.0, "is_dynamic": False})
    try:
        return scen.build(scen.config(world[0], CFG_NSTEPS + 1, engs, physics=CFG_STEP, events=events or None)), None
    except Exception as exc:  # noqa: BLE001 - the refusal (or a crash) of the builder is what is being observed
        return None, (type(exc).__name__, f"{type(exc).__name__}: {exc}"[:300])


def _cfg_run_steps(sc):
    """Step the scenario; after every step copy what each engine decided (its matrices are overwritten by the next
    step).  Returns (snapshots {second: {engine id: {...}}}, task rows of the tasks table, error text)."""
    from resonaate.data.task import Task  # noqa: PLC0415
    from resonaate.physics.time.conversions import getTargetJulianDate  # noqa: PLC0415
    from sqlalchemy.orm import Query  # noqa: PLC0415

    snaps = {}
    try:
        for k in range(1, CFG_NSTEPS + 1):
            sc.propagateTo(getTargetJulianDate(sc.clock.julian_date_start, timedelta(seconds=k * CFG_STEP)))
            snaps[k * CFG_STEP] = {
                eid: {"sensors": list(e.sensor_list), "targets": list(e.target_list),
                      "vis": np.array(e.visibility_matrix, dtype=bool), "dec": np.array(e.decision_matrix, dtype=bool),
                      "rew": np.array(e.reward_matrix, dtype=float), "met": np.array(e.metric_matrix, dtype=float),
                      "names": [type(m).__name__ for m in e.reward.metrics]}
                for eid, e in sc.tasking_engines.items()
            }
        rows = sc.database.getData(Query(Task))
    except Exception as exc:  # noqa: BLE001 - an exception out of the tasking step is a finding, not a harness error
        return snaps, [], f"{type(exc).__name__}: {exc}"[:300]
    by_epoch = {}
    for r in rows:
        by_epoch.setdefault(round((r.julian_date - float(sc.clock.julian_date_start)) * 86400.0), []).append(r)
    return snaps, by_epoch, None


def _cfg_per_sensor_clause(res, case0, it, by_epoch, expect, pattern_class):
    """THE clause: in the tasks table of one step a sensor id has at most one decision, counted across all engines
    (sensors of an all-visible engine excepted: that policy tasks every visible pair)."""
    exempt = {sid for ex in expect if ex["policy"] == "allvisible" for sid in ex["sensors"]}
    n_eng_active = {}
    worst = 0
    for sec, rws in sorted(by_epoch.items()):
        tasked, seen = {}, {}
        for r in rws:
            seen.setdefault(r.sensor_id, []).append(r.target_id)
            if r.decision:
                tasked.setdefault(r.sensor_id, []).append(r.target_id)
        n_eng_active[sec] = sum(1 for ex in expect if any(tasked.get(sid) for sid in ex["sensors"]))
        for sid in sorted(seen):
            if sid in exempt:
                continue
            tg = sorted(tasked.get(sid, []))
            worst = max(worst, len(tg))
            res.case("config/engines/sensor_tasked_to_at_most_one_target_per_step", dict(case0, second=sec, sensor=sid),
                     len(tg) <= 1, nontrivial=len(expect) >= 2 and n_eng_active[sec] >= 2,
                     signature="C07/config/engines/sensor_tasked_to_two_targets_in_one_step/" + pattern_class,
                     observed={"tasked_targets": tg}, expected="at most one decision per sensor id and step in the tasks table",
                     outcome=f"engines={len(expect)},engines_tasking_this_step={min(n_eng_active[sec], 3)},tasked={len(tg)}", item=it)
    return worst


def _cfg_block_clauses(res, case0, it, snaps, by_epoch, expect):
    """Per engine and step: its T_e x S_e block of the tasks table is complete and equals what the engine decided,
    the reward column is the documented combination of the engine's CONFIGURED metric list, the decision column is the
    policy's documented optimum of it."""
    secs = [k * CFG_STEP for k in range(1, CFG_NSTEPS + 1)]
    n_rows = sum(len(ex["sensors"]) * len(ex["targets"]) for ex in expect)
    for sec in secs:
        rws = by_epoch.get(sec, [])
        pairs = {(r.sensor_id, r.target_id) for r in rws}
        res.case("config/engines/task_rows_complete", dict(case0, second=sec), len(rws) == n_rows and len(pairs) == n_rows,
                 signature="C07/config/engines/task_rows", observed=len(rws), expected=n_rows, item=it)
        for ex in expect:
            case = dict(case0, second=sec, engine=ex["id"], policy=ex["policy"], reward=ex["reward"], metrics=ex["metrics"])
            pol, kind = ex["policy"], ex["reward"]
            sids, tids = sorted(ex["sensors"]), sorted(ex["targets"])
            t, s = len(tids), len(sids)
            snap = snaps.get(sec, {}).get(ex["id"])
            vis = np.zeros((t, s), dtype=bool)
            dec = np.zeros((t, s), dtype=bool)
            rew = np.full((t, s), np.nan)
            for r in rws:
                if r.sensor_id in sids and r.target_id in tids:
                    i, j = tids.index(r.target_id), sids.index(r.sensor_id)
                    vis[i, j], dec[i, j] = bool(r.visibility), bool(r.decision)
                    rew[i, j] = float("nan") if r.reward is None else float(r.reward)
            ok_snap = (snap is not None and snap["sensors"] == sids and snap["targets"] == tids and snap["vis"].shape == (t, s)
                       and bool((snap["vis"] == vis).all()) and bool((snap["dec"] == dec).all())
                       and bool(np.isfinite(rew).all()) and fw.maxabs(snap["rew"], rew) <= TOL)
            res.case("config/engines/stored_block_is_the_engines_decision", case, bool(ok_snap),
                     signature="C07/config/engines/stored_block_differs_from_engine_matrices",
                     observed=None if ok_snap else {"visibility": vis.tolist(), "reward": rew.tolist(), "decision": dec.tolist()},
                     expected=None if (ok_snap or snap is None) else {"visibility": snap["vis"].tolist(), "reward": snap["rew"].tolist(),
                                                                      "decision": snap["dec"].tolist()}, item=it)
            if not ok_snap:
                continue
            # documented combination of the CONFIGURED list on the engine's metric columns (normalisation is idempotent)
            met = snap["met"]
            names, types = ex["metrics"], [CFG_METRICS[n][1] for n in ex["metrics"]]
            ok_p = met.ndim == 3 and met.shape == (t, s, len(names))
            res.case("config/engines/one_metric_column_per_configured_metric", case, ok_p,
                     signature=f"C07/config/engines/{kind}/metric_columns_differ_from_configured_list",
                     observed=list(met.shape), expected=[t, s, len(names)], item=it)
            ref = None
            if not ok_p and met.ndim == 3 and met.shape[:2] == (t, s) and met.shape[2] == len(snap["names"]) and set(names) <= set(snap["names"]):
                # the engine carries other columns than configured: evaluate the documented combination of the configured
                # list all the same, taking for every configured entry the engine's column of that metric class
                met = np.stack([met[:, :, snap["names"].index(n)] for n in names], axis=-1)
            if met.ndim == 3 and met.shape == (t, s, len(names)):
                norm = orc.normalise_ref(np.where(vis[..., None], met, 0.0))
                ok_n = bool((norm.reshape(-1, len(names)).max(axis=0) <= 1.0 + 1e-12).all())
                res.case("config/engines/normalised_at_most_one", case, ok_n, signature=f"C07/config/engines/{kind}/normalised_max_above_one",
                         observed=norm.reshape(-1, len(names)).max(axis=0).tolist(), item=it)
                ref = orc.reward_ref(kind, types, norm, ex["delta"])
                ok_r = fw.maxabs(rew, ref) <= TOL
                res.case(f"config/engines/reward_column_is_combination_of_configured_list/{kind}", case, bool(ok_r),
                         nontrivial=bool(vis.any()) and len(set(names)) < len(names),
                         signature=f"C07/config/engines/{kind}/reward_column_is_not_the_combination_of_the_configured_list",
                         observed=None if ok_r else rew.tolist(), expected=None if ok_r else ref.tolist(),
                         outcome=f"len={len(names)},distinct_names={len(set(names))},visible={int(vis.sum())}", item=it)
            base = rew if ref is None else ref
            masked = bool((rew[~vis] == 0.0).all())
            res.case("config/engines/reward_masked_by_visibility", case, masked,
                     signature="C07/config/engines/reward_of_invisible_pair_nonzero", observed=rew.tolist(), expected=vis.tolist(), item=it)
            feas = not (dec & ~vis).any()
            if pol == "munkres":
                _opt, dcodes, near = orc.assignment_oracle(base[None], vis[None], tol=TOL)
                good = feas and dec.sum(axis=0).max() <= 1 and dec.sum(axis=1).max() <= 1 and bool((near & (dcodes == orc.pack(dec[None])[:, None])).any())
            elif pol == "greedy":
                okg, _u, _ = orc.greedy_oracle(base[None], vis[None], dec[None], tol=TOL)
                good = feas and bool(okg[0])
            elif pol == "allvisible":
                good = bool((dec == vis).all())
            else:
                good = feas and bool((dec.sum(axis=0) == vis.any(axis=0)).all())
            res.case(f"config/engines/decision_column/{pol}", dict(case, visible=vis.tolist(), reward_matrix=rew.tolist()), bool(good),
                     nontrivial=0 < int(vis.sum()) < t * s or int(vis.sum(axis=0).max()) >= 2,
                     signature=f"C07/config/engines/{pol}/decision_column", observed=dec.tolist(),
                     expected="policy reference on the documented reward of the configured metric list / visibility column",
                     outcome=f"visible={int(vis.sum())},tasked={int(dec.sum())}", item=it)
            # (a scenario with a random-policy engine: later steps of every engine that shares a target with it depend on
            # the draws; reproducibility of the draws is the subject of _run_maskonly)
            if not any(e2["policy"] == "random" for e2 in expect):
                res.observe(vis, dec, np.round(rew, 9))
            else:
                res.observe(len(rws))


def _cfg_structure_clauses(res, case0, it, sc, expect):
    """What the builder made of the 'engines' section: one engine per configured engine, with exactly the configured
    sensors / targets, the configured policy and a reward over the configured metric LIST."""
    got_ids = sorted(sc.tasking_engines)
    res.case("config/engines/one_engine_per_configured_engine", case0, got_ids == sorted(ex["id"] for ex in expect),
             signature="C07/config/engines/engine_ids", observed=got_ids, expected=sorted(ex["id"] for ex in expect), item=it)
    for ex in expect:
        eng = sc.tasking_engines.get(ex["id"])
        if eng is None:
            continue
        case = dict(case0, engine=ex["id"])
        got = {"sensors": list(eng.sensor_list), "targets": list(eng.target_list), "decision": type(eng.decision).__name__,
               "reward": type(eng.reward).__name__, "metrics": [type(m).__name__ for m in eng.reward.metrics],
               "num_metrics": int(eng.num_metrics)}
        want = {"sensors": sorted(ex["sensors"]), "targets": sorted(ex["targets"]), "decision": SCEN_POLICIES[ex["policy"]],
                "reward": CFG_REWARD_LABEL[ex["reward"]], "metrics": ex["metrics"], "num_metrics": len(ex["metrics"])}
        bad = [k for k in want if got[k] != want[k]]
        res.case("config/engines/engine_is_built_as_configured", case, not bad, nontrivial=len(expect) >= 2,
                 signature="C07/config/engines/engine_differs_from_configuration/" + ("+".join(bad) if bad else "none"),
                 observed=None if not bad else {k: got[k] for k in bad}, expected=None if not bad else {k: want[k] for k in bad},
                 outcome=f"metrics={len(ex['metrics'])},distinct={len(set(ex['metrics']))}", item=it)


def _run_cfgscen(res, item):
    """A LEGAL 'engines' section (no sensor id twice): must build, and every step of the tasks table satisfies the
    at-most-one clause per sensor id across engines and the per-engine clauses."""
    _, ne, k, tp, variant, seed = item
    legal, _illegal = _cfg_split(ne)
    pattern = legal[k]
    world = _cfg_world(seed)
    engs, expect = _cfg_engines(pattern, tp, variant, k, world, seed)
    case0 = {"engines": ne, "sensor_lists": ["".join(p) for p in pattern], "target_lists": CFG_TPAT_NAMES[tp], "variant": variant}
    sc, err = _cfg_build(world, engs)
    res.case("config/engines/legal_configuration_builds", case0, sc is not None, nontrivial=ne >= 2,
             signature="C07/config/engines/legal_configuration_refused", observed=None if err is None else err[1],
             expected="a scenario (no sensor id is listed twice)", outcome=f"engines={ne},targets={CFG_TPAT_NAMES[tp]}", item=item)
    if sc is None:
        return
    _cfg_structure_clauses(res, case0, item, sc, expect)
    snaps, by_epoch, err = _cfg_run_steps(sc)
    if err is not None:
        res.case("config/engines/no_exception", case0, False, signature="C07/config/engines/exception", observed=err,
                 expected=f"{CFG_NSTEPS} tasking steps complete", item=item)
        return
    _cfg_per_sensor_clause(res, case0, item, by_epoch, expect, "legal")
    _cfg_block_clauses(res, case0, item, snaps, by_epoch, expect)


def _run_cfgrefuse(res, item):
    """An ILLEGAL 'engines' section (some sensor id occurs twice: within one engine, or in two engines whose sensor
    lists are identical, nested or only partly overlapping) must be refused at build time with DuplicateSensorError.
    If it is accepted the scenario is run all the same (first two accepted configurations of the item) to show what
    the tasks table then contains."""
    _, ne, c0, c1, seed, tier = item
    _legal, illegal = _cfg_split(ne)
    world = _cfg_world(seed)
    shown = 0
    for k in range(c0, min(c1, len(illegal))):
        pattern = illegal[k]
        pclass = _cfg_pattern_class(pattern)
        combos = [(a, b) for a in range(3) for b in range(4)] if tier == "thorough" else [((k + seed) % 3, (k // 3 + seed) % 4)]
        for tp, variant in combos:
            engs, expect = _cfg_engines(pattern, tp, variant, k, world, seed)
            case0 = {"engines": ne, "sensor_lists": ["".join(p) for p in pattern], "target_lists": CFG_TPAT_NAMES[tp],
                     "variant": variant, "overlap": pclass}
            it = ("cfgrefuse", ne, k, k + 1, seed, tier)
            sc, err = _cfg_build(world, engs)
            ok = sc is None and err[0] == DuplicateSensorError.__name__
            sig = "accepted" if sc is not None else "refused_with_other_exception"
            res.case("config/engines/overlapping_sensor_lists_refused", case0, ok, nontrivial=ne >= 2 and pclass != "sensor_repeated_within_one_engine",
                     signature=f"C07/config/engines/overlapping_sensor_lists_{sig}/{pclass}",
                     observed="scenario built" if sc is not None else err[1], expected="DuplicateSensorError at build time",
                     outcome=pclass, item=it)
            res.observe(ok)
            if sc is not None and shown < 2:
                shown += 1
                _snaps, by_epoch, err2 = _cfg_run_steps(sc)
                if err2 is not None:
                    res.case("config/engines/no_exception", case0, False, signature="C07/config/engines/exception", observed=err2, item=it)
                else:
                    _cfg_per_sensor_clause(res, case0, it, by_epoch, expect, pclass)


def _run_cfgbadreward(res, item):
    """The same refusals / list hand-over through the whole builder: an engine whose typed reward lists a metric twice
    must not come out of ScenarioBuilder as a working engine; a simple summation with repeats must keep them."""
    seed = item[1]
    world = _cfg_world(seed)
    _start, targets, sensors = world
    bad = [
        ("cost_constrained", ("ShannonInformation", "ShannonInformation", "LyapunovStability", "SlewTimeMinimization")),
        ("cost_constrained", ("ShannonInformation", "LyapunovStability", "SlewTimeMinimization", "SlewTimeMinimization")),
        ("cost_constrained", ("LyapunovStability", "ShannonInformation", "LyapunovStability", "SlewTimeMinimization", "LyapunovStability")),
        ("combined", ("TimeSinceObservation", "ShannonInformation", "LyapunovStability", "SlewTimeMinimization", "TimeSinceObservation")),
        ("combined", ("ShannonInformation", "ShannonInformation", "LyapunovStability", "SlewTimeMinimization", "TimeSinceObservation")),
        ("combined", ("ShannonInformation", "LyapunovStability", "LyapunovStability", "SlewTimeMinimization", "SlewTimeMinimization",
                      "TimeSinceObservation")),
    ]
    for kind, names in bad:
        for where in (0, 1):  # the offending engine is the only / the second engine
            engs = []
            if where == 1:
                engs.append(scen.engine(5, [deepcopy(targets[1])], [deepcopy(sensors["a"])]))
            engs.append(scen.engine(2, [deepcopy(targets[2]), deepcopy(targets[3])], [deepcopy(sensors["b"])],
                                    reward=CFG_REWARD_LABEL[kind], metrics=[{"name": n} for n in names]))
            case = {"reward": kind, "metrics": list(names), "engines": len(engs), "route": "ScenarioBuilder"}
            sc, err = _cfg_build(world, engs)
            legal, want_exc = _cfg_legal(kind, list(names))
            ok = sc is None and err[0] in want_exc
            built = None if sc is None else [type(m).__name__ for m in sc.tasking_engines[2].reward.metrics]
            res.case(f"config/reward/illegal_metric_list_refused/{kind}", case, ok and not legal, nontrivial=True,
                     signature=f"C07/config/reward/{kind}/" + ("illegal_metric_list_accepted" if sc is not None else "illegal_metric_list_refused_with_other_exception"),
                     observed={"metrics_of_built_reward": built} if sc is not None else err[1], expected=" or ".join(want_exc),
                     outcome="count_wrong", item=item)
            res.observe(ok)


# ------------------------------------------------------------------------------------------------ dispatch
_RUNNERS = {
    "lat": _run_lat,
    "msk": _run_msk,
    "equiv": _run_equiv,
    "equivm": _run_equivm,
    "maskonly": _run_maskonly,
    "support": _run_support,
    "factory": _run_factory,
    "unmasked": _run_unmasked,
    "bigperm": _run_bigperm,
    "bigfam": _run_bigfam,
    "bigknown": _run_bigknown,
    "reward": _run_reward,
    "engine": _run_engine,
    "scenario": _run_scenario,
    "cfgreward": _run_cfgreward,
    "cfgscen": _run_cfgscen,
    "cfgrefuse": _run_cfgrefuse,
    "cfgbadreward": _run_cfgbadreward,
}


def run_item(item):
    res = fw.Result()
    try:
        _RUNNERS[item[0]](res, item)
    except Exception as exc:  # noqa: BLE001
        # every call into the library is individually guarded above; anything that still escapes (e.g. a value of an
        # impossible type read back from the tasks table) is reported as a violation of this item rather than
        # aborting the whole run and hiding the other violations behind a harness error
        import traceback  # noqa: PLC0415

        res.case(f"{item[0]}/unhandled_exception", {"item_kind": item[0]}, False,
                 signature=f"C07/{item[0]}/unhandled_exception", observed=traceback.format_exc()[-1500:], item=item)
    return res
