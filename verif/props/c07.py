"""C07 - tasking decisions are feasible and optimal in the sense each policy documents; rewards are the documented
combination of normalised metrics.

Lattice explorer: every (visibility mask, reward matrix) of the announced small scope is pushed through the real
``Decision.calculate()`` of every policy and compared with a brute-force reference (all complete one-to-one
assignments / per-column maxima); every enumerated metric tensor is pushed through the real ``Reward`` classes and
``CentralizedTaskingEngine.calculateRewards/generateTasking/getCurrentTasking`` and compared with the docstring
formulae evaluated entry by entry.
"""
from __future__ import annotations

from itertools import permutations, product
from math import factorial
from types import SimpleNamespace

import numpy as np

from verif import framework as fw
from verif import scen  # installs the in-process fake ray before resonaate is imported (engine module imports ray)
from verif.oracles import c07_assign as orc

from resonaate.common.labels import DecisionLabel, MetricTypeLabel, RewardLabel
from resonaate.data import setDBPath
from resonaate.parallel.tasking_reward_generation import RewardCalcResult, TaskingRewardRegistration
from resonaate.physics.time.stardate import JulianDate
from resonaate.scenario.config.decision_config import (
    AllVisibleDecision as AllVisibleDecisionConfig,
)
from resonaate.scenario.config.decision_config import (
    MunkresDecisionConfig,
    MyopicNaiveGreedyDecisionConfig,
    RandomDecisionConfig,
)
from resonaate.scenario.config.reward_config import (
    CombinedRewardConfig,
    CostConstrainedRewardConfig,
    MetricConfig,
    SimpleSummationRewardConfig,
)
from resonaate.tasking.decisions import decisionFactory
from resonaate.tasking.decisions.decisions import (
    AllVisibleDecision,
    MunkresDecision,
    MyopicNaiveGreedyDecision,
    RandomDecision,
)
from resonaate.tasking.engine.centralized_engine import CentralizedTaskingEngine
from resonaate.tasking.metrics import metric_base
from resonaate.tasking.rewards import rewardsFactory
from resonaate.tasking.rewards.rewards import CombinedReward, CostConstrainedReward, SimpleSummationReward

PROPERTY = "C07"
LEVEL = "model_checking"
RULE = (
    "decisions: every (visibility mask, reward matrix) lattice point of the announced shapes/alphabets, the reward "
    "matrix being masked by visibility (0 where invisible, as the engine produces it), is passed to the real "
    "Decision.calculate() of each policy, one call per point, and every clause (visible-only, at most one per "
    "sensor / per target, optimal complete assignment, column maximum, all-visible = mask, relabelling) is its own "
    "elemental case; rewards: every enumerated metric tensor x metric-type order x delta goes through "
    "Reward.calculateMetrics/normalizeMetrics/calculate and the engine's calculateRewards/generateTasking/"
    "getCurrentTasking. non-trivial (counted once per implementation call, on the primary clause): decisions = mask "
    "neither all-true nor all-false and rewards on the visible entries not constant (random/all-visible: mask "
    "mixed); relabelling = admissible decision unique and permutation not identity; rewards = some metric slice has "
    "a positive maximum different from 1 (normalisation acts) and the tensor is not constant; engine chain = mask "
    "mixed. distinct by construction (lattice points; each clause record belongs to exactly one call)."
)
ASSUMPTIONS = [
    "the reward matrix handed to a decision is masked by visibility (metric rows of invisible pairs are zero, hence "
    "reward 0); for reward matrices that are not masked only feasibility and calculate == _calculate AND "
    "visibility are required",
    "ties are not alarms: any optimal assignment / any column maximum is accepted; relabelling must relabel the "
    "decision only when the admissible decision is unique",
    "small-integer rewards are summed exactly in binary64; for real-valued rewards any assignment whose total is "
    "within 1e-9 of the maximum is accepted (rounding of <= 8 addends of magnitude <= 4 is < 1e-14)",
    "the RandomDecision stream itself is not specified: only feasibility, one target per sensor that sees "
    "anything, reproducibility for equal seeds and full support over 64 draws are required",
    "stub Metric subclasses of the library's metric-type base classes stand in for the filter-based metrics (their "
    "values are the subject of other properties)",
]
EXPECT_MIN_NONTRIVIAL = 1000000

# tolerance for real-valued rewards / reward formulae.  Error source: binary64 rounding, <= 10 operations on
# magnitudes <= 4 -> < 1e-14.  Smallest defect to expose: a wrong coefficient/sign/index changes a reward by
# >= 0.0125 (delta grid 0.25 x metric grid 0.05) -> > 9 orders of margin on either side.
TOL = 1e-9

A4 = (-1.0, 0.0, 1.0, 2.0)
A3 = (-1.0, 0.0, 2.0)
A3P = (0.0, 1.0, 2.0)
A2 = (0.0, 1.0)
A2N = (-1.0, 1.0)
AREAL = (0.1, 0.2, 0.3)
AREAL5 = (0.1, 0.2, 0.3, 0.5, 0.5 + 2.0**-53)
ALPHABETS = {"A4": A4, "A3": A3, "A3P": A3P, "A2": A2, "A2N": A2N, "AREAL": AREAL, "AREAL5": AREAL5}
EXACT = {"A4", "A3", "A3P", "A2", "A2N"}

CHUNK = 40000  # lattice points per work item (~2-3 s of CPU)

POLICIES = ("munkres", "greedy")


# ------------------------------------------------------------------------------------------------ items
def _lat_items(t, s, alph, chunk=CHUNK):
    total = (len(ALPHABETS[alph]) + 1) ** (t * s)
    return [("lat", t, s, alph, c0, min(c0 + chunk, total)) for c0 in range(0, total, chunk)]


def _msk_items(t, s, alph, mask_code, chunk=CHUNK):
    k = bin(mask_code).count("1")
    total = len(ALPHABETS[alph]) ** k
    return [("msk", t, s, alph, mask_code, c0, min(c0 + chunk, total)) for c0 in range(0, total, chunk)]


def _mask_family(t, s, seed, every_single):
    """Named masks for shapes too large for all 2^(T*S) masks: all, none, (anti)diagonal band, its complement,
    single-zero and single-one masks (all of them, or 4 positions whose phase is shifted by the seed)."""
    n = t * s
    full = (1 << n) - 1
    diag = 0
    for i in range(max(t, s)):
        diag |= 1 << ((i % t) * s + (i % s))
    out = [("all", full), ("none", 0), ("diag", diag), ("offdiag", full & ~diag)]
    cb = 0
    for i in range(t):
        for j in range(s):
            if (i + j) % 2 == 0:
                cb |= 1 << (i * s + j)
    out.append(("checker", cb))
    positions = list(range(n)) if every_single else sorted({(seed * 5 + k * (n // 4) + k) % n for k in range(4)})
    for p in positions:
        out.append((f"zero@{p}", full & ~(1 << p)))
    for p in range(n):
        out.append((f"one@{p}", 1 << p))
    return out


SHAPES = [(t, s) for t in range(1, 5) for s in range(1, 5)]


def _decision_items(tier, seed):
    out = []
    for t, s in SHAPES:
        n = t * s
        if n <= 8:
            out += _lat_items(t, s, "A4")
        elif n == 9:
            out += _lat_items(t, s, "A4" if tier == "thorough" else "A3")
        elif n == 12:
            if tier == "thorough":
                out += _lat_items(t, s, "A2")
                out += _msk_items(t, s, "A3P", (1 << n) - 1)
            for _name, m in _mask_family(t, s, seed, tier == "thorough"):
                out += _msk_items(t, s, "A2" if tier == "quick" else "A2N", m)
        else:  # 4x4
            for name, m in _mask_family(t, s, seed, tier == "thorough"):
                out += _msk_items(t, s, "A2", m)
                if tier == "thorough" and name in ("all", "diag", "offdiag", "checker"):
                    out += _msk_items(t, s, "A3P" if name != "all" else "A2N", m)
            if tier == "thorough":
                out += _msk_items(t, s, "A3P", (1 << n) - 1, chunk=4 * CHUNK)
    # real-valued rewards (ties up to rounding)
    for t, s in [(2, 2), (2, 3), (3, 2)]:
        out += _lat_items(t, s, "AREAL5" if (tier == "thorough" or t * s == 4) else "AREAL")
    out += _msk_items(3, 3, "AREAL", 0b111111111)
    out += _msk_items(3, 3, "AREAL", 0b101111011)
    if tier == "thorough":
        out += _lat_items(3, 3, "AREAL")
    return out


def _equiv_items(tier, seed):
    out = []
    for t, s in SHAPES:
        n = t * s
        if n <= 6:
            total = 5**n
            out += [("equiv", t, s, "A4", "all", c0, min(c0 + 4000, total)) for c0 in range(0, total, 4000)]
        elif n <= 9:
            alph = "A3" if tier == "thorough" else "A2N"
            total = (len(ALPHABETS[alph]) + 1) ** n
            out += [("equiv", t, s, alph, "gen", c0, min(c0 + 6000, total)) for c0 in range(0, total, 6000)]
        else:
            alph = "A2N"
            fam = dict(_mask_family(t, s, seed, False))
            names = ["offdiag", "checker"] + (["all"] if (tier == "thorough" or n < 16) else [])
            for name in names:
                m = fam[name]
                total = 2 ** bin(m).count("1")
                step = 6000
                out += [("equivm", t, s, alph, "gen", m, c0, min(c0 + step, total)) for c0 in range(0, total, step)]
    return out


def _maskonly_items(tier, seed):
    out = []
    for t, s in SHAPES:
        total = 2 ** (t * s)
        step = 4096
        for c0 in range(0, total, step):
            out.append(("maskonly", t, s, seed, c0, min(c0 + step, total)))
    out.append(("support", seed))
    out.append(("factory", seed))
    return out


def _unmasked_items(tier, seed):
    out = []
    for t, s in SHAPES:
        n = t * s
        alphs = []
        if n <= 4 or (tier == "thorough" and n <= 6):
            alphs.append("A4")
        elif n <= 6:
            alphs.append("A3")
        elif n <= 9 and tier == "thorough":
            alphs.append("A2N")
        for alph in alphs:
            total = (2 * len(ALPHABETS[alph])) ** n  # per entry: (visible?, reward), independent
            step = CHUNK // 2
            out += [("unmasked", t, s, alph, c0, min(c0 + step, total)) for c0 in range(0, total, step)]
    return out


BIG_SHAPES_Q = [(5, 5), (6, 6), (5, 7), (7, 5), (8, 3), (3, 8), (7, 7), (8, 8), (6, 8), (8, 6)]


def _big_items(tier, seed):
    out = []
    for n in (5, 6) if tier == "quick" else (5, 6, 7):
        step = 120 if n < 7 else 252
        for c0 in range(0, factorial(n), step):
            out.append(("bigperm", n, c0, min(c0 + step, factorial(n))))
    for t, s in BIG_SHAPES_Q:
        out.append(("bigfam", t, s, seed))
    for t, s in KNOWN_SHAPES:
        out.append(("bigknown", t, s, seed))
    return out


REWARD_KINDS = ("cost_constrained", "combined", "simple_sum")


def _reward_items(tier, seed):
    out = []
    for kind in REWARD_KINDS:
        for shape in REWARD_SHAPES:
            plan = _reward_plan(kind, shape, tier)
            n_total = plan["n_values"]
            per_item = max(1, 6000 // max(1, len(plan["variants"])))
            for c0 in range(0, n_total, per_item):
                out.append(("reward", kind, list(shape), tier, c0, min(c0 + per_item, n_total)))
    return out


def _engine_items(tier, seed):
    out = []
    for t, s in ENGINE_SHAPES:
        for kind in REWARD_KINDS:
            out.append(("engine", t, s, kind, seed, tier))
    return out


def items(tier, seed):
    out = []
    out += _decision_items(tier, seed)
    out += _equiv_items(tier, seed)
    out += _maskonly_items(tier, seed)
    out += _unmasked_items(tier, seed)
    out += _big_items(tier, seed)
    out += _reward_items(tier, seed)
    out += _engine_items(tier, seed)
    out += [("scenario", pol, kind, seed) for pol in SCEN_POLICIES for kind in SCEN_REWARDS]
    return out


def bounds(tier, seed):
    its = items(tier, seed)
    kinds = {}
    for it in its:
        kinds[it[0]] = kinds.get(it[0], 0) + 1
    return {
        "shapes": "all T x S with 1 <= T,S <= 4 (T targets = rows, S sensors = columns)",
        "masked_lattices": {
            "T*S<=8": "all masks x rewards {-1,0,1,2} on the visible entries (5^(T*S) points)",
            "3x3": "all masks x {-1,0,2} (quick) / {-1,0,1,2} (thorough)",
            "3x4,4x3": "quick: named masks x {0,1}; thorough: all masks x {0,1}, all-visible x {0,1,2}, named x {-1,1}",
            "4x4": "named masks (all, none, diag, offdiag, checker, single-zero, single-one) x {0,1}; thorough adds "
            "{0,1,2}^16 all-visible and {-1,1}/{0,1,2} on the structured masks",
            "real-valued": "2x2 {0.1,0.2,0.3,0.5,0.5+1ulp} all masks; 2x3,3x2,3x3 {0.1,0.2,0.3}",
        },
        "beyond_4x4": "deterministic families instead of random matrices: all permutation-matrix rewards x {1,2} "
        "for n=5,6 (7 thorough) under 4 masks; strictly ordered / rank-one / constant / cyclic families for shapes "
        + str(BIG_SHAPES_Q)
        + "; beyond 8x8 (no brute force possible): constructed rewards with a known optimum (scaled one-to-one maps "
        "and their negated complements: shifts, reversal, affine maps) under 4 masks for shapes " + str(KNOWN_SHAPES),
        "policies": ["MunkresDecision", "MyopicNaiveGreedyDecision", "RandomDecision", "AllVisibleDecision"],
        "rewards": {k: [list(sh) for sh in REWARD_SHAPES] for k in REWARD_KINDS},
        "work_items_by_kind": kinds,
    }


# ------------------------------------------------------------------------------------------------ decisions
_DEC = {}


def _decisions():
    """Real policy objects, built through the library's factory from config objects."""
    if not _DEC:
        _DEC["munkres"] = decisionFactory(MunkresDecisionConfig())
        _DEC["greedy"] = decisionFactory(MyopicNaiveGreedyDecisionConfig())
        _DEC["allvisible"] = decisionFactory(AllVisibleDecisionConfig())
    return _DEC


def _call_batch(dec, r_in, v_in):
    """One real ``calculate`` call per lattice point.  Returns (decisions (N,T,S) bool, errors {index: text})."""
    n, t, s = r_in.shape
    out = np.zeros((n, t, s), dtype=bool)
    errors = {}
    calc = dec.calculate
    for i in range(n):
        try:
            d = calc(r_in[i], v_in[i])
            if d.shape != (t, s) or d.dtype != np.bool_:
                d = np.asarray(d)
                if d.shape != (t, s) or d.dtype.kind not in "biu":
                    errors[i] = f"malformed decision: shape {d.shape} dtype {d.dtype}"
                    continue
                d = d.astype(bool)
            out[i] = d
        except Exception as exc:  # noqa: BLE001 - any exception raised by the policy is a finding, not a harness error
            errors[i] = f"{type(exc).__name__}: {exc}"
    return out, errors


def _decode_lat(t, s, alph, c0, c1):
    vals = np.array(ALPHABETS[alph])
    a = len(vals)
    n = t * s
    c = np.arange(c0, c1, dtype=np.int64)
    digits = (c[:, None] // (np.int64(a + 1) ** np.arange(n, dtype=np.int64))[None, :]) % (a + 1)
    vis = digits > 0
    rew = np.where(vis, vals[np.maximum(digits - 1, 0)], 0.0)
    return c, rew.reshape(-1, t, s), vis.reshape(-1, t, s)


def _decode_msk(t, s, alph, mask_code, c0, c1):
    vals = np.array(ALPHABETS[alph])
    a = len(vals)
    n = t * s
    pos = [k for k in range(n) if (mask_code >> k) & 1]
    c = np.arange(c0, c1, dtype=np.int64)
    rew = np.zeros((len(c), n))
    if pos:
        digits = (c[:, None] // (np.int64(a) ** np.arange(len(pos), dtype=np.int64))[None, :]) % a
        rew[:, pos] = vals[digits]
    vis = np.zeros((len(c), n), dtype=bool)
    vis[:, pos] = True
    return c, rew.reshape(-1, t, s), vis.reshape(-1, t, s)


def _nontrivial_masked(rew, vis):
    """mask neither all-true nor all-false and rewards on the visible entries not constant."""
    n = rew.shape[0]
    vf = vis.reshape(n, -1)
    rf = rew.reshape(n, -1)
    mixed = vf.any(axis=1) & ~vf.all(axis=1)
    hi = np.where(vf, rf, -np.inf).max(axis=1)
    lo = np.where(vf, rf, np.inf).min(axis=1)
    return mixed & (hi > lo)


def _check_decisions(res, rew, vis, ident, mk_item, policies=POLICIES, exact=True):
    """Run every policy on every lattice point of the batch and record one elemental case per clause.

    ``ident(i)`` gives the identifying fields of point i, ``mk_item(i)`` a work item that replays just that point.
    """
    n, t, s = rew.shape
    nontriv = _nontrivial_masked(rew, vis)
    decs = _decisions()
    tol = 0.0 if exact else TOL
    for pol in policies:
        d, errors = _call_batch(decs[pol], rew.copy(), vis.copy())
        res.observe(d)
        sub_vis = (d & ~vis).reshape(n, -1).any(axis=1)  # tasked but not visible
        per_sensor = d.sum(axis=1).max(axis=1)
        per_target = d.sum(axis=2).max(axis=1)
        dcode = orc.pack(d)
        if pol == "munkres":
            opt, dcodes, near = orc.assignment_oracle(rew, vis, tol=tol)
            hit_exact = (opt & (dcodes == dcode[:, None])).any(axis=1)
            hit_near = (near & (dcodes == dcode[:, None])).any(axis=1)
            # number of distinct admissible decisions (for the outcome label / relabelling rule)
            n_opt = opt.sum(axis=1)
        else:
            hit_exact, _uniq, _ = orc.greedy_oracle(rew, vis, d)
            hit_near = hit_exact
            n_opt = (rew >= rew.max(axis=1, keepdims=True)).sum(axis=1).max(axis=1)
        for i in range(n):
            base = ident(i)
            base["policy"] = pol
            if i in errors:
                full = dict(base, reward=rew[i].tolist(), visible=vis[i].tolist())
                res.case(f"{pol}/no_exception", full, False, signature=f"C07/{pol}/exception", observed=errors[i],
                         expected="a boolean T x S decision matrix", item=mk_item(i))
                continue
            bad = sub_vis[i] or per_sensor[i] > 1 or (pol == "munkres" and per_target[i] > 1) or not hit_near[i]
            case = dict(base, reward=rew[i].tolist(), visible=vis[i].tolist()) if (bad or len(res.samples) < 2) else base
            it = mk_item(i) if bad else None
            obs = d[i].tolist() if bad else None
            res.case(f"{pol}/visible_only", case, not sub_vis[i], signature=f"C07/{pol}/tasked_invisible",
                     observed=obs, expected="decision subset of visibility", item=it)
            res.case(f"{pol}/one_target_per_sensor", case, per_sensor[i] <= 1,
                     signature=f"C07/{pol}/sensor_tasked_twice", observed=obs, expected="column sums <= 1", item=it)
            if pol == "munkres":
                res.case(f"{pol}/one_sensor_per_target", case, per_target[i] <= 1,
                         signature=f"C07/{pol}/target_tasked_twice", observed=obs, expected="row sums <= 1", item=it)
                if hit_near[i] and not hit_exact[i]:
                    res.either_way += 1
                res.case(f"{pol}/optimal_assignment", case, bool(hit_near[i]), nontrivial=bool(nontriv[i]),
                         signature=f"C07/{pol}/not_an_optimal_assignment_AND_visibility", observed=obs,
                         expected="(maximum-total complete one-to-one assignment of the masked rewards) AND visibility",
                         outcome=f"optimal_assignments={min(int(n_opt[i]), 9)},tasked={int(d[i].sum())}", item=it)
            else:
                res.case(f"{pol}/column_maximum", case, bool(hit_exact[i]), nontrivial=bool(nontriv[i]),
                         signature=f"C07/{pol}/not_the_column_maximum", observed=obs,
                         expected="per sensor: a maximum-reward target of its column, tasked iff visible",
                         outcome=f"max_ties={min(int(n_opt[i]), 9)},tasked={int(d[i].sum())}", item=it)


def _run_lat(res, item):
    _, t, s, alph, c0, c1 = item
    c, rew, vis = _decode_lat(t, s, alph, c0, c1)
    _check_decisions(
        res, rew, vis,
        lambda i: {"T": t, "S": s, "alphabet": alph, "code": int(c[i])},
        lambda i: ("lat", t, s, alph, int(c[i]), int(c[i]) + 1),
        exact=alph in EXACT,
    )


def _run_msk(res, item):
    _, t, s, alph, mask_code, c0, c1 = item
    c, rew, vis = _decode_msk(t, s, alph, mask_code, c0, c1)
    _check_decisions(
        res, rew, vis,
        lambda i: {"T": t, "S": s, "alphabet": alph, "mask": mask_code, "code": int(c[i])},
        lambda i: ("msk", t, s, alph, mask_code, int(c[i]), int(c[i]) + 1),
        exact=alph in EXACT,
    )


# ------------------------------------------------------------------------------------------------ relabelling
def _perm_pairs(t, s, mode):
    rows = list(permutations(range(t)))
    cols = list(permutations(range(s)))
    if mode == "all":
        pairs = [(p, q) for p in rows for q in cols]
    else:  # generating set: adjacent transposition and full cycle on each side, and both reversed
        def gens(k):
            ident = tuple(range(k))
            out = []
            if k >= 2:
                out.append((1, 0) + ident[2:])
                out.append(ident[1:] + (0,))
                out.append(ident[::-1])
            return ident, out

        ir, gr = gens(t)
        ic, gc = gens(s)
        pairs = [(p, ic) for p in gr] + [(ir, q) for q in gc]
        if gr and gc:
            pairs.append((gr[-1], gc[1]))
        pairs = list(dict.fromkeys(pairs))
    ident = (tuple(range(t)), tuple(range(s)))
    return [pq for pq in pairs if pq != ident]


def _check_equiv(res, rew, vis, t, s, mode, ident, mk_item, exact=True):
    n = rew.shape[0]
    decs = _decisions()
    tol = 0.0 if exact else TOL
    pairs = _perm_pairs(t, s, mode)
    for pol in POLICIES:
        d0, err0 = _call_batch(decs[pol], rew.copy(), vis.copy())
        if pol == "munkres":
            opt, dcodes, _near = orc.assignment_oracle(rew, vis, tol=tol)
            # admissible decision unique <=> all optimal assignments leave the same decision after the AND
            first = dcodes[np.arange(n), opt.argmax(axis=1)]
            unique = (~opt | (dcodes == first[:, None])).all(axis=1)
        else:
            _ok, unique, _ = orc.greedy_oracle(rew, vis, d0)
        for p, q in pairs:
            pl, ql = list(p), list(q)
            rew_p = np.ascontiguousarray(rew[:, pl][:, :, ql])
            vis_p = np.ascontiguousarray(vis[:, pl][:, :, ql])
            dp, errp = _call_batch(decs[pol], rew_p.copy(), vis_p.copy())
            res.observe(dp)
            want = d0[:, pl][:, :, ql]
            same = (dp == want).reshape(n, -1).all(axis=1)
            # the permuted problem's own reference (computed on the permuted input, not by permuting the reference)
            if pol == "munkres":
                opt_p, dcodes_p, near_p = orc.assignment_oracle(rew_p, vis_p, tol=tol)
                adm = (near_p & (dcodes_p == orc.pack(dp)[:, None])).any(axis=1)
            else:
                adm, _u, _ = orc.greedy_oracle(rew_p, vis_p, dp)
            for i in range(n):
                if i in err0 or i in errp:
                    full = dict(ident(i), policy=pol, reward=rew[i].tolist(), visible=vis[i].tolist(), rows=pl, cols=ql)
                    res.case(f"{pol}/relabelling", full, False, signature=f"C07/{pol}/exception",
                             observed=err0.get(i) or errp.get(i), item=mk_item(i))
                    continue
                ok = bool(adm[i]) and (bool(same[i]) or not unique[i])
                case = ident(i)
                case.update(policy=pol, rows=pl, cols=ql)
                if not ok or len(res.samples) < 2:
                    case.update(reward=rew[i].tolist(), visible=vis[i].tolist())
                res.case(
                    f"{pol}/relabelling", case, ok, nontrivial=bool(unique[i]),
                    signature=f"C07/{pol}/relabelling/" + ("not_admissible" if not adm[i] else "unique_optimum_not_relabelled"),
                    observed=None if ok else {"permuted_input_decision": dp[i].tolist(), "permuted_decision": want[i].tolist()},
                    expected="decision of relabelled input = relabelled decision (unique optimum) / an optimum (ties)",
                    outcome="unique" if unique[i] else "tied", item=None if ok else mk_item(i),
                )


def _run_equiv(res, item):
    _, t, s, alph, mode, c0, c1 = item
    c, rew, vis = _decode_lat(t, s, alph, c0, c1)
    _check_equiv(res, rew, vis, t, s, mode,
                 lambda i: {"T": t, "S": s, "alphabet": alph, "code": int(c[i])},
                 lambda i: ("equiv", t, s, alph, mode, int(c[i]), int(c[i]) + 1), exact=alph in EXACT)


def _run_equivm(res, item):
    _, t, s, alph, mode, mask_code, c0, c1 = item
    c, rew, vis = _decode_msk(t, s, alph, mask_code, c0, c1)
    _check_equiv(res, rew, vis, t, s, mode,
                 lambda i: {"T": t, "S": s, "alphabet": alph, "mask": mask_code, "code": int(c[i])},
                 lambda i: ("equivm", t, s, alph, mode, mask_code, int(c[i]), int(c[i]) + 1), exact=alph in EXACT)


# ------------------------------------------------------------------------------------------------ mask-only policies
def _mask_batch(t, s, c0, c1):
    n = t * s
    c = np.arange(c0, c1, dtype=np.int64)
    vis = ((c[:, None] >> np.arange(n, dtype=np.int64)[None, :]) & 1).astype(bool).reshape(-1, t, s)
    # rewards are irrelevant to these policies; a deterministic non-constant filler (masked like the engine's)
    filler = (((c[:, None] * 7 + np.arange(n)[None, :] * 3) % 5) - 1).astype(float).reshape(-1, t, s)
    return c, np.where(vis, filler, 0.0), vis


def _run_maskonly(res, item):
    _, t, s, seed, c0, c1 = item
    c, rew, vis = _mask_batch(t, s, c0, c1)
    n = len(c)
    vf = vis.reshape(n, -1)
    mixed = vf.any(axis=1) & ~vf.all(axis=1)
    # all-visible: exactly the visible pairs
    d, errors = _call_batch(_decisions()["allvisible"], rew.copy(), vis.copy())
    res.observe(d)
    eq = (d == vis).reshape(n, -1).all(axis=1)
    for i in range(n):
        ok = bool(eq[i]) and i not in errors
        case = {"policy": "allvisible", "T": t, "S": s, "mask": int(c[i])}
        res.case("allvisible/exactly_visible_pairs", case, ok, nontrivial=bool(mixed[i]),
                 signature="C07/allvisible/" + ("exception" if i in errors else "not_the_visible_pairs"),
                 observed=errors.get(i) or (None if ok else d[i].tolist()), expected=None if ok else vis[i].tolist(),
                 outcome=f"tasked={int(d[i].sum())}", item=None if ok else ("maskonly", t, s, seed, int(c[i]), int(c[i]) + 1))
    # random: two generators with the same seed (one from the config factory, one constructed directly) over the
    # same input sequence, and one with another seed
    for rs in (seed, seed + 1) if t * s < 16 else (seed,):
        a = decisionFactory(RandomDecisionConfig(seed=rs))
        b = RandomDecision(seed=rs)
        da, ea = _call_batch(a, rew.copy(), vis.copy())
        db, eb = _call_batch(b, rew.copy(), vis.copy())
        # (the drawn targets are deliberately not fed to the determinism digest: an unseeded generator must surface as
        # the reproducibility violation below, not as a harness error)
        same_seq = (da == db).reshape(n, -1).all(axis=1)
        first_diff = int(np.argmin(same_seq)) if not same_seq.all() else None
        # one elemental case per (seed, input sequence): two generators with equal seeds draw the same decisions
        res.case("random/reproducible_for_equal_seed", {"policy": "random", "rng_seed": rs, "T": t, "S": s, "chunk": [c0, c1]},
                 first_diff is None, nontrivial=bool(mixed.any()), signature="C07/random/not_reproducible",
                 observed=None if first_diff is None else {"first_differing_mask": int(c[first_diff]),
                                                           "factory_instance": da[first_diff].tolist(),
                                                           "direct_instance": db[first_diff].tolist()},
                 expected="identical decision sequences", item=item)
        colcnt = da.sum(axis=1)  # (n,S)
        want = vis.any(axis=1).astype(int)
        for i in range(n):
            case = {"policy": "random", "rng_seed": rs, "T": t, "S": s, "mask": int(c[i])}
            it = ("maskonly", t, s, seed, int(c[i]), int(c[i]) + 1)
            if i in ea or i in eb:
                res.case("random/no_exception", case, False, signature="C07/random/exception",
                         observed=ea.get(i) or eb.get(i), item=("maskonly", t, s, seed, c0, int(c[i]) + 1))
                continue
            inv = bool((da[i] & ~vis[i]).any())
            res.case("random/visible_only", case, not inv, signature="C07/random/tasked_invisible",
                     observed=da[i].tolist() if inv else None, expected="subset of visibility", item=it if inv else None)
            res.case("random/one_target_per_sensor", case, bool((colcnt[i] <= 1).all()),
                     signature="C07/random/sensor_tasked_twice", observed=colcnt[i].tolist(), item=it)
            res.case("random/one_if_any_visible", case, bool((colcnt[i] == want[i]).all()), nontrivial=bool(mixed[i]),
                     signature="C07/random/sensor_with_visible_target_idle_or_blind_sensor_tasked",
                     observed=colcnt[i].tolist(), expected=want[i].tolist(), outcome=f"tasked={int(da[i].sum())}", item=it)
    if t >= 2 and n >= 64:
        # the seed is used: another seed gives a different decision sequence on this chunk
        other, _ = _call_batch(RandomDecision(seed=seed + 1), rew.copy(), vis.copy())
        first, _ = _call_batch(RandomDecision(seed=seed), rew.copy(), vis.copy())
        res.case("random/seed_is_used", {"policy": "random", "T": t, "S": s, "chunk": [c0, c1]},
                 bool((other != first).any()), signature="C07/random/seed_ignored", item=item)


def _run_support(res, item):
    """RandomDecision is a choice among *all* visible targets: over 64 consecutive draws of one seeded generator
    every visible target of every sensor is chosen at least once (a miss has probability < 4*(3/4)^64 = 4e-8 for a
    uniform choice; the run is deterministic for the pinned numpy)."""
    seed = item[1]
    for t in (1, 2, 3, 4):
        for s in (1, 2):
            for m in range(1, 2 ** (t * s)):
                vis = orc.unpack(m, t, s)
                rew = np.where(vis, 1.0, 0.0)
                dec = RandomDecision(seed=seed + 17)
                seen = np.zeros((t, s), dtype=bool)
                err = None
                try:
                    for _ in range(64):
                        seen |= dec.calculate(rew.copy(), vis.copy())
                except Exception as exc:  # noqa: BLE001
                    err = f"{type(exc).__name__}: {exc}"
                res.observe(seen)
                res.case("random/support_is_all_visible_targets", {"policy": "random", "T": t, "S": s, "mask": m},
                         err is None and bool((seen == vis).all()), nontrivial=int(vis.sum(axis=0).max()) >= 2,
                         signature="C07/random/support" if err is None else "C07/random/exception",
                         observed=err or seen.tolist(), expected=vis.tolist(), item=item)


def _run_factory(res, item):
    """Label -> class mapping of the factories, seed/delta hand-over of fromConfig."""
    want = {
        DecisionLabel.MUNKRES: (MunkresDecisionConfig(), MunkresDecision),
        DecisionLabel.MYOPIC_NAIVE_GREEDY: (MyopicNaiveGreedyDecisionConfig(), MyopicNaiveGreedyDecision),
        DecisionLabel.RANDOM: (RandomDecisionConfig(seed=3), RandomDecision),
        DecisionLabel.ALL_VISIBLE: (AllVisibleDecisionConfig(), AllVisibleDecision),
    }
    for label, (cfg, cls) in want.items():
        obj = decisionFactory(cfg)
        res.case("factory/decision_class", {"label": str(label.value)}, type(obj) is cls, nontrivial=True,
                 signature="C07/factory/decision_class", observed=type(obj).__name__, expected=cls.__name__, item=item)
    rmap = {
        RewardLabel.COST_CONSTRAINED: (CostConstrainedRewardConfig, CostConstrainedReward,
                                       ["ShannonInformation", "LyapunovStability", "SlewTimeMinimization"]),
        RewardLabel.SIMPLE_SUM: (SimpleSummationRewardConfig, SimpleSummationReward, ["TimeSinceObservation", "Range"]),
        RewardLabel.COMBINED: (CombinedRewardConfig, CombinedReward,
                               ["ShannonInformation", "LyapunovStability", "SlewTimeMinimization", "TimeSinceObservation"]),
    }
    for label, (ccls, cls, metrics) in rmap.items():
        cfg = ccls(metrics=[MetricConfig(name=m) for m in metrics])
        obj = rewardsFactory(cfg)
        names = [type(m).__name__ for m in obj.metrics]
        ok = type(obj) is cls and names == metrics and (not hasattr(cfg, "delta") or obj._delta == cfg.delta)  # noqa: SLF001
        res.case("factory/reward_class", {"label": str(label.value)}, ok, nontrivial=True,
                 signature="C07/factory/reward_class", observed=[type(obj).__name__, names], expected=[cls.__name__, metrics],
                 item=item)
    # delta hand-over of fromConfig (rewards.py) - stand-in config object, then the library's own config classes
    tensor = orc.normalise_ref(_engine_tables(2, 3, 4, 1, 0))
    for cls, ccls, kind, names in (
        (CostConstrainedReward, CostConstrainedRewardConfig, "cost_constrained", rmap[RewardLabel.COST_CONSTRAINED][2]),
        (CombinedReward, CombinedRewardConfig, "combined", rmap[RewardLabel.COMBINED][2]),
    ):
        order = ("sensor", "information", "stability", "target")[: len(names)]
        for delta in (0.85, 0.5, 0.25):
            case = {"reward": kind, "delta": delta, "via": "fromConfig(stand-in config)"}
            try:
                obj = cls.fromConfig([STUBS[k]() for k in order], SimpleNamespace(delta=delta, name=kind, metrics=[]))
                got = np.asarray(obj.calculate(tensor[..., : len(order)].copy()), dtype=float).reshape(2, 3)
                ref = orc.reward_ref(kind, list(order), tensor[..., : len(order)], delta)
                res.case("factory/fromConfig_delta", case, fw.maxabs(got, ref) <= TOL, nontrivial=delta != 0.85,
                         signature="C07/factory/fromConfig_delta", observed=got.tolist(), expected=ref.tolist(), item=item)
            except Exception as exc:  # noqa: BLE001
                res.case("factory/fromConfig_delta", case, False, signature="C07/factory/exception",
                         observed=f"{type(exc).__name__}: {exc}", item=item)
            case = {"reward": kind, "delta": delta, "via": "library config class + rewardsFactory"}
            try:
                cfg = ccls(metrics=[MetricConfig(name=m) for m in names], delta=delta)
            except Exception as exc:  # noqa: BLE001
                text = f"{type(exc).__name__}: {exc}"
                rejected = type(exc).__name__ == "ValidationError" and "delta" in text and "less than 0" in text
                res.case("factory/reward_delta_from_config", case, False,
                         signature="C07/factory/reward_config_rejects_delta" if rejected else "C07/factory/exception",
                         observed=text[:300], expected="a reward with the configured delta (documented: ratio of "
                         "information reward to sensor reward, default 0.85)", item=item)
                continue
            try:
                obj = rewardsFactory(cfg)
                types = [str(getattr(m.metric_type, "value", m.metric_type)) for m in obj.metrics]
                got = np.asarray(obj.calculate(tensor[..., : len(names)].copy()), dtype=float).reshape(2, 3)
                ref = orc.reward_ref(kind, types, tensor[..., : len(names)], delta)
                res.case("factory/reward_delta_from_config", case, fw.maxabs(got, ref) <= TOL, nontrivial=True,
                         signature="C07/factory/reward_delta_from_config", observed=got.tolist(), expected=ref.tolist(), item=item)
            except Exception as exc:  # noqa: BLE001
                res.case("factory/reward_delta_from_config", case, False, signature="C07/factory/exception",
                         observed=f"{type(exc).__name__}: {exc}", item=item)
    res.observe("factory")


# ------------------------------------------------------------------------------------------------ unmasked inputs
def _run_unmasked(res, item):
    """Reward matrices that are NOT masked by visibility (the property's 'for any reward and visibility matrices'
    clauses): feasibility, and calculate() == _calculate() AND visibility as decision_base documents."""
    _, t, s, alph, c0, c1 = item
    n = t * s
    vals = np.array(ALPHABETS[alph])
    a = len(vals)
    c = np.arange(c0, c1, dtype=np.int64)
    digits = (c[:, None] // (np.int64(2 * a) ** np.arange(n, dtype=np.int64))[None, :]) % (2 * a)
    vis = (digits >= a).reshape(-1, t, s)
    rew = vals[digits % a].reshape(-1, t, s)
    nn = len(c)
    vf = vis.reshape(nn, -1)
    nontriv = vf.any(axis=1) & ~vf.all(axis=1) & (rew.reshape(nn, -1).max(axis=1) > rew.reshape(nn, -1).min(axis=1))
    decs = _decisions()
    for pol in ("munkres", "greedy"):
        dec = decs[pol]
        d, errors = _call_batch(dec, rew.copy(), vis.copy())
        res.observe(d)
        raw = np.zeros_like(d)
        for i in range(nn):
            try:
                raw[i] = dec._calculate(rew[i].copy(), vis[i].copy())  # noqa: SLF001
            except Exception as exc:  # noqa: BLE001
                errors.setdefault(i, f"{type(exc).__name__}: {exc}")
        inv = (d & ~vis).reshape(nn, -1).any(axis=1)
        per_sensor = d.sum(axis=1).max(axis=1)
        per_target = d.sum(axis=2).max(axis=1)
        anded = ((raw & vis) == d).reshape(nn, -1).all(axis=1)
        # the selection itself (before the AND) on the reward matrix as given
        if pol == "munkres":
            opt, _dc, _near = orc.assignment_oracle(rew, np.ones_like(vis))
            _r, _c, acodes = orc.assignments(t, s)
            sel_ok = (opt & (acodes[None, :] == orc.pack(raw)[:, None])).any(axis=1)
        else:
            sel_ok, _u, _ = orc.greedy_oracle(rew, np.ones_like(vis), raw)
        for i in range(nn):
            case = {"policy": pol, "T": t, "S": s, "alphabet": alph, "code": int(c[i])}
            it = ("unmasked", t, s, alph, int(c[i]), int(c[i]) + 1)
            if i in errors:
                res.case(f"{pol}/unmasked/no_exception", case, False, signature=f"C07/{pol}/exception",
                         observed=errors[i], item=it)
                continue
            bad = inv[i] or per_sensor[i] > 1 or (pol == "munkres" and per_target[i] > 1) or not anded[i] or not sel_ok[i]
            if bad:
                case.update(reward=rew[i].tolist(), visible=vis[i].tolist())
            obs = {"calculate": d[i].tolist(), "_calculate": raw[i].tolist()} if bad else None
            res.case(f"{pol}/unmasked/visible_only", case, not inv[i], signature=f"C07/{pol}/tasked_invisible",
                     observed=obs, item=it if bad else None)
            res.case(f"{pol}/unmasked/one_target_per_sensor", case, per_sensor[i] <= 1,
                     signature=f"C07/{pol}/sensor_tasked_twice", observed=obs, item=it if bad else None)
            if pol == "munkres":
                res.case(f"{pol}/unmasked/one_sensor_per_target", case, per_target[i] <= 1,
                         signature=f"C07/{pol}/target_tasked_twice", observed=obs, item=it if bad else None)
            res.case(f"{pol}/unmasked/selection_then_AND", case, bool(anded[i]) and bool(sel_ok[i]),
                     nontrivial=bool(nontriv[i]),
                     signature=f"C07/{pol}/unmasked/" + ("calculate_is_not_selection_AND_visibility" if not anded[i]
                                                         else "selection_not_optimal_for_given_rewards"),
                     observed=obs, expected="policy selection on the given rewards, then AND with visibility",
                     outcome=f"tasked={int(d[i].sum())}", item=it if bad else None)


# ------------------------------------------------------------------------------------------------ beyond 4x4
def _check_big(res, sub, rew, vis, ident, item):
    """Same clauses as the small lattices, brute force over all complete assignments (n! <= 40320)."""
    n, t, s = rew.shape
    decs = _decisions()
    nontriv = _nontrivial_masked(rew, vis)
    for pol in POLICIES:
        d, errors = _call_batch(decs[pol], rew.copy(), vis.copy())
        res.observe(d)
        for i in range(n):
            case = dict(ident(i), policy=pol, T=t, S=s)
            if i in errors:
                res.case(f"{pol}/{sub}", case, False, signature=f"C07/{pol}/exception", observed=errors[i], item=item)
                continue
            r1, v1, d1 = rew[i : i + 1], vis[i : i + 1], d[i : i + 1]
            feas = not (d[i] & ~vis[i]).any() and d[i].sum(axis=0).max() <= 1
            if pol == "munkres":
                feas = feas and d[i].sum(axis=1).max() <= 1
                opt, dcodes, _near = _big_assignment_oracle(r1[0], v1[0])
                hit = bool((opt & (dcodes == _pack_big(d[i]))).any())
            else:
                ok, _u, _ = orc.greedy_oracle(r1, v1, d1)
                hit = bool(ok[0])
            good = bool(feas and hit)
            if not good:
                case.update(reward=rew[i].tolist(), visible=vis[i].tolist())
            res.case(f"{pol}/{sub}", case, good, nontrivial=bool(nontriv[i]),
                     signature=f"C07/{pol}/{sub}/" + ("infeasible" if not feas else "not_optimal"),
                     observed=None if good else d[i].tolist(), outcome=f"tasked={int(d[i].sum())}", item=item)


def _pack_big(mat):
    flat = mat.reshape(-1)
    return (np.uint64(1) << np.nonzero(flat)[0].astype(np.uint64)).sum(dtype=np.uint64)


def _big_assignment_oracle(rew, vis):
    """Single T x S problem (T*S <= 64), decisions packed into uint64."""
    t, s = rew.shape
    rows, cols, _ = orc.assignments(t, s)
    totals = rew[rows, cols].sum(axis=1)
    opt = totals == totals.max()
    bits = (np.uint64(1) << (rows * s + cols).astype(np.uint64))
    dcodes = np.where(vis[rows, cols], bits, np.uint64(0)).sum(axis=1, dtype=np.uint64)
    return opt, dcodes, None


def _big_masks(t, s):
    full = np.ones((t, s), dtype=bool)
    ii, jj = np.indices((t, s))
    return {"all": full, "checker": (ii + jj) % 2 == 0, "lower": ii >= jj, "band": np.abs(ii - jj) <= 1}


def _run_bigperm(res, item):
    _, n, c0, c1 = item
    perms = list(permutations(range(n)))[c0:c1]
    masks = _big_masks(n, n)
    for scale in (1.0, 2.0):
        for mname, m in masks.items():
            rew = np.zeros((len(perms), n, n))
            for k, p in enumerate(perms):
                rew[k, np.arange(n), list(p)] = scale
            vis = np.broadcast_to(m, rew.shape).copy()
            rew = np.where(vis, rew, 0.0)
            _check_big(res, f"beyond4x4/permutation_n{n}", rew, vis,
                       lambda i, mname=mname, scale=scale: {"family": "permutation", "perm": list(perms[i]), "mask": mname, "scale": scale},
                       item)


def _run_bigfam(res, item):
    _, t, s, seed = item
    ii, jj = np.indices((t, s))
    fams = {
        "ordered": (ii * s + jj).astype(float),
        "ordered_neg": -(ii * s + jj).astype(float),
        "ordered_T": (jj * t + ii).astype(float),
        "rank_one": ((ii + 1) * (jj + 1)).astype(float),
        "rank_one_anti": ((ii + 1) * (s - jj)).astype(float),
        "constant": np.ones((t, s)),
        "zero": np.zeros((t, s)),
        "cyclic": ((ii + jj + seed) % max(t, s)).astype(float),
        "cyclic_neg": -((ii * 2 + jj + seed) % max(t, s)).astype(float),
        "latin_signed": (((ii * 3 + jj * 5 + seed) % 7) - 3).astype(float),
    }
    masks = _big_masks(t, s)
    names, rews, viss = [], [], []
    for fname, r in fams.items():
        for mname, m in masks.items():
            names.append((fname, mname))
            rews.append(np.where(m, r, 0.0))
            viss.append(m)
    _check_big(res, "beyond4x4/families", np.array(rews), np.array(viss),
               lambda i: {"family": names[i][0], "mask": names[i][1]}, item)



# ------------------------------------------------------------------------------------------------ up to 40 x 40
KNOWN_SHAPES = [(9, 9), (12, 12), (16, 16), (25, 25), (40, 40), (40, 25), (25, 40), (12, 30), (30, 7)]


def _injections(t, s, seed):
    """Deterministic one-to-one maps from the smaller side into the larger (as boolean T x S matrices)."""
    small, large = min(t, s), max(t, s)
    maps = {
        "shift0": [i % large for i in range(small)],
        "shift1": [(i + 1) % large for i in range(small)],
        f"shift{2 + seed % (large - 2)}": [(i + 2 + seed % (large - 2)) % large for i in range(small)],
        "reverse": [large - 1 - i for i in range(small)],
    }
    for a in (3, 7, 11):
        if np.gcd(a, large) == 1:
            maps[f"affine{a}"] = [(a * i + 5 + seed) % large for i in range(small)]
    out = {}
    for name, img in maps.items():
        p = np.zeros((t, s), dtype=bool)
        if t <= s:
            p[np.arange(small), img] = True
        else:
            p[img, np.arange(small)] = True
        out[name] = p
    return out


def _run_bigknown(res, item):
    """Sizes where n! brute force is impossible (the property text: up to 40 x 40): reward matrices whose optimum
    is known by construction.  R = c*P (P a one-to-one map of the smaller side): every optimal complete
    assignment contains all visible pairs of P, and for the all-visible mask P is the unique optimum;
    R = -c*(1-P): every tasked pair lies on P.  The greedy reference is O(T*S) and is used in full."""
    _, t, s, seed = item
    decs = _decisions()
    masks = _big_masks(t, s)
    for pname, pm in _injections(t, s, seed).items():
        for scale in (1.0, 2.0):
            for variant in ("positive", "negative"):
                for mname, m in masks.items():
                    raw = scale * pm if variant == "positive" else -scale * (~pm)
                    rew = np.where(m, raw, 0.0)[None]
                    vis = m[None].copy()
                    case = {"T": t, "S": s, "map": pname, "scale": scale, "variant": variant, "mask": mname}
                    for pol in POLICIES:
                        d, errors = _call_batch(decs[pol], rew.copy(), vis.copy())
                        res.observe(d)
                        c = dict(case, policy=pol)
                        if errors:
                            res.case(f"{pol}/upto40x40", c, False, signature=f"C07/{pol}/exception", observed=errors[0], item=item)
                            continue
                        d0 = d[0]
                        feas = not (d0 & ~m).any() and d0.sum(axis=0).max() <= 1 and (pol != "munkres" or d0.sum(axis=1).max() <= 1)
                        if pol == "greedy":
                            ok, _u, _ = orc.greedy_oracle(rew, vis, d)
                            good = bool(ok[0])
                        elif variant == "positive":
                            good = bool((d0 & pm & m == pm & m).all()) and (mname != "all" or bool((d0 == pm).all()))
                        else:
                            good = bool((d0 & ~(pm & m)).sum() == 0) and (mname != "all" or bool((d0 == pm).all()))
                        res.case(f"{pol}/upto40x40", c, bool(feas and good), nontrivial=mname != "all",
                                 signature=f"C07/{pol}/upto40x40/" + ("infeasible" if not feas else "known_optimum_missed"),
                                 observed=None if (feas and good) else np.argwhere(d0).tolist(),
                                 expected=None if (feas and good) else np.argwhere(pm & m).tolist(),
                                 outcome=f"tasked_is_P={bool((d0 == (pm & m)).all())}", item=item)


# ------------------------------------------------------------------------------------------------ rewards
class _Stub:
    """Mixin: value of the metric for a (target, sensor) pair is looked up in a table set by the harness."""

    def __init__(self):
        self.table = None

    def calculate(self, estimate_agent, sensor_agent):
        return self.table[estimate_agent.row, sensor_agent.col]


class StubInformation(_Stub, metric_base.InformationMetric):
    pass


class StubStability(_Stub, metric_base.StabilityMetric):
    pass


class StubSensor(_Stub, metric_base.SensorMetric):
    pass


class StubTarget(_Stub, metric_base.TargetMetric):
    pass


class StubUncertainty(_Stub, metric_base.UncertaintyMetric):
    pass


class StubState(_Stub, metric_base.StateMetric):
    pass


class StubInformation2(_Stub, metric_base.InformationMetric):
    pass


STUBS = {
    "information": StubInformation,
    "stability": StubStability,
    "sensor": StubSensor,
    "target": StubTarget,
    "uncertainty": StubUncertainty,
    "state": StubState,
    "information2": StubInformation2,
}
TYPE_OF = {k: (MetricTypeLabel.INFORMATION.value if k == "information2" else k) for k in STUBS}

REWARD_SHAPES = [(1, 1), (1, 2), (2, 1), (2, 2), (2, 3), (3, 2), (1, 4), (4, 1), (3, 3)]
ENGINE_SHAPES = [(1, 1), (1, 2), (2, 1), (2, 2), (2, 3), (3, 2), (3, 3), (1, 4), (4, 2)]
RVALS = (-1.0, 0.0, 0.5, 2.0)


def _slice_family(shape, small):
    """Metric slices (T,S) a tensor is assembled from."""
    t, s = shape
    n = t * s
    if n == 1:
        return [np.full((1, 1), v) for v in RVALS]
    if n == 2:
        vals = (-1.0, 0.0, 2.0) if small else RVALS
        return [np.array(c).reshape(t, s) for c in product(vals, repeat=2)]
    k = np.arange(n, dtype=float)
    fam = [
        np.zeros(n),  # max 0: not normalised
        -(k + 1) / 4.0,  # all negative, distinct: not normalised
        (k + 1) / 2.0,  # distinct positives, max at the last entry (> 1)
        (n - k) / (4.0 * n),  # distinct positives, max at the first entry (< 1)
        np.where(k % 2 == 0, k + 1.0, -(k + 1.0) / 2.0),  # mixed signs, distinct
    ]
    if not small:
        fam += [
            np.roll((k - 1.0) / 2.0, 1),  # contains -0.5, 0 and positives
            np.where(k == n // 2, 2.0, 0.0),  # single positive entry
            np.full(n, 0.5),  # constant
        ]
    return [f.reshape(t, s) for f in fam]


def _reward_plan(kind, shape, tier):
    """variants = (metric kinds in constructor order, delta or None for the constructor default, slice family)."""
    n = shape[0] * shape[1]
    thorough = tier == "thorough"
    if kind == "cost_constrained":
        base = ("information", "stability", "sensor")
        orders = list(permutations(base))
        if thorough or n != 2:
            combos = [(o, dl) for o in orders for dl in (None, 0.5, 0.25)]
        else:
            combos = [(o, None) for o in orders] + [(base, 0.5), (base[::-1], 0.25), (orders[3], 0.5)]
        variants = [(o, dl, _slice_family(shape, shape == (2, 1) and not thorough)) for o, dl in combos]
    elif kind == "combined":
        base = ("information", "stability", "sensor", "target")
        orders = list(permutations(base))
        if n == 2 and not thorough:
            orders = orders[::4] if shape == (1, 2) else orders[1::6]
        elif n > 2 and not thorough:
            orders = orders[::2] if (shape[0] + shape[1]) % 2 else orders[1::2]
        combos = [(o, None) for o in orders] + [(base, 0.5), (base[::-1], 0.25)]
        if n == 2 and not thorough:
            combos = combos[:-1] if shape == (1, 2) else combos[:-2] + [(base[::-1], 0.25)]
        variants = [(o, dl, _slice_family(shape, not thorough or n > 2)) for o, dl in combos]
    else:
        combos = [
            ("information",),
            ("target", "sensor"),
            ("uncertainty", "state", "information"),
            ("information", "information2", "stability", "target"),
        ]
        variants = [(o, None, _slice_family(shape, len(o) == 4 and n == 2 and not thorough)) for o in combos]
    n_values = max(len(f) ** len(o) for o, _dl, f in variants)
    return {"variants": variants, "n_values": n_values}


_ENGINE_READY = False


def _engine(t, s, reward, decision, sensor_ids=None, target_ids=None):
    global _ENGINE_READY  # noqa: PLW0603
    if not _ENGINE_READY:
        scen.fresh()
        setDBPath("sqlite://")
        _ENGINE_READY = True
    target_ids = target_ids or [300 + 7 * k for k in range(t)]
    sensor_ids = sensor_ids or [100 + 3 * k for k in range(s)]
    return CentralizedTaskingEngine(1, list(sensor_ids), list(target_ids), reward, decision, None, True)


def _build_reward(kind, order, delta):
    metrics = [STUBS[k]() for k in order]
    if kind == "simple_sum":
        return SimpleSummationReward(metrics), metrics, 0.0
    cls = CostConstrainedReward if kind == "cost_constrained" else CombinedReward
    if delta is None:
        return cls(metrics), metrics, 0.85  # documented constructor default
    return cls(metrics, delta=delta), metrics, delta


def _run_reward(res, item):
    _, kind, shape, tier, c0, c1 = item
    shape = tuple(shape)
    t, s = shape
    plan = _reward_plan(kind, shape, tier)
    ests = [SimpleNamespace(row=i, simulation_id=300 + 7 * i) for i in range(t)]
    sens = [SimpleNamespace(col=j, simulation_id=100 + 3 * j) for j in range(s)]
    for order, delta, fam in plan["variants"]:
        p = len(order)
        nf = len(fam)
        reward, metrics, dval = _build_reward(kind, order, delta)
        engine = _engine(t, s, reward, _decisions()["munkres"])
        types = [TYPE_OF[k] for k in order]
        for code in range(c0, min(c1, nf**p)):
            idx = [(code // nf**k) % nf for k in range(p)]
            tensor = np.stack([fam[i] for i in idx], axis=-1)  # (T,S,P) reference copy of the enumerated values
            for m, i in zip(metrics, idx):
                m.table = fam[i]
            case = {"reward": kind, "order": list(order), "delta": delta, "T": t, "S": s, "slices": idx}
            it = ("reward", kind, list(shape), tier, code, code + 1)
            tops = tensor.reshape(-1, p).max(axis=0)
            nontriv = bool(((tops > 0) & (tops != 1.0)).any()) and float(tensor.max()) > float(tensor.min())
            stab_label = "no_stability_metric"
            if "stability" in order:
                signs = sorted({int(np.sign(x)) for x in tensor[..., list(order).index("stability")].ravel()})
                stab_label = "stability_signs=" + ",".join(str(x) for x in signs)
            try:
                got = np.zeros((t, s, p))
                for i in range(t):
                    for j in range(s):
                        got[i, j] = reward.calculateMetrics(ests[i], sens[j])
                ok_m = bool((got == tensor).all())
                res.case("reward/calculateMetrics_order", case, ok_m, signature=f"C07/reward/{kind}/calculateMetrics",
                         observed=None if ok_m else got.tolist(), expected=None if ok_m else tensor.tolist(), item=it)
                norm = reward.normalizeMetrics(got.copy())
                ref_norm = orc.normalise_ref(tensor)
                ntops = np.asarray(norm).reshape(-1, p).max(axis=0)
                ok_top = bool((ntops <= 1.0 + 1e-12).all())
                res.case("reward/normalised_at_most_one", case, ok_top, signature=f"C07/reward/{kind}/normalised_max_above_one",
                         observed=None if ok_top else ntops.tolist(), expected="<= 1", item=it)
                ok_norm = np.asarray(norm).shape == ref_norm.shape and fw.maxabs(norm, ref_norm) <= TOL
                res.case("reward/normalised_is_metric_over_max", case, bool(ok_norm),
                         signature=f"C07/reward/{kind}/normalisation_value", observed=None if ok_norm else np.asarray(norm).tolist(),
                         expected=None if ok_norm else ref_norm.tolist(), outcome=f"slices_normalised={int(((tops > 0) & (tops != 1.0)).sum())}", item=it)
                # through the engine: calculateRewards() = normalise + formula + reshape to (targets, sensors)
                engine.metric_matrix = tensor.copy()
                engine.visibility_matrix = np.ones((t, s), dtype=bool)
                engine.calculateRewards()
                rmat = np.asarray(engine.reward_matrix, dtype=float)
                ref = orc.reward_ref(kind, types, ref_norm, dval)
                ok = rmat.shape == (t, s) and bool(np.isfinite(rmat).all()) and fw.maxabs(rmat, ref) <= TOL
                res.case(f"reward/formula/{kind}", case, ok, nontrivial=nontriv,
                         signature=f"C07/reward/{kind}/formula", observed=None if ok else rmat.tolist(),
                         expected=None if ok else ref.tolist(),
                         outcome=stab_label, item=it)
                direct = np.asarray(reward.calculate(ref_norm.copy()), dtype=float)
                ok_d = direct.size == t * s and fw.maxabs(direct.reshape(t, s), ref) <= TOL
                res.case(f"reward/calculate_direct/{kind}", case, ok_d, signature=f"C07/reward/{kind}/calculate_direct",
                         observed=None if ok_d else direct.tolist(), expected=None if ok_d else ref.tolist(), item=it)
                res.observe(rmat)
            except Exception as exc:  # noqa: BLE001
                res.case(f"reward/no_exception/{kind}", case, False, signature=f"C07/reward/{kind}/exception",
                         observed=f"{type(exc).__name__}: {exc}", item=it)


# ------------------------------------------------------------------------------------------------ engine chain
def _engine_tables(t, s, p, which, seed):
    """Deterministic metric tables with distinct entries (so that any transposition / row mix-up changes rewards)."""
    k = np.arange(t * s * p, dtype=float).reshape(t, s, p)
    if which == 0:
        return ((k * 7 + seed) % 11) / 2.0 - 1.0
    if which == 1:
        return ((k * 5 + 3 + seed) % 13) / 4.0 - 0.5
    if which == 2:
        return -(((k * 3 + seed) % 7) + 1.0) / 3.0
    return np.where((k + seed) % 3 == 0, 0.0, ((k * 11) % 17) / 8.0 - 0.75)


def _run_engine(res, item):
    """Hand-filled visibility / metric rows -> TaskingRewardRegistration.processResults -> calculateRewards ->
    generateTasking -> getCurrentTasking rows, for every decision class."""
    _, t, s, kind, seed, tier = item
    order = {"cost_constrained": ("sensor", "information", "stability"),
             "combined": ("target", "stability", "sensor", "information"),
             "simple_sum": ("target", "uncertainty")}[kind]
    p = len(order)
    types = [TYPE_OF[k] for k in order]
    # ids deliberately given unsorted: the engine sorts them and indexes rows/columns by sorted position
    target_ids = [300 + 7 * ((k * 2 + 1) % t if t % 2 else (t - 1 - k)) for k in range(t)]
    sensor_ids = [100 + 3 * (s - 1 - k) for k in range(s)]
    t_sorted, s_sorted = sorted(target_ids), sorted(sensor_ids)
    n = t * s
    masks = range(2**n) if n <= 6 or tier == "thorough" else sorted({(m * 37 + seed) % 2**n for m in range(0, 2**n, 5)} | {0, 2**n - 1})
    jd = JulianDate(2459304.5)
    pols = {
        "munkres": lambda: decisionFactory(MunkresDecisionConfig()),
        "greedy": lambda: decisionFactory(MyopicNaiveGreedyDecisionConfig()),
        "allvisible": lambda: decisionFactory(AllVisibleDecisionConfig()),
        "random": lambda: decisionFactory(RandomDecisionConfig(seed=seed + 5)),
    }
    for pol, mk in pols.items():
        reward, metrics, dval = _build_reward(kind, order, None)
        engine = _engine(t, s, reward, mk(), sensor_ids=sensor_ids, target_ids=target_ids)
        ests = [SimpleNamespace(row=i, simulation_id=t_sorted[i]) for i in range(t)]
        sens = [SimpleNamespace(col=j, simulation_id=s_sorted[j]) for j in range(s)]
        for m in masks:
            vis = orc.unpack(m, t, s)
            for which in range(4 if n <= 6 else 2):
                tables = _engine_tables(t, s, p, which, seed)
                for q, met in enumerate(metrics):
                    met.table = tables[..., q]
                case = {"reward": kind, "policy": pol, "T": t, "S": s, "mask": int(m), "tables": which}
                try:
                    # what asyncCalculateReward assembles per target: metrics of the visible pairs, zeros elsewhere
                    engine.visibility_matrix = np.zeros((t, s), dtype=bool)
                    engine.metric_matrix = np.zeros((t, s, p))
                    engine.reward_matrix = np.zeros((t, s))
                    engine.decision_matrix = np.zeros((t, s), dtype=bool)
                    tensor = np.zeros((t, s, p))
                    arrival = [(r * 2 + 1 + which) % t if t % 2 else (t - 1 - r) for r in range(t)]
                    for i in arrival:  # results arrive in a scrambled order
                        rowm = np.zeros((s, p))
                        for j in range(s):
                            if vis[i, j]:
                                rowm[j] = reward.calculateMetrics(ests[i], sens[j])
                        tensor[i] = rowm
                        reg = TaskingRewardRegistration(engine, None, reward, [None] * s)
                        reg.processResults(RewardCalcResult(estimate_id=t_sorted[i], visibility=vis[i].copy(), metric_matrix=rowm.copy()))
                    engine.calculateRewards()
                    engine.generateTasking()
                    rows = list(engine.getCurrentTasking(jd))
                except Exception as exc:  # noqa: BLE001
                    res.case("engine/no_exception", case, False, signature=f"C07/engine/{pol}/exception",
                             observed=f"{type(exc).__name__}: {exc}", item=item)
                    continue
                ref = orc.reward_ref(kind, types, orc.normalise_ref(tensor), dval)
                got_r = np.full((t, s), np.nan)
                got_v = np.zeros((t, s), dtype=bool)
                got_d = np.zeros((t, s), dtype=bool)
                seen = set()
                for row in rows:
                    i, j = t_sorted.index(row.target_id), s_sorted.index(row.sensor_id)
                    seen.add((i, j))
                    got_r[i, j], got_v[i, j], got_d[i, j] = float(row.reward), bool(row.visibility), bool(row.decision)
                mixed = 0 < int(vis.sum()) < n
                ok_rows = len(rows) == n and len(seen) == n and all(abs(float(r.julian_date) - float(jd)) < 1e-9 for r in rows)
                res.case("engine/task_rows_complete", case, ok_rows, signature=f"C07/engine/{pol}/task_rows",
                         observed=len(rows), expected=n, item=item)
                res.case("engine/visibility_column", case, bool((got_v == vis).all()),
                         signature=f"C07/engine/{pol}/visibility_column", observed=got_v.tolist(), expected=vis.tolist(), item=item)
                ok_r = bool(np.isfinite(got_r).all()) and fw.maxabs(got_r, ref) <= TOL
                res.case("engine/reward_column", case, ok_r, signature=f"C07/engine/{kind}/reward_column",
                         observed=got_r.tolist(), expected=ref.tolist(), item=item)
                res.case("engine/reward_masked_by_visibility", case, bool((np.abs(got_r[~vis]) <= TOL).all()) if ok_r else True,
                         signature=f"C07/engine/{kind}/reward_of_invisible_pair_nonzero", observed=got_r.tolist(), item=item)
                # decision column against the reference evaluated on the engine's own reward matrix
                r1, v1, d1 = got_r[None] if ok_r else ref[None], vis[None], got_d[None]
                feas = not (got_d & ~vis).any()
                if pol == "munkres":
                    _opt, dcodes, near = orc.assignment_oracle(r1, v1, tol=TOL)
                    good = feas and bool((near & (dcodes == orc.pack(d1)[:, None])).any()) and got_d.sum(axis=0).max() <= 1 and got_d.sum(axis=1).max() <= 1
                elif pol == "greedy":
                    okg, _u, _ = orc.greedy_oracle(r1, v1, d1)
                    good = feas and bool(okg[0])
                elif pol == "allvisible":
                    good = bool((got_d == vis).all())
                else:
                    good = feas and bool((got_d.sum(axis=0) == vis.any(axis=0)).all())
                if not good:
                    case = dict(case, visible=vis.tolist(), reward_matrix=got_r.tolist())
                res.case(f"engine/decision_column/{pol}", case, bool(good), nontrivial=mixed,
                         signature=f"C07/engine/{pol}/decision_column", observed=got_d.tolist(),
                         expected="policy reference on the stored reward/visibility columns",
                         outcome=f"tasked={int(got_d.sum())}", item=item)
                res.observe(got_r, got_d if pol != "random" else None)  # random draws: see _run_maskonly



# ------------------------------------------------------------------------------------------------ real scenario
SCEN_POLICIES = {
    "munkres": "MunkresDecision",
    "greedy": "MyopicNaiveGreedyDecision",
    "random": "RandomDecision",
    "allvisible": "AllVisibleDecision",
}
SCEN_REWARDS = {
    "simple_sum": ("SimpleSummationReward", ["TimeSinceObservation", "ShannonInformation"]),
    "cost_constrained": ("CostConstrainedReward", ["ShannonInformation", "LyapunovStability", "SlewTimeMinimization"]),
    "combined": ("CombinedReward", ["ShannonInformation", "LyapunovStability", "SlewTimeMinimization", "TimeSinceObservation"]),
}


def _run_scenario(res, item):
    """A real 4-target x 2-sensor scenario (real filters, real metrics, assess() over the in-process ray stand-in):
    the visibility / reward / decision columns of the tasks table of every step satisfy the same clauses."""
    from datetime import datetime, timedelta  # noqa: PLC0415

    from resonaate.data.task import Task  # noqa: PLC0415
    from resonaate.physics.time.conversions import getTargetJulianDate  # noqa: PLC0415
    from sqlalchemy.orm import Query  # noqa: PLC0415

    global _ENGINE_READY  # noqa: PLW0603
    _, pol, kind, seed = item
    _ENGINE_READY = False  # scen.build() starts a fresh cluster / DB
    start = datetime(2021, 3, 30, 16, 0, 0) + timedelta(minutes=11 * (seed % 7))
    step, n_steps = 60, 3
    when = start + timedelta(seconds=step)
    targets = [
        scen.target_eci(10001, *scen.overhead_orbit(when, 10.0, 20.0, 900.0)),
        scen.target_eci(10002, *scen.overhead_orbit(when, 10.0, 50.0, 1200.0, heading_deg=45.0)),
        scen.target_eci(10003, *scen.overhead_orbit(when, 10.0, 35.0, 6000.0)),
        scen.target_eci(10004, *scen.overhead_orbit(when, -10.0, 200.0, 900.0)),
    ]
    sensors = [scen.ground_sensor(20001, 10.0, 20.0), scen.ground_sensor(20002, 10.0, 50.0)]
    rname, metrics = SCEN_REWARDS[kind]
    eng = scen.engine(1, targets, sensors, decision=SCEN_POLICIES[pol], reward=rname, metrics=[{"name": m} for m in metrics])
    if pol == "random":
        eng["decision"]["seed"] = seed + 3
    sc = scen.build(scen.config(start, n_steps + 1, [eng], physics=step))
    try:
        sc.propagateTo(getTargetJulianDate(sc.clock.julian_date_start, timedelta(seconds=n_steps * step)))
        rows = sc.database.getData(Query(Task))
    except Exception as exc:  # noqa: BLE001 - an exception out of the tasking step is a finding, not a harness error
        res.case("scenario/no_exception", {"policy": pol, "reward": kind}, False, signature=f"C07/scenario/{pol}/exception",
                 observed=f"{type(exc).__name__}: {exc}", expected="3 tasking steps complete", item=item)
        return
    tids, sids = [10001, 10002, 10003, 10004], [20001, 20002]
    t, s = len(tids), len(sids)
    by_epoch = {}
    for r in rows:
        by_epoch.setdefault(round((r.julian_date - float(sc.clock.julian_date_start)) * 86400.0), []).append(r)
    res.case("scenario/epochs_with_tasks", {"policy": pol, "reward": kind}, sorted(by_epoch) == [step * k for k in range(n_steps + 1)],
             signature="C07/scenario/epochs", observed=sorted(by_epoch), expected=[step * k for k in range(n_steps + 1)], item=item)
    for sec, rws in sorted(by_epoch.items()):
        case = {"policy": pol, "reward": kind, "second": sec}
        vis = np.zeros((t, s), dtype=bool)
        dec = np.zeros((t, s), dtype=bool)
        rew = np.full((t, s), np.nan)
        pairs = set()
        for r in rws:
            i, j = tids.index(r.target_id), sids.index(r.sensor_id)
            pairs.add((i, j))
            vis[i, j], dec[i, j] = bool(r.visibility), bool(r.decision)
            rew[i, j] = float("nan") if r.reward is None else float(r.reward)  # sqlite stores NaN as NULL
        complete = len(rws) == t * s and len(pairs) == t * s and bool(np.isfinite(rew).all())
        res.case("scenario/task_rows_complete", case, complete, signature="C07/scenario/task_rows", observed=len(rws),
                 expected=t * s, item=item)
        if not complete:
            continue
        masked = bool((rew[~vis] == 0.0).all())
        res.case("scenario/reward_masked_by_visibility", case, masked, signature="C07/scenario/reward_of_invisible_pair_nonzero",
                 observed=rew.tolist(), expected=vis.tolist(), item=item)
        feas = not (dec & ~vis).any()
        r1, v1, d1 = rew[None], vis[None], dec[None]
        if pol == "munkres":
            _opt, dcodes, near = orc.assignment_oracle(r1, v1, tol=TOL)
            good = feas and dec.sum(axis=0).max() <= 1 and dec.sum(axis=1).max() <= 1 and bool((near & (dcodes == orc.pack(d1)[:, None])).any())
        elif pol == "greedy":
            okg, _u, _ = orc.greedy_oracle(r1, v1, d1)
            good = feas and bool(okg[0])
        elif pol == "allvisible":
            good = bool((dec == vis).all())
        else:
            good = feas and bool((dec.sum(axis=0) == vis.any(axis=0)).all())
        mixed = 0 < int(vis.sum()) < t * s
        res.case(f"scenario/decision_column/{pol}", dict(case, visible=vis.tolist(), reward_matrix=rew.tolist()), bool(good),
                 nontrivial=mixed, signature=f"C07/scenario/{pol}/decision_column", observed=dec.tolist(),
                 expected="policy reference on the stored reward / visibility columns",
                 outcome=f"visible={int(vis.sum())},tasked={int(dec.sum())},negative_rewards={int((rew < 0).sum() > 0)}", item=item)
        if pol != "random":  # later steps of a random-policy run depend on the draws; reproducibility is checked in _run_maskonly
            res.observe(vis, dec, np.round(rew, 9))


# ------------------------------------------------------------------------------------------------ dispatch
_RUNNERS = {
    "lat": _run_lat,
    "msk": _run_msk,
    "equiv": _run_equiv,
    "equivm": _run_equivm,
    "maskonly": _run_maskonly,
    "support": _run_support,
    "factory": _run_factory,
    "unmasked": _run_unmasked,
    "bigperm": _run_bigperm,
    "bigfam": _run_bigfam,
    "bigknown": _run_bigknown,
    "reward": _run_reward,
    "engine": _run_engine,
    "scenario": _run_scenario,
}


def run_item(item):
    res = fw.Result()
    try:
        _RUNNERS[item[0]](res, item)
    except Exception as exc:  # noqa: BLE001
        # every call into the library is individually guarded above; anything that still escapes (e.g. a value of an
        # impossible type read back from the tasks table) is reported as a violation of this item rather than
        # aborting the whole run and hiding the other violations behind a harness error
        import traceback  # noqa: PLC0415

        res.case(f"{item[0]}/unhandled_exception", {"item_kind": item[0]}, False,
                 signature=f"C07/{item[0]}/unhandled_exception", observed=traceback.format_exc()[-1500:], item=item)
    return res
