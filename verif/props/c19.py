"""C19 - imported ephemerides/observations are used faithfully; the importer database stays read-only.

History/fault explorer: a realtime source run writes a file database; from it the harness derives every importer
database of the announced family (exact agent set, supersets, subsets, and one database per (agent, epoch) with exactly
that record removed, each also combined with extra unrelated agents) and runs the real importer scenario against each.
The importer scenario's own agent set also changes during the run: every (agent, removal step, re-addition step) history
and every late joiner, against complete databases and databases with one record of that agent removed.
Scenario epochs on and off the whole second are run against databases that also hold records (ephemerides and observations)
at instants within a second of every epoch: only the record stored under exactly the epoch's timestamp may be used.
"""
from __future__ import annotations

import hashlib
import os
import pickle
import shutil
import sqlite3
import tempfile
from datetime import datetime, timedelta

import numpy as np

from verif import fakeray, scen
from verif import framework as fw

PROPERTY = "C19"
LEVEL = "model_checking"
RULE = (
    "source run (4 agents + 2 unrelated agents, estimation on, file DB) -> derived importer DBs: exact set, +1/+2 "
    "unrelated agents, subset (an agent absent at all epochs), and for EVERY (imported agent, epoch) of the horizon a DB "
    "with exactly that ephemeris row removed, each gap also with +1 and +2 unrelated agents; x mixes (targets imported, "
    "sensors imported, both); observation import with realtime observation off. Agent-set histories during an importer "
    "run (scenario_step events): EVERY (imported agent, removal step r, re-addition under the same id with another "
    "configured state at step a >= r or never) x DB (exact, +2 unrelated, that agent's row removed at EVERY epoch g), and "
    "late joiners (a target / a sensor absent at the start, added at EVERY step a) x DB (with its rows, +1 unrelated, "
    "without its rows, its row removed at every epoch g); full product for mix both, gap-free exact-DB re-additions and "
    "all joiners for the single-class mixes. Sub-second family: scenario start 0 / 0.5 / 0.001 / 0.999 s past the whole second "
    "x DB that also holds, next to EVERY epoch, (different) records of every agent and (different) copies of every "
    "observation at an instant +-1, +-0.5, +-0.25, +-0.001, +-0.0005 s away (one offset at a time and all "
    "together; own rows before / behind the foreign ones in table order) x (no gap, own records of a step missing for all "
    "agents, for one target, for one sensor - all offsets: at EVERY step); observation import on the same DBs. "
    "Oracle: eci_state == DB row of exactly that agent and timestamp after "
    "every step for every imported agent that is part of the scenario in that step; MissingEphemerisError in exactly the "
    "first step in which an imported agent that is part of the scenario has no row (a gap of an agent while it is out "
    "of the run does not stop it); stored observations of epoch t_k reach the "
    "estimate-update submission of their target at step k and no other; file hash and logical dump unchanged. "
    "non-trivial = DB agent set != scenario agent set, or a gap, or imported observations, or the run reached the step "
    "in which the scenario's agent set changed, or the DB holds foreign records within a second of the epochs; distinct "
    "by construction."
)
ASSUMPTIONS = [
    "importer databases are SQLite files produced by resonaate's own output of a realtime run (same start, same step)",
    "default job completion order",
]
EXPECT_MIN_NONTRIVIAL = 20
START = datetime(2021, 3, 30, 16, 0, 37)
DT = 60
TARGETS = (10001, 10002)
SENSORS = (20001, 20002)
EXTRAS = (10003, 10004)


def _agents(st):
    sub = [(9.0, 21.0, 20000.0, 90.0), (11.0, 25.0, 21000.0, 60.0), (14.0, 23.0, 20500.0, 80.0), (6.0, 16.0, 22000.0, 100.0)]
    tg = [scen.target_eci(10001 + j, *scen.overhead_orbit(st, *sub[j])) for j in range(4)]
    ss = [scen.ground_sensor(20001, 10.0, 20.0, fov={"fov_shape": "conic", "cone_angle": 20.0}),
          scen.space_sensor(20002, [0.0, 9000.0, 0.0], [-4.5, 0.0, 4.5], kind="optical")]
    return tg, ss


def _source_db(path, n, dt=DT, truth_only=None):
    """Realtime run with all six agents, estimation on (unless ``truth_only``), written to ``path``."""
    tg, ss = _agents(START)
    cfg = scen.config(START, n + 1, [scen.engine(1, tg, ss)], physics=dt, seed=3,
                      truth_only=dt != DT if truth_only is None else truth_only)
    sc = scen.build(cfg, db_path=path)
    for _ in range(n):
        sc.stepForward()
        sc.saveDatabaseOutput()
    sc.database.engine.dispose()


def _derive(src, dst, keep_agents, gap=None):
    """Copy ``src`` and keep only ephemeris/observation rows of ``keep_agents``; ``gap`` = (agent, step) row to remove."""
    shutil.copyfile(src, dst)
    con = sqlite3.connect(dst)
    ids = ",".join(str(a) for a in keep_agents)
    con.execute(f"DELETE FROM truth_ephemerides WHERE agent_id NOT IN ({ids})")
    con.execute("DELETE FROM estimate_ephemerides")
    con.execute("DELETE FROM tasks")
    con.execute("DELETE FROM events")
    if gap is not None:
        _remove_gap(con, gap, len(keep_agents))
    con.commit()
    con.close()


def _remove_gap(con, gap, n_agents):
    """Remove the record of (agent, step) - or of every agent at that step - at exactly the epoch of that step."""
    agent, step = gap
    iso = (START + timedelta(seconds=step * DT)).isoformat(timespec="microseconds")
    cur = con.execute("SELECT julian_date FROM epochs WHERE timestampISO = ?", (iso,))
    jd = cur.fetchone()[0]
    if agent == "all":
        # the whole epoch is missing: no ephemeris row of ANY agent (related or not) at that epoch
        n = con.execute("DELETE FROM truth_ephemerides WHERE julian_date = ?", (jd,)).rowcount
        assert n == n_agents, (agent, step, n)
    else:
        n = con.execute("DELETE FROM truth_ephemerides WHERE agent_id = ? AND julian_date = ?", (agent, jd)).rowcount
        assert n == 1, (agent, step, n)


def _db_rows(path):
    con = sqlite3.connect(path)
    rows = {}
    for r in con.execute(
        "SELECT t.agent_id, e.timestampISO, t.pos_x_km, t.pos_y_km, t.pos_z_km, t.vel_x_km_p_sec, t.vel_y_km_p_sec, t.vel_z_km_p_sec "
        "FROM truth_ephemerides t JOIN epochs e ON e.julian_date = t.julian_date"
    ):
        rows[(int(r[0]), r[1])] = np.array(r[2:], dtype=float)
    obs = {}
    for r in con.execute(
        "SELECT e.timestampISO, o.target_id, o.sensor_id, o.julian_date, o.azimuth_rad, o.elevation_rad, o.range_km, o.range_rate_km_p_sec "
        "FROM observations o JOIN epochs e ON e.julian_date = o.julian_date"
    ):
        obs.setdefault((r[0], int(r[1])), []).append((int(r[2]), float(r[3]), r[4], r[5], r[6], r[7]))
    con.close()
    return rows, obs


def _logical_dump(path):
    con = sqlite3.connect(path)
    out = []
    for (name,) in con.execute("SELECT name FROM sqlite_master WHERE type='table' ORDER BY name").fetchall():
        out.append((name, con.execute(f'SELECT * FROM "{name}" ORDER BY 1').fetchall()))
    con.close()
    return hashlib.sha256(repr(out).encode()).hexdigest()


def _sha(path):
    with open(path, "rb") as fh:
        return hashlib.sha256(fh.read()).hexdigest()


SWAP_STEP = 2
SWAP_SCALE = 9.0


def _swap_events():
    """Sensor 20001 is removed and re-added under the SAME id with another noise covariance at step SWAP_STEP."""
    when = scen.iso(START + timedelta(seconds=SWAP_STEP * DT))
    _, ss = _agents(START)
    new = [x for x in ss if x["id"] == 20001][0]
    new["sensor"]["covariance"] = [[v * SWAP_SCALE for v in row] for row in new["sensor"]["covariance"]]
    return [
        {"scope": "scenario_step", "scope_instance_id": 0, "start_time": when, "event_type": "agent_removal",
         "tasking_engine_id": 1, "agent_id": 20001, "agent_type": "sensor"},
        {"scope": "scenario_step", "scope_instance_id": 0, "start_time": when, "event_type": "sensor_addition",
         "tasking_engine_id": 1, "sensor_agent": new},
    ]


def _importer_config(n, mix, realtime_obs=True, truth_only=True, events=None, dt=DT):
    tg, ss = _agents(START)
    tg = [t for t in tg if t["id"] in TARGETS]
    cfg = scen.config(START, n + 1, [scen.engine(1, tg, ss)], physics=dt, seed=3, truth_only=truth_only, events=events,
                      propagation={"target_realtime_propagation": mix not in ("targets", "both"),
                                   "sensor_realtime_propagation": mix not in ("sensors", "both")},
                      observation={"background": True, "realtime_observation": realtime_obs})
    return cfg


def _variants(n):
    """(name, keep agents, gap)."""
    base = list(TARGETS + SENSORS)
    out = [("exact", base, None), ("plus1", base + [EXTRAS[0]], None), ("plus2", base + list(EXTRAS), None)]
    for a in base:
        out.append((f"subset_without_{a}", [x for x in base if x != a], None))
        out.append((f"subset_without_{a}_plus1", [x for x in base if x != a] + [EXTRAS[0]], None))
    for a in base:
        for k in range(1, n + 1):
            out.append((f"gap_{a}_{k}", base, (a, k)))
            out.append((f"gap_{a}_{k}_plus1", base + [EXTRAS[0]], (a, k)))
            out.append((f"gap_{a}_{k}_plus2", base + list(EXTRAS), (a, k)))
    for k in range(1, n + 1):
        out.append((f"gap_all_{k}", base, ("all", k)))
        out.append((f"gap_all_{k}_plus1", base + [EXTRAS[0]], ("all", k)))
    return out


def items(tier, seed):
    n = 4 if tier == "quick" else 6
    names = [v[0] for v in _variants(n)]
    out = []
    for mix in ("targets", "sensors", "both"):
        for chunk in fw.chunked(names, 8):
            out.append(("ephem", mix, n, chunk))
    # spans of a day and more (12 h steps): the days part of the elapsed time matters when a record is taken over
    for mix in ("targets", "sensors", "both"):
        out.append(("ephem", mix, 3, ["exact", "plus1"], 43200))
    # the agent set of the importer scenario changes during the run (removal, re-addition under the same id, late joiners)
    for mix in ("both", "targets", "sensors"):
        for chunk in fw.chunked([list(h) for h in _life_histories(n, mix)], 24):
            out.append(("life", mix, n, chunk))
    # scenario epochs on and off the whole second; the database also holds records at instants next to every epoch
    for us in FRACTIONS_US:
        for mix in ("both", "targets", "sensors"):
            for chunk in fw.chunked([list(v) for v in _subsec_variants(n, mix)], 20):
                out.append(("subsec", "ephem", mix, n, us, chunk))
        for order in ("decoys_last", "decoys_first"):
            out.append(("subsec", "obs", "none", n, us, [[list(OFFSETS_S), order, None]]))
    for order in ("decoys_last", "decoys_first"):
        out.append(("subsec", "obs", "targets", n, 500000, [[list(OFFSETS_S), order, None]]))
    for v in ("exact", "plus1"):
        out.append(("obs", "none", n, [v]))
        out.append(("obs", "targets", n, [v]))
    # stored observations must also reach the filter when realtime observation is ON (they join the step's own)
    out.append(("obs_rt", "none", n, ["exact"]))
    out.append(("obs_rt", "targets", n, ["plus1"]))
    # a sensor id re-used by another sensor during the run: stored observations carry the CURRENT sensor's noise model
    out.append(("obs_swap", "none", n, ["exact"]))
    out.append(("obs_swap", "targets", n, ["plus1"]))
    return out


def bounds(tier, seed):
    n = 4 if tier == "quick" else 6
    life = {mix: _life_histories(n, mix) for mix in ("both", "targets", "sensors")}
    return {"steps": n, "db_variants": len(_variants(n)), "mixes": ["targets", "sensors", "both"],
            "imported_agents": list(TARGETS + SENSORS), "unrelated_agents": list(EXTRAS),
            "sub_second": {"start_fraction_us": list(FRACTIONS_US), "foreign_record_offsets_s": list(OFFSETS_S),
                           "table_orders": ["decoys_last", "decoys_first"],
                           "ephemeris_runs": {mix: len(FRACTIONS_US) * len(_subsec_variants(n, mix)) for mix in ("both", "targets", "sensors")},
                           "observation_runs": 2 * len(FRACTIONS_US) + 2},
            "agent_set_histories": {
                "readd": "imported agent removed at step r in 1..steps, added again under the same id (other configured "
                         "state) at step a in r..steps or never; db exact / +2 unrelated / its record removed at each epoch g",
                "join": f"target {JOIN_TARGET} / sensor {JOIN_SENSOR} not in the scenario at its start, added at step a in "
                        "1..steps; db with its records (and +1 unrelated), without any, with its record removed at each epoch g",
                "runs_per_mix": {mix: len(v) for mix, v in life.items()},
                "readd_runs": sum(1 for v in life.values() for h in v if h[0] == "readd"),
                "join_runs": sum(1 for v in life.values() for h in v if h[0] == "join"),
            }}


def _imported_ids(mix):
    ids = []
    if mix in ("targets", "both"):
        ids += list(TARGETS)
    if mix in ("sensors", "both"):
        ids += list(SENSORS)
    return ids


def _step_findings(agents, ids, rows, k, dt, clock_time, clock_jd):
    """First (state, epoch, Earth-fixed view) finding among the imported agents ``ids`` after step ``k``."""
    from resonaate.physics.transforms.methods import ecef2lla, eci2ecef  # noqa: PLC0415

    bad_state, bad_epoch, bad_views = None, None, None
    iso = (START + timedelta(seconds=k * dt)).isoformat(timespec="microseconds")
    for a in ids:
        want = rows.get((a, iso))
        got = np.asarray(agents[a].eci_state, dtype=float)
        if want is None or not np.array_equal(got, want):
            bad_state = bad_state or (k, a, got.tolist(), None if want is None else want.tolist())
        # ... and its Earth-fixed views are those of that state AT that epoch
        want_ecef = np.asarray(eci2ecef(got, START + timedelta(seconds=k * dt)), dtype=float)
        got_ecef = np.asarray(agents[a].ecef_state, dtype=float)
        got_lla = np.asarray(agents[a].lla_state, dtype=float)
        want_lla = np.asarray(ecef2lla(want_ecef), dtype=float)
        # tolerance: the agent's epoch is recovered from a Julian date (resolution ~4e-5 s); Earth rotation moves
        # the Earth-fixed position by omega * |r| * dt -> allow 1e-4 s of epoch noise (a step is 60 s or more)
        tol_km = 7.2921159e-5 * float(np.linalg.norm(got[:3])) * 1e-4
        if np.abs(got_ecef[:3] - want_ecef[:3]).max() > tol_km or np.abs(got_lla[:2] - want_lla[:2]).max() > 7.2921159e-5 * 1e-4:
            bad_views = bad_views or (k, a, {"ecef_position_error_km": float(np.abs(got_ecef[:3] - want_ecef[:3]).max()),
                                              "lat_lon_error_rad": float(np.abs(got_lla[:2] - want_lla[:2]).max())})
        # the agent that took the record over is AT the epoch of that record (what its output row is filed under)
        t_a, jd_a = float(agents[a].time), float(agents[a].julian_date_epoch)
        if abs(t_a - k * dt) > 1e-3 or abs(jd_a - clock_jd) > 2e-9:
            bad_epoch = bad_epoch or (k, a, {"agent_time": t_a, "clock_time": clock_time, "agent_jd": jd_a, "clock_jd": clock_jd})
    return bad_state, bad_epoch, bad_views


def _run_ephem(res, item, tmp):
    _, mix, n, names = item[:4]
    dt = item[4] if len(item) > 4 else DT
    src = os.path.join(tmp, "source.sqlite3")
    _source_db(src, n, dt)
    variants = {v[0]: v for v in _variants(n)}
    imported = _imported_ids(mix)
    for name in names:
        _, keep, gap = variants[name]
        # ONE path for every variant of this item: the file is deleted and re-created between consecutive runs of the
        # same process, as a user regenerating an importer file between studies does
        path = os.path.join(tmp, "importer.sqlite3")
        _derive(src, path, keep, gap)
        rows, _ = _db_rows(path)
        sha0, dump0 = _sha(path), _logical_dump(path)
        cfg = _importer_config(n, mix, dt=dt)
        case = {"mix": mix, "db": name, "steps": n, "step_s": dt, "extras": len([a for a in keep if a in EXTRAS])}
        # expected first failing step: an imported agent without a record at that epoch
        expect_fail = None
        for k in range(1, n + 1):
            iso = (START + timedelta(seconds=k * dt)).isoformat(timespec="microseconds")
            if any((a, iso) not in rows for a in imported):
                expect_fail = k
                break
        sc = scen.build(cfg, importer_db_path=f"sqlite:///{path}")
        failed_at, err_type, bad_state, bad_epoch, bad_views = None, None, None, None, None
        for k in range(1, n + 1):
            try:
                sc.stepForward()
                sc.saveDatabaseOutput()
            except Exception as exc:  # noqa: BLE001
                failed_at, err_type = k, type(exc).__name__
                break
            agents = {**sc.target_agents, **sc.sensor_agents}
            st, ep, vw = _step_findings(agents, imported, rows, k, dt, float(sc.clock.time), float(sc.clock.julian_date_epoch))
            bad_state, bad_epoch, bad_views = bad_state or st, bad_epoch or ep, bad_views or vw
            res.observe(sorted((a, np.asarray(agents[a].eci_state).tobytes()) for a in agents))
        nontriv = gap is not None or set(keep) != set(TARGETS + SENSORS)
        ok_fail = (failed_at == expect_fail) and (failed_at is None or err_type == "MissingEphemerisError")
        if expect_fail is None:
            label = "ok" if ok_fail else "unexpected_error"
        elif failed_at is None:
            label = "gap_not_reported"
        elif failed_at != expect_fail:
            label = "gap_reported_in_wrong_step"
        else:
            label = "ok" if ok_fail else f"wrong_exception_{err_type}"
        res.case(
            "ephem/missing_record_stops_run",
            case,
            ok_fail,
            nontrivial=nontriv,
            signature=f"C19/ephem/{label}/extras={case['extras']}",
            observed={"failed_at_step": failed_at, "exception": err_type},
            expected={"failed_at_step": expect_fail, "exception": "MissingEphemerisError" if expect_fail else None},
            outcome=label,
            item=("ephem", mix, n, [name]),
        )
        res.case(
            "ephem/state_equals_record",
            case,
            bad_state is None,
            nontrivial=nontriv,
            signature="C19/ephem/state_differs_from_record" if not (bad_state and bad_state[3] is None) else "C19/ephem/continued_with_stale_state",
            observed=bad_state,
            expected="agent.eci_state == importer row for that agent and epoch",
            item=("ephem", mix, n, [name]),
        )
        res.case(
            "ephem/agent_epoch_equals_record_epoch",
            case,
            bad_epoch is None,
            nontrivial=nontriv or dt != DT,
            signature="C19/ephem/agent_epoch_differs",
            observed=bad_epoch,
            expected="imported agent's time / Julian date == the step's epoch",
            item=item if dt != DT else ("ephem", mix, n, [name]),
        )
        res.case(
            "ephem/earth_fixed_views_at_record_epoch",
            case,
            bad_views is None,
            nontrivial=True,
            signature="C19/ephem/earth_fixed_views_stale",
            observed=bad_views,
            expected="ecef_state / lla_state == conversion of the imported state at the record's epoch",
            item=item if dt != DT else ("ephem", mix, n, [name]),
        )
        # ... and its truth rows in the OUTPUT database sit at the epochs of the run, one per step
        if failed_at is None:
            from sqlalchemy import text  # noqa: PLC0415

            with sc.database.engine.connect() as conn:
                out_rows = conn.execute(text("SELECT agent_id, julian_date FROM truth_ephemerides")).fetchall()
            want_jd = [float(scen_jd) for scen_jd in
                       (sc.clock.julian_date_start + (k * dt) / 86400.0 for k in range(0, n + 1))]
            bad_rows = []
            for a in imported:
                got_jd = sorted(float(r[1]) for r in out_rows if int(r[0]) == a)
                if len(got_jd) != len(want_jd) or any(abs(x - y) > 2e-9 for x, y in zip(got_jd, want_jd)):
                    bad_rows.append((a, got_jd[:4], want_jd[:4]))
            res.case("ephem/output_rows_at_run_epochs", case, not bad_rows, nontrivial=nontriv or dt != DT,
                     signature="C19/ephem/output_rows_misfiled", observed=bad_rows[:1], item=item if dt != DT else ("ephem", mix, n, [name]))
        # (the importer connections of this run are deliberately NOT disposed: the next variant re-creates the file at
        #  the same path, and a library that kept a handle on the old file would go on reading the old records)
        res.case("ephem/importer_unchanged", case, _sha(path) == sha0 and _logical_dump(path) == dump0,
                 signature="C19/importer_db_modified", observed={"sha_same": _sha(path) == sha0}, item=("ephem", mix, n, [name]))
        # the write API of the importer interface refuses
        res.states += (failed_at or n) + 1
        res.transitions += failed_at or n
        res.traces += 1
        os.unlink(path)


def _drive(res, group, sig, case, cfg, path, rows, members, n, one, *, want_set=None, nontrivial=None, outcome_prefix=""):
    """Run the importer scenario ``cfg`` against the file ``path`` for ``n`` steps and record the ephemeris clauses.

    ``members(k)`` = ids of the imported agents that are part of the scenario while step k is taken; ``rows`` = the
    (agent, timestamp) -> state table read back from the file; ``want_set(k)`` = expected agent ids after step k.
    """
    sha0, dump0 = _sha(path), _logical_dump(path)
    # expected first failing step: an imported agent that is part of the scenario in that step has no record there
    expect_fail = None
    for k in range(1, n + 1):
        iso = (START + timedelta(seconds=k * DT)).isoformat(timespec="microseconds")
        if any((y, iso) not in rows for y in members(k)):
            expect_fail = k
            break
    sc = scen.build(cfg, importer_db_path=f"sqlite:///{path}")
    failed_at, err_type, bad_state, bad_epoch, bad_views, bad_set = None, None, None, None, None, None
    for k in range(1, n + 1):
        try:
            sc.stepForward()
            sc.saveDatabaseOutput()
        except Exception as exc:  # noqa: BLE001
            failed_at, err_type = k, type(exc).__name__
            break
        agents = {**sc.target_agents, **sc.sensor_agents}
        if want_set is not None and sorted(agents) != want_set(k):
            bad_set = bad_set or (k, sorted(agents), want_set(k))
            break
        st, ep, vw = _step_findings(agents, members(k), rows, k, DT, float(sc.clock.time), float(sc.clock.julian_date_epoch))
        bad_state, bad_epoch, bad_views = bad_state or st, bad_epoch or ep, bad_views or vw
        res.observe(sorted((y, np.asarray(agents[y].eci_state).tobytes()) for y in agents))
    nontriv = True if nontrivial is None else bool(nontrivial(failed_at))
    ok_fail = (failed_at == expect_fail) and (failed_at is None or err_type == "MissingEphemerisError")
    if expect_fail is None:
        label = "ok" if ok_fail else "unexpected_error"
    elif failed_at is None:
        label = "gap_not_reported"
    elif failed_at != expect_fail:
        label = "gap_reported_in_wrong_step"
    else:
        label = "ok" if ok_fail else f"wrong_exception_{err_type}"
    if want_set is not None:
        res.case(f"{group}/agent_set_follows_events", case, bad_set is None, nontrivial=nontriv,
                 signature=f"{sig}/agent_set_differs", observed=bad_set, item=one)
    res.case(
        f"{group}/missing_record_stops_run",
        case,
        ok_fail,
        nontrivial=nontriv,
        signature=f"{sig}/{label}",
        observed={"failed_at_step": failed_at, "exception": err_type},
        expected={"failed_at_step": expect_fail, "exception": "MissingEphemerisError" if expect_fail else None},
        outcome=f"{outcome_prefix}{label}/{'stops' if expect_fail else 'runs'}",
        item=one,
    )
    res.case(
        f"{group}/state_equals_record",
        case,
        bad_state is None,
        nontrivial=nontriv,
        signature=f"{sig}/state_differs_from_record" if not (bad_state and bad_state[3] is None) else f"{sig}/continued_with_stale_state",
        observed=bad_state,
        expected="eci_state of every imported agent that is part of the scenario == importer row for that agent and epoch",
        item=one,
    )
    res.case(f"{group}/agent_epoch_equals_record_epoch", case, bad_epoch is None, nontrivial=nontriv,
             signature=f"{sig}/agent_epoch_differs", observed=bad_epoch, item=one)
    res.case(f"{group}/earth_fixed_views_at_record_epoch", case, bad_views is None, nontrivial=nontriv,
             signature=f"{sig}/earth_fixed_views_stale", observed=bad_views, item=one)
    # (the importer connections of this run are deliberately NOT disposed, see _run_ephem)
    res.case(f"{group}/importer_unchanged", case, _sha(path) == sha0 and _logical_dump(path) == dump0,
             signature="C19/importer_db_modified", observed={"sha_same": _sha(path) == sha0}, item=one)
    res.states += (failed_at or n) + 1
    res.transitions += failed_at or n
    res.traces += 1


# ----------------------------------------------------------------------------- agent set changes during an importer run
JOIN_TARGET = EXTRAS[0]   # has ephemeris rows in the source database, is NOT part of the importer scenario at its start
JOIN_SENSOR = SENSORS[1]  # "join" histories of this sensor start the scenario without it


def _other_config(agent):
    """Config of ``agent`` for an addition event: deliberately NOT the state its database records describe."""
    if agent in SENSORS:
        if agent == 20001:
            return scen.ground_sensor(20001, 12.5, 23.0, fov={"fov_shape": "conic", "cone_angle": 20.0})
        return scen.space_sensor(20002, [0.0, 9600.0, 300.0], [-4.3, 0.0, 4.6], kind="optical")
    return scen.target_eci(agent, *scen.overhead_orbit(START, 13.0, 27.0, 23500.0, 70.0))


def _life_histories(n, mix):
    """Every history (kind, agent, removed_at, added_at, gap_step, db) of the announced family for ``mix``.

    (mix "both": everything below; mixes "targets" / "sensors", where the other class is propagated: the readd histories
    on the exact db without gap, and all join histories.)

    readd: imported agent of the scenario removed at step r (agent_removal event at the epoch of step r), added again under
           the SAME id at step a >= r (a == r: both events in one step) or never; db exact / plus2 without gap, and for
           EVERY epoch g a db with exactly that agent's record at g removed.
    join:  an agent that is not in the scenario at its start is added at step a; db with its records (with and without
           one more unrelated agent), db without any record of it, and for every epoch g its record at g removed.
    """
    out = []
    for x in _imported_ids(mix):
        for r in range(1, n + 1):
            for a in [*range(r, n + 1), None]:
                out.append(("readd", x, r, a, None, "exact"))
                if mix != "both":
                    continue
                out.append(("readd", x, r, a, None, "plus2"))
                for g in range(1, n + 1):
                    out.append(("readd", x, r, a, g, "exact"))
    joins = ([JOIN_TARGET] if mix in ("targets", "both") else []) + ([JOIN_SENSOR] if mix in ("sensors", "both") else [])
    for x in joins:
        has, has_more, lacks = ("plus1", "plus2", "exact") if x == JOIN_TARGET else ("exact", "plus1", "without")
        for a in range(1, n + 1):
            out.append(("join", x, None, a, None, has))
            out.append(("join", x, None, a, None, has_more))
            out.append(("join", x, None, a, None, lacks))
            for g in range(1, n + 1):
                out.append(("join", x, None, a, g, has))
    return out


def _life_present(hist, k):
    """Is the history's agent part of the scenario while step ``k`` is taken (events of epoch t_k act before the import)."""
    _kind, _x, r, a, _g, _db = hist
    return (r is not None and k < r) or (a is not None and k >= a)


def _life_events(hist):
    kind, x, r, a, _g, _db = hist
    base = {"scope": "scenario_step", "scope_instance_id": 0, "tasking_engine_id": 1}
    ev = []
    if r is not None:
        ev.append({**base, "start_time": scen.iso(START + timedelta(seconds=r * DT)), "event_type": "agent_removal",
                   "agent_id": x, "agent_type": "sensor" if x in SENSORS else "target"})
    if a is not None:
        when = scen.iso(START + timedelta(seconds=a * DT))
        if x in SENSORS:
            ev.append({**base, "start_time": when, "event_type": "sensor_addition", "sensor_agent": _other_config(x)})
        else:
            ev.append({**base, "start_time": when, "event_type": "target_addition", "target_agent": _other_config(x)})
    return ev


def _run_life(res, item, tmp):
    _, mix, n, hists = item
    src = os.path.join(tmp, "source.sqlite3")
    _source_db(src, n, truth_only=True)  # only the ephemeris records matter here
    base = list(TARGETS + SENSORS)
    for hist in hists:
        hist = tuple(hist)
        kind, x, r, a, g, dbname = hist
        keep = {"exact": base, "plus1": base + [EXTRAS[0]], "plus2": base + list(EXTRAS), "without": [y for y in base if y != x]}[dbname]
        path = os.path.join(tmp, "importer.sqlite3")
        _derive(src, path, keep, None if g is None else (x, g))
        rows, _ = _db_rows(path)
        cfg = _importer_config(n, mix, events=_life_events(hist))
        if kind == "join" and x in SENSORS:
            cfg["engines"][0]["sensors"] = [y for y in cfg["engines"][0]["sensors"] if y["id"] != x]
        imported = _imported_ids(mix) + ([x] if kind == "join" and x not in SENSORS and mix in ("targets", "both") else [])
        imported = sorted(set(imported))
        case = {"mix": mix, "history": kind, "agent": x, "removed_at_step": r, "added_at_step": a, "gap_step": g, "db": dbname,
                "steps": n}

        def members(k, hist=hist, x=x, imported=imported):
            return [y for y in imported if y != x or _life_present(hist, k)]

        one = ("life", mix, n, [list(hist)])
        _drive(res, "life", f"C19/life/{kind}", case, cfg, path, rows, members, n, one,
               want_set=lambda k, hist=hist, x=x: sorted(y for y in {*TARGETS, *SENSORS, x} if y != x or _life_present(hist, k)),
               # non-trivial: the run reached the step in which the scenario's agent set changed
               nontrivial=lambda failed_at, r=r, a=a: failed_at is None or failed_at >= min(v for v in (r, a) if v is not None),
               outcome_prefix=f"{kind}/")
        os.unlink(path)


# ----------------------------------------------------- scenario epochs off the whole second; records at neighbouring instants
START0 = START
FRACTIONS_US = (0, 500000, 1000, 999000)  # sub-second part of the scenario start (scenario timestamps carry milliseconds)
# Offsets (s) of the foreign records from every epoch of the run. Together with the start fractions they put a record in
# the same second before / after the epoch, on the whole second of the epoch, on the next whole second, in the same and in
# the neighbouring millisecond, and one second away. Smallest offset 0.5 ms (12 ulp of the Julian date column, a double
# with ~4e-5 s resolution): the column must still tell the records of two epochs apart, or the database itself would be
# ambiguous (asserted when the records are written).
OFFSETS_S = (-1.0, -0.5, -0.25, -0.001, -0.0005, 0.0005, 0.001, 0.25, 0.5, 1.0)
DECOY_SHIFT = (7.0, -5.0, 3.0, 0.01, -0.02, 0.03)  # a foreign record differs from the epoch's own by (j + 1) x this


class _StartAt:
    """The whole harness (source run, importer run, expected timestamps) starts ``us`` microseconds after START0."""

    def __init__(self, us):
        self.us = int(us)

    def __enter__(self):
        global START  # noqa: PLW0603
        START = START0 + timedelta(microseconds=self.us)

    def __exit__(self, *exc):
        global START  # noqa: PLW0603
        START = START0


def _add_decoys(path, offsets, order):
    """For every epoch of the file add, per offset, an epoch ``offset`` seconds away holding a (different) record of every
    agent and a (different) copy of every observation. ``order`` = "decoys_first": the epoch's own rows are moved behind
    the foreign ones in table order (a reader that takes the first / the last match meets a foreign row either way)."""
    con = sqlite3.connect(path)
    true = con.execute('SELECT "timestampISO", julian_date FROM epochs ORDER BY julian_date').fetchall()
    seen = {jd for _, jd in true}
    obs_cols = [r[1] for r in con.execute("PRAGMA table_info(observations)") if r[1] != "id"]
    for j, off in enumerate(offsets):
        f = float(j + 1)
        for iso, jd in true:
            iso2 = (datetime.fromisoformat(iso) + timedelta(seconds=off)).isoformat(timespec="microseconds")
            jd2 = jd + off / 86400.0
            assert jd2 not in seen and iso2 != iso, (iso, off)
            seen.add(jd2)
            con.execute('INSERT INTO epochs ("timestampISO", julian_date) VALUES (?, ?)', (iso2, jd2))
            con.execute(
                "INSERT INTO truth_ephemerides (julian_date, agent_id, pos_x_km, pos_y_km, pos_z_km, vel_x_km_p_sec, "
                "vel_y_km_p_sec, vel_z_km_p_sec) SELECT ?, agent_id, pos_x_km + ?, pos_y_km + ?, pos_z_km + ?, "
                "vel_x_km_p_sec + ?, vel_y_km_p_sec + ?, vel_z_km_p_sec + ? FROM truth_ephemerides WHERE julian_date = ? ORDER BY id",
                (jd2, *[f * v for v in DECOY_SHIFT], jd),
            )
            # the copy of an observation: other angles, and another sensor position (the loader drops observations of one
            # target made from one position as duplicates - a foreign one must not hide behind that)
            sel = ", ".join({"julian_date": "?", "azimuth_rad": "azimuth_rad + ?", "pos_x_km": "pos_x_km + ?"}.get(c, c) for c in obs_cols)
            order_args = {"julian_date": jd2, "azimuth_rad": 1e-3 * f, "pos_x_km": f}
            args = [order_args[c] for c in obs_cols if c in order_args]
            con.execute(f"INSERT INTO observations ({', '.join(obs_cols)}) SELECT {sel} FROM observations WHERE julian_date = ? ORDER BY id",
                        (*args, jd))
    if order == "decoys_first":
        jds = ",".join(repr(jd) for _, jd in true)
        for table in ("epochs", "truth_ephemerides", "observations"):
            n_moved = con.execute(f"UPDATE {table} SET id = id + 1000000 WHERE julian_date IN ({jds})").rowcount
            assert n_moved > 0 or table == "observations", table
    con.commit()
    con.close()


def _subsec_variants(n, mix):
    """(offsets, order, gap): one foreign instant at a time and all of them together; both table orders; without gap, with
    the epoch's own records of step g missing for all agents (only foreign ones are left around it), and - all instants
    together - with the own record of one target / one sensor missing, at EVERY step g."""
    out = []
    for order in ("decoys_last", "decoys_first"):
        if mix == "both":
            for off in OFFSETS_S:
                out.append(([off], order, None))
                out.append(([off], order, ["all", 2]))
        out.append((list(OFFSETS_S), order, None))
        for g in range(1, n + 1) if mix == "both" else (2,):
            out.append((list(OFFSETS_S), order, ["all", g]))
            if mix == "both":
                out.append((list(OFFSETS_S), order, [TARGETS[1], g]))
                out.append((list(OFFSETS_S), order, [SENSORS[0], g]))
    return out


def _run_subsec_ephem(res, item, tmp):
    _, _, mix, n, us, variants = item
    src = os.path.join(tmp, "source.sqlite3")
    _source_db(src, n, truth_only=True)
    base = list(TARGETS + SENSORS)
    imported = _imported_ids(mix)
    for offsets, order, gap in variants:
        path = os.path.join(tmp, "importer.sqlite3")
        # the foreign records are copies of the complete set; only then are the epoch's OWN records of the gap removed
        _derive(src, path, base, None)
        _add_decoys(path, offsets, order)
        if gap is not None:
            con = sqlite3.connect(path)
            _remove_gap(con, (gap[0], gap[1]), len(base))
            con.commit()
            con.close()
        rows, _ = _db_rows(path)
        case = {"mix": mix, "steps": n, "start_fraction_us": us, "foreign_record_offsets_s": list(offsets), "table_order": order,
                "gap": gap}
        one = ("subsec", "ephem", mix, n, us, [[list(offsets), order, gap]])
        _drive(res, "subsec", "C19/subsec/ephem", case, _importer_config(n, mix), path, rows, lambda k: imported, n, one,
               outcome_prefix="gap/" if gap else "")
        os.unlink(path)


def _run_obs(res, item, tmp, decoys=None):
    """``decoys`` = (start fraction us, offsets, table order) for the items of the sub-second family (kind "obs")."""
    kind, mix, n, names = item if decoys is None else ("obs", item[2], item[3], ["exact"])
    src = os.path.join(tmp, "source.sqlite3")
    _source_db(src, n)
    variants = {v[0]: v for v in _variants(n)}
    for name in names:
        _, keep, gap = variants[name]
        path = os.path.join(tmp, "importer.sqlite3")
        _derive(src, path, keep, gap)
        if decoys is not None:
            _add_decoys(path, decoys[1], decoys[2])
        if kind == "obs_rt":
            # tag the stored observations so they are distinguishable from the identical ones the run makes itself
            con = sqlite3.connect(path)
            con.execute("UPDATE observations SET elevation_rad = elevation_rad + 1e-4")
            con.commit()
            con.close()
        _, obs = _db_rows(path)
        n_obs_total = sum(len(v) for v in obs.values())
        sha0, dump0 = _sha(path), _logical_dump(path)
        realtime = kind == "obs_rt"
        swap = kind == "obs_swap"
        cfg = _importer_config(n, mix, realtime_obs=realtime, truth_only=False, events=_swap_events() if swap else None)
        case = {"mix": mix, "db": name, "steps": n, "stored_observations": n_obs_total, "realtime_observation": realtime,
                "sensor_20001_swapped_at_step": SWAP_STEP if swap else None}
        tag = ""
        if decoys is not None:
            case.update(start_fraction_us=decoys[0], foreign_record_offsets_s=list(decoys[1]), table_order=decoys[2])
            tag = f"|{decoys[0]}|{decoys[2]}"
        configured_r = {x["id"]: np.array(x["sensor"]["covariance"], dtype=float) for x in _agents(START)[1]}
        sc = scen.build(cfg, importer_db_path=f"sqlite:///{path}")
        err = None
        for k in range(1, n + 1):
            fakeray.JOB_LOG = []
            try:
                sc.stepForward()
            except Exception as exc:  # noqa: BLE001
                err = f"step {k}: {type(exc).__name__}: {exc}"
                break
            iso = (START + timedelta(seconds=k * DT)).isoformat(timespec="microseconds")
            subs = {}
            for fname, arg_bytes in fakeray.JOB_LOG:
                if fname.endswith("asyncUpdateEstimate"):
                    (sub,), _kw = pickle.loads(arg_bytes)
                    est = fakeray.get(sub.estimate_agent)
                    # the noise model attached to each observation handed to the filter = the one configured for the
                    # sensor that holds this id NOW (after the swap: the re-added sensor's)
                    for o in sub.successful_obs:
                        want_r = configured_r[o.sensor_id] * (SWAP_SCALE if swap and o.sensor_id == 20001 and k >= SWAP_STEP else 1.0)
                        got_r = np.array(o.measurement.r_matrix, dtype=float)
                        ok_r = got_r.shape == want_r.shape and np.allclose(got_r, want_r, rtol=1e-12, atol=0.0)
                        res.case(
                            "obs/noise_model_of_current_sensor",
                            {**case, "step": k, "target": est.simulation_id, "sensor": o.sensor_id},
                            ok_r,
                            nontrivial=swap and o.sensor_id == 20001 and k >= SWAP_STEP,
                            key=f"{kind}|{mix}|{name}|{k}|{est.simulation_id}|{o.sensor_id}{tag}",
                            signature="C19/obs/noise_model/stale" if swap else "C19/obs/noise_model/wrong",
                            observed=np.diag(got_r).tolist(),
                            expected=np.diag(want_r).tolist(),
                            item=item,
                        )
                    subs[est.simulation_id] = sorted(
                        (o.sensor_id, float(o.julian_date), o.azimuth_rad, o.elevation_rad, o.range_km, o.range_rate_km_p_sec)
                        for o in sub.successful_obs
                    )
            for tid in TARGETS:
                want = sorted(obs.get((iso, tid), []))
                got = subs.get(tid, [])
                if realtime:
                    # the step's own observations are there too: every stored one must be among them, exactly once,
                    # and none stored for another epoch or target
                    stored_all = {o for v in obs.values() for o in v}
                    got = sorted(o for o in got if o in stored_all)
                res.case(
                    "obs/reach_filter_at_epoch",
                    {**case, "step": k, "target": tid, "n_stored": len(want)},
                    got == want,
                    nontrivial=len(want) > 0,
                    key=f"{mix}|{name}|{k}|{tid}{tag}",
                    signature=f"C19/{'subsec/' if decoys is not None else ''}obs/{'lost' if len(got) < len(want) else 'extra' if len(got) > len(want) else 'different'}",
                    observed=got[:3],
                    expected=want[:3],
                    outcome=f"n={len(want)}",
                    item=item,
                )
                # metadata needed by the filter was attached
            res.observe(sorted(subs.items()))
        fakeray.JOB_LOG = None
        res.case("obs/run", case, err is None, signature="C19/obs/run_error", observed=err, item=item)
        for eng in sc.tasking_engines.values():
            if eng._importer_db is not None:  # noqa: SLF001
                eng._importer_db.engine.dispose()  # noqa: SLF001
        if sc._ephem_importer is not None:  # noqa: SLF001
            sc._ephem_importer._importer_db.engine.dispose()  # noqa: SLF001
        res.case("obs/importer_unchanged", case, _sha(path) == sha0 and _logical_dump(path) == dump0,
                 signature="C19/importer_db_modified", item=item)
        res.states += n + 1
        res.transitions += n
        res.traces += 1
        os.unlink(path)


def _check_write_api(res, tmp):
    """The write methods of the importer interface raise and leave the file untouched."""
    from resonaate.data.agent import AgentModel  # noqa: PLC0415
    from resonaate.data.importer_database import ImporterDatabase  # noqa: PLC0415
    from sqlalchemy.orm import Query  # noqa: PLC0415

    src = os.path.join(tmp, "source.sqlite3")
    if not os.path.exists(src):
        _source_db(src, 2)
    path = os.path.join(tmp, "imp_api.sqlite3")
    _derive(src, path, list(TARGETS + SENSORS), None)
    sha0 = _logical_dump(path)
    db = ImporterDatabase(f"sqlite:///{path}")
    for name, call in (
        ("insertData", lambda: db.insertData(AgentModel(unique_id=999, name="x"))),
        ("bulkSave", lambda: db.bulkSave([AgentModel(unique_id=998, name="y")])),
        ("deleteData", lambda: db.deleteData(Query(AgentModel))),
    ):
        raised = None
        try:
            call()
        except Exception as exc:  # noqa: BLE001
            raised = type(exc).__name__
        res.case("api/write_refused", {"method": name}, raised == "NotImplementedError" and _logical_dump(path) == sha0,
                 signature=f"C19/api/{name}_not_refused", observed=raised, item=("api",))
    db.engine.dispose()


def run_item(item):
    res = fw.Result()
    tmp = tempfile.mkdtemp(prefix="verif_c19_")
    try:
        if item[0] == "ephem":
            _run_ephem(res, item, tmp)
        elif item[0] == "life":
            _run_life(res, item, tmp)
        elif item[0] == "subsec":
            with _StartAt(item[4]):
                if item[1] == "ephem":
                    _run_subsec_ephem(res, item, tmp)
                else:
                    for offsets, order, _gap in item[5]:
                        _run_obs(res, item, tmp, decoys=(item[4], offsets, order))
        elif item[0] in ("obs", "obs_rt", "obs_swap"):
            _run_obs(res, item, tmp)
            _check_write_api(res, tmp)
        elif item[0] == "api":
            _check_write_api(res, tmp)
    finally:
        shutil.rmtree(tmp, ignore_errors=True)
    return res
