"""C19 - imported ephemerides/observations are used faithfully; the importer database stays read-only.

History/fault explorer: a realtime source run writes a file database; from it the harness derives every importer
database of the announced family (exact agent set, supersets, subsets, and one database per (agent, epoch) with exactly
that record removed, each also combined with extra unrelated agents) and runs the real importer scenario against each.
"""
from __future__ import annotations

import hashlib
import os
import pickle
import shutil
import sqlite3
import tempfile
from datetime import datetime, timedelta

import numpy as np

from verif import fakeray, scen
from verif import framework as fw

PROPERTY = "C19"
LEVEL = "model_checking"
RULE = (
    "source run (4 agents + 2 unrelated agents, estimation on, file DB) -> derived importer DBs: exact set, +1/+2 "
    "unrelated agents, subset (an agent absent at all epochs), and for EVERY (imported agent, epoch) of the horizon a DB "
    "with exactly that ephemeris row removed, each gap also with +1 and +2 unrelated agents; x mixes (targets imported, "
    "sensors imported, both); observation import with realtime observation off. Oracle: eci_state == DB row after "
    "every step; MissingEphemerisError in exactly the step of the gap; stored observations of epoch t_k reach the "
    "estimate-update submission of their target at step k and no other; file hash and logical dump unchanged. "
    "non-trivial = DB agent set != scenario agent set, or a gap, or imported observations; distinct by construction."
)
ASSUMPTIONS = [
    "importer databases are SQLite files produced by resonaate's own output of a realtime run (same start, same step)",
    "default job completion order",
]
EXPECT_MIN_NONTRIVIAL = 20
START = datetime(2021, 3, 30, 16, 0, 37)
DT = 60
TARGETS = (10001, 10002)
SENSORS = (20001, 20002)
EXTRAS = (10003, 10004)


def _agents(st):
    sub = [(9.0, 21.0, 20000.0, 90.0), (11.0, 25.0, 21000.0, 60.0), (14.0, 23.0, 20500.0, 80.0), (6.0, 16.0, 22000.0, 100.0)]
    tg = [scen.target_eci(10001 + j, *scen.overhead_orbit(st, *sub[j])) for j in range(4)]
    ss = [scen.ground_sensor(20001, 10.0, 20.0, fov={"fov_shape": "conic", "cone_angle": 20.0}),
          scen.space_sensor(20002, [0.0, 9000.0, 0.0], [-4.5, 0.0, 4.5], kind="optical")]
    return tg, ss


def _source_db(path, n, dt=DT):
    """Realtime run with all six agents, estimation on, written to ``path``."""
    tg, ss = _agents(START)
    cfg = scen.config(START, n + 1, [scen.engine(1, tg, ss)], physics=dt, seed=3, truth_only=dt != DT)
    sc = scen.build(cfg, db_path=path)
    for _ in range(n):
        sc.stepForward()
        sc.saveDatabaseOutput()
    sc.database.engine.dispose()


def _derive(src, dst, keep_agents, gap=None):
    """Copy ``src`` and keep only ephemeris/observation rows of ``keep_agents``; ``gap`` = (agent, step) row to remove."""
    shutil.copyfile(src, dst)
    con = sqlite3.connect(dst)
    ids = ",".join(str(a) for a in keep_agents)
    con.execute(f"DELETE FROM truth_ephemerides WHERE agent_id NOT IN ({ids})")
    con.execute("DELETE FROM estimate_ephemerides")
    con.execute("DELETE FROM tasks")
    con.execute("DELETE FROM events")
    if gap is not None:
        agent, step = gap
        iso = (START + timedelta(seconds=step * DT)).isoformat(timespec="microseconds")
        cur = con.execute("SELECT julian_date FROM epochs WHERE timestampISO = ?", (iso,))
        jd = cur.fetchone()[0]
        if agent == "all":
            # the whole epoch is missing: no ephemeris row of ANY agent (related or not) at that epoch
            n = con.execute("DELETE FROM truth_ephemerides WHERE julian_date = ?", (jd,)).rowcount
            assert n == len(keep_agents), (agent, step, n)
        else:
            n = con.execute("DELETE FROM truth_ephemerides WHERE agent_id = ? AND julian_date = ?", (agent, jd)).rowcount
            assert n == 1, (agent, step, n)
    con.commit()
    con.close()


def _db_rows(path):
    con = sqlite3.connect(path)
    rows = {}
    for r in con.execute(
        "SELECT t.agent_id, e.timestampISO, t.pos_x_km, t.pos_y_km, t.pos_z_km, t.vel_x_km_p_sec, t.vel_y_km_p_sec, t.vel_z_km_p_sec "
        "FROM truth_ephemerides t JOIN epochs e ON e.julian_date = t.julian_date"
    ):
        rows[(int(r[0]), r[1])] = np.array(r[2:], dtype=float)
    obs = {}
    for r in con.execute(
        "SELECT e.timestampISO, o.target_id, o.sensor_id, o.julian_date, o.azimuth_rad, o.elevation_rad, o.range_km, o.range_rate_km_p_sec "
        "FROM observations o JOIN epochs e ON e.julian_date = o.julian_date"
    ):
        obs.setdefault((r[0], int(r[1])), []).append((int(r[2]), float(r[3]), r[4], r[5], r[6], r[7]))
    con.close()
    return rows, obs


def _logical_dump(path):
    con = sqlite3.connect(path)
    out = []
    for (name,) in con.execute("SELECT name FROM sqlite_master WHERE type='table' ORDER BY name").fetchall():
        out.append((name, con.execute(f'SELECT * FROM "{name}" ORDER BY 1').fetchall()))
    con.close()
    return hashlib.sha256(repr(out).encode()).hexdigest()


def _sha(path):
    with open(path, "rb") as fh:
        return hashlib.sha256(fh.read()).hexdigest()


SWAP_STEP = 2
SWAP_SCALE = 9.0


def _swap_events():
    """Sensor 20001 is removed and re-added under the SAME id with another noise covariance at step SWAP_STEP."""
    when = scen.iso(START + timedelta(seconds=SWAP_STEP * DT))
    _, ss = _agents(START)
    new = [x for x in ss if x["id"] == 20001][0]
    new["sensor"]["covariance"] = [[v * SWAP_SCALE for v in row] for row in new["sensor"]["covariance"]]
    return [
        {"scope": "scenario_step", "scope_instance_id": 0, "start_time": when, "event_type": "agent_removal",
         "tasking_engine_id": 1, "agent_id": 20001, "agent_type": "sensor"},
        {"scope": "scenario_step", "scope_instance_id": 0, "start_time": when, "event_type": "sensor_addition",
         "tasking_engine_id": 1, "sensor_agent": new},
    ]


def _importer_config(n, mix, realtime_obs=True, truth_only=True, events=None, dt=DT):
    tg, ss = _agents(START)
    tg = [t for t in tg if t["id"] in TARGETS]
    cfg = scen.config(START, n + 1, [scen.engine(1, tg, ss)], physics=dt, seed=3, truth_only=truth_only, events=events,
                      propagation={"target_realtime_propagation": mix not in ("targets", "both"),
                                   "sensor_realtime_propagation": mix not in ("sensors", "both")},
                      observation={"background": True, "realtime_observation": realtime_obs})
    return cfg


def _variants(n):
    """(name, keep agents, gap)."""
    base = list(TARGETS + SENSORS)
    out = [("exact", base, None), ("plus1", base + [EXTRAS[0]], None), ("plus2", base + list(EXTRAS), None)]
    for a in base:
        out.append((f"subset_without_{a}", [x for x in base if x != a], None))
        out.append((f"subset_without_{a}_plus1", [x for x in base if x != a] + [EXTRAS[0]], None))
    for a in base:
        for k in range(1, n + 1):
            out.append((f"gap_{a}_{k}", base, (a, k)))
            out.append((f"gap_{a}_{k}_plus1", base + [EXTRAS[0]], (a, k)))
            out.append((f"gap_{a}_{k}_plus2", base + list(EXTRAS), (a, k)))
    for k in range(1, n + 1):
        out.append((f"gap_all_{k}", base, ("all", k)))
        out.append((f"gap_all_{k}_plus1", base + [EXTRAS[0]], ("all", k)))
    return out


def items(tier, seed):
    n = 4 if tier == "quick" else 6
    names = [v[0] for v in _variants(n)]
    out = []
    for mix in ("targets", "sensors", "both"):
        for chunk in fw.chunked(names, 8):
            out.append(("ephem", mix, n, chunk))
    # spans of a day and more (12 h steps): the days part of the elapsed time matters when a record is taken over
    for mix in ("targets", "sensors", "both"):
        out.append(("ephem", mix, 3, ["exact", "plus1"], 43200))
    for v in ("exact", "plus1"):
        out.append(("obs", "none", n, [v]))
        out.append(("obs", "targets", n, [v]))
    # stored observations must also reach the filter when realtime observation is ON (they join the step's own)
    out.append(("obs_rt", "none", n, ["exact"]))
    out.append(("obs_rt", "targets", n, ["plus1"]))
    # a sensor id re-used by another sensor during the run: stored observations carry the CURRENT sensor's noise model
    out.append(("obs_swap", "none", n, ["exact"]))
    out.append(("obs_swap", "targets", n, ["plus1"]))
    return out


def bounds(tier, seed):
    n = 4 if tier == "quick" else 6
    return {"steps": n, "db_variants": len(_variants(n)), "mixes": ["targets", "sensors", "both"],
            "imported_agents": list(TARGETS + SENSORS), "unrelated_agents": list(EXTRAS)}


def _imported_ids(mix):
    ids = []
    if mix in ("targets", "both"):
        ids += list(TARGETS)
    if mix in ("sensors", "both"):
        ids += list(SENSORS)
    return ids


def _run_ephem(res, item, tmp):
    _, mix, n, names = item[:4]
    dt = item[4] if len(item) > 4 else DT
    src = os.path.join(tmp, "source.sqlite3")
    _source_db(src, n, dt)
    variants = {v[0]: v for v in _variants(n)}
    imported = _imported_ids(mix)
    for name in names:
        _, keep, gap = variants[name]
        # ONE path for every variant of this item: the file is deleted and re-created between consecutive runs of the
        # same process, as a user regenerating an importer file between studies does
        path = os.path.join(tmp, "importer.sqlite3")
        _derive(src, path, keep, gap)
        rows, _ = _db_rows(path)
        sha0, dump0 = _sha(path), _logical_dump(path)
        cfg = _importer_config(n, mix, dt=dt)
        case = {"mix": mix, "db": name, "steps": n, "step_s": dt, "extras": len([a for a in keep if a in EXTRAS])}
        # expected first failing step: an imported agent without a record at that epoch
        expect_fail = None
        for k in range(1, n + 1):
            iso = (START + timedelta(seconds=k * dt)).isoformat(timespec="microseconds")
            if any((a, iso) not in rows for a in imported):
                expect_fail = k
                break
        sc = scen.build(cfg, importer_db_path=f"sqlite:///{path}")
        failed_at, err_type, bad_state, bad_epoch, bad_views = None, None, None, None, None
        for k in range(1, n + 1):
            try:
                sc.stepForward()
                sc.saveDatabaseOutput()
            except Exception as exc:  # noqa: BLE001
                failed_at, err_type = k, type(exc).__name__
                break
            iso = (START + timedelta(seconds=k * dt)).isoformat(timespec="microseconds")
            agents = {**sc.target_agents, **sc.sensor_agents}
            for a in imported:
                want = rows.get((a, iso))
                got = np.asarray(agents[a].eci_state, dtype=float)
                if want is None or not np.array_equal(got, want):
                    bad_state = bad_state or (k, a, got.tolist(), None if want is None else want.tolist())
                # ... and its Earth-fixed views are those of that state AT that epoch
                from resonaate.physics.transforms.methods import ecef2lla, eci2ecef  # noqa: PLC0415

                want_ecef = np.asarray(eci2ecef(got, START + timedelta(seconds=k * dt)), dtype=float)
                got_ecef = np.asarray(agents[a].ecef_state, dtype=float)
                got_lla = np.asarray(agents[a].lla_state, dtype=float)
                want_lla = np.asarray(ecef2lla(want_ecef), dtype=float)
                # tolerance: the agent's epoch is recovered from a Julian date (resolution ~4e-5 s); Earth rotation moves
                # the Earth-fixed position by omega * |r| * dt -> allow 1e-4 s of epoch noise (a step is 60 s or more)
                tol_km = 7.2921159e-5 * float(np.linalg.norm(got[:3])) * 1e-4
                if np.abs(got_ecef[:3] - want_ecef[:3]).max() > tol_km or np.abs(got_lla[:2] - want_lla[:2]).max() > 7.2921159e-5 * 1e-4:
                    bad_views = bad_views or (k, a, {"ecef_position_error_km": float(np.abs(got_ecef[:3] - want_ecef[:3]).max()),
                                                      "lat_lon_error_rad": float(np.abs(got_lla[:2] - want_lla[:2]).max())})
                # the agent that took the record over is AT the epoch of that record (what its output row is filed under)
                t_a, jd_a = float(agents[a].time), float(agents[a].julian_date_epoch)
                if abs(t_a - k * dt) > 1e-3 or abs(jd_a - float(sc.clock.julian_date_epoch)) > 2e-9:
                    bad_epoch = bad_epoch or (k, a, {"agent_time": t_a, "clock_time": float(sc.clock.time), "agent_jd": jd_a,
                                                      "clock_jd": float(sc.clock.julian_date_epoch)})
            res.observe(sorted((a, np.asarray(agents[a].eci_state).tobytes()) for a in agents))
        nontriv = gap is not None or set(keep) != set(TARGETS + SENSORS)
        ok_fail = (failed_at == expect_fail) and (failed_at is None or err_type == "MissingEphemerisError")
        if expect_fail is None:
            label = "ok" if ok_fail else "unexpected_error"
        elif failed_at is None:
            label = "gap_not_reported"
        elif failed_at != expect_fail:
            label = "gap_reported_in_wrong_step"
        else:
            label = "ok" if ok_fail else f"wrong_exception_{err_type}"
        res.case(
            "ephem/missing_record_stops_run",
            case,
            ok_fail,
            nontrivial=nontriv,
            signature=f"C19/ephem/{label}/extras={case['extras']}",
            observed={"failed_at_step": failed_at, "exception": err_type},
            expected={"failed_at_step": expect_fail, "exception": "MissingEphemerisError" if expect_fail else None},
            outcome=label,
            item=("ephem", mix, n, [name]),
        )
        res.case(
            "ephem/state_equals_record",
            case,
            bad_state is None,
            nontrivial=nontriv,
            signature="C19/ephem/state_differs_from_record" if not (bad_state and bad_state[3] is None) else "C19/ephem/continued_with_stale_state",
            observed=bad_state,
            expected="agent.eci_state == importer row for that agent and epoch",
            item=("ephem", mix, n, [name]),
        )
        res.case(
            "ephem/agent_epoch_equals_record_epoch",
            case,
            bad_epoch is None,
            nontrivial=nontriv or dt != DT,
            signature="C19/ephem/agent_epoch_differs",
            observed=bad_epoch,
            expected="imported agent's time / Julian date == the step's epoch",
            item=item if dt != DT else ("ephem", mix, n, [name]),
        )
        res.case(
            "ephem/earth_fixed_views_at_record_epoch",
            case,
            bad_views is None,
            nontrivial=True,
            signature="C19/ephem/earth_fixed_views_stale",
            observed=bad_views,
            expected="ecef_state / lla_state == conversion of the imported state at the record's epoch",
            item=item if dt != DT else ("ephem", mix, n, [name]),
        )
        # ... and its truth rows in the OUTPUT database sit at the epochs of the run, one per step
        if failed_at is None:
            from sqlalchemy import text  # noqa: PLC0415

            with sc.database.engine.connect() as conn:
                out_rows = conn.execute(text("SELECT agent_id, julian_date FROM truth_ephemerides")).fetchall()
            want_jd = [float(scen_jd) for scen_jd in
                       (sc.clock.julian_date_start + (k * dt) / 86400.0 for k in range(0, n + 1))]
            bad_rows = []
            for a in imported:
                got_jd = sorted(float(r[1]) for r in out_rows if int(r[0]) == a)
                if len(got_jd) != len(want_jd) or any(abs(x - y) > 2e-9 for x, y in zip(got_jd, want_jd)):
                    bad_rows.append((a, got_jd[:4], want_jd[:4]))
            res.case("ephem/output_rows_at_run_epochs", case, not bad_rows, nontrivial=nontriv or dt != DT,
                     signature="C19/ephem/output_rows_misfiled", observed=bad_rows[:1], item=item if dt != DT else ("ephem", mix, n, [name]))
        # (the importer connections of this run are deliberately NOT disposed: the next variant re-creates the file at
        #  the same path, and a library that kept a handle on the old file would go on reading the old records)
        res.case("ephem/importer_unchanged", case, _sha(path) == sha0 and _logical_dump(path) == dump0,
                 signature="C19/importer_db_modified", observed={"sha_same": _sha(path) == sha0}, item=("ephem", mix, n, [name]))
        # the write API of the importer interface refuses
        res.states += (failed_at or n) + 1
        res.transitions += failed_at or n
        res.traces += 1
        os.unlink(path)


def _run_obs(res, item, tmp):
    _, mix, n, names = item
    src = os.path.join(tmp, "source.sqlite3")
    _source_db(src, n)
    variants = {v[0]: v for v in _variants(n)}
    for name in names:
        _, keep, gap = variants[name]
        path = os.path.join(tmp, "importer.sqlite3")
        _derive(src, path, keep, gap)
        if item[0] == "obs_rt":
            # tag the stored observations so they are distinguishable from the identical ones the run makes itself
            con = sqlite3.connect(path)
            con.execute("UPDATE observations SET elevation_rad = elevation_rad + 1e-4")
            con.commit()
            con.close()
        _, obs = _db_rows(path)
        n_obs_total = sum(len(v) for v in obs.values())
        sha0, dump0 = _sha(path), _logical_dump(path)
        realtime = item[0] == "obs_rt"
        swap = item[0] == "obs_swap"
        cfg = _importer_config(n, mix, realtime_obs=realtime, truth_only=False, events=_swap_events() if swap else None)
        case = {"mix": mix, "db": name, "steps": n, "stored_observations": n_obs_total, "realtime_observation": realtime,
                "sensor_20001_swapped_at_step": SWAP_STEP if swap else None}
        configured_r = {x["id"]: np.array(x["sensor"]["covariance"], dtype=float) for x in _agents(START)[1]}
        sc = scen.build(cfg, importer_db_path=f"sqlite:///{path}")
        err = None
        for k in range(1, n + 1):
            fakeray.JOB_LOG = []
            try:
                sc.stepForward()
            except Exception as exc:  # noqa: BLE001
                err = f"step {k}: {type(exc).__name__}: {exc}"
                break
            iso = (START + timedelta(seconds=k * DT)).isoformat(timespec="microseconds")
            subs = {}
            for fname, arg_bytes in fakeray.JOB_LOG:
                if fname.endswith("asyncUpdateEstimate"):
                    (sub,), _kw = pickle.loads(arg_bytes)
                    est = fakeray.get(sub.estimate_agent)
                    # the noise model attached to each observation handed to the filter = the one configured for the
                    # sensor that holds this id NOW (after the swap: the re-added sensor's)
                    for o in sub.successful_obs:
                        want_r = configured_r[o.sensor_id] * (SWAP_SCALE if swap and o.sensor_id == 20001 and k >= SWAP_STEP else 1.0)
                        got_r = np.array(o.measurement.r_matrix, dtype=float)
                        ok_r = got_r.shape == want_r.shape and np.allclose(got_r, want_r, rtol=1e-12, atol=0.0)
                        res.case(
                            "obs/noise_model_of_current_sensor",
                            {**case, "step": k, "target": est.simulation_id, "sensor": o.sensor_id},
                            ok_r,
                            nontrivial=swap and o.sensor_id == 20001 and k >= SWAP_STEP,
                            key=f"{item[0]}|{mix}|{name}|{k}|{est.simulation_id}|{o.sensor_id}",
                            signature="C19/obs/noise_model/stale" if swap else "C19/obs/noise_model/wrong",
                            observed=np.diag(got_r).tolist(),
                            expected=np.diag(want_r).tolist(),
                            item=item,
                        )
                    subs[est.simulation_id] = sorted(
                        (o.sensor_id, float(o.julian_date), o.azimuth_rad, o.elevation_rad, o.range_km, o.range_rate_km_p_sec)
                        for o in sub.successful_obs
                    )
            for tid in TARGETS:
                want = sorted(obs.get((iso, tid), []))
                got = subs.get(tid, [])
                if realtime:
                    # the step's own observations are there too: every stored one must be among them, exactly once,
                    # and none stored for another epoch or target
                    stored_all = {o for v in obs.values() for o in v}
                    got = sorted(o for o in got if o in stored_all)
                res.case(
                    "obs/reach_filter_at_epoch",
                    {**case, "step": k, "target": tid, "n_stored": len(want)},
                    got == want,
                    nontrivial=len(want) > 0,
                    key=f"{mix}|{name}|{k}|{tid}",
                    signature=f"C19/obs/{'lost' if len(got) < len(want) else 'extra' if len(got) > len(want) else 'different'}",
                    observed=got[:3],
                    expected=want[:3],
                    outcome=f"n={len(want)}",
                    item=item,
                )
                # metadata needed by the filter was attached
            res.observe(sorted(subs.items()))
        fakeray.JOB_LOG = None
        res.case("obs/run", case, err is None, signature="C19/obs/run_error", observed=err, item=item)
        for eng in sc.tasking_engines.values():
            if eng._importer_db is not None:  # noqa: SLF001
                eng._importer_db.engine.dispose()  # noqa: SLF001
        if sc._ephem_importer is not None:  # noqa: SLF001
            sc._ephem_importer._importer_db.engine.dispose()  # noqa: SLF001
        res.case("obs/importer_unchanged", case, _sha(path) == sha0 and _logical_dump(path) == dump0,
                 signature="C19/importer_db_modified", item=item)
        res.states += n + 1
        res.transitions += n
        res.traces += 1
        os.unlink(path)


def _check_write_api(res, tmp):
    """The write methods of the importer interface raise and leave the file untouched."""
    from resonaate.data.agent import AgentModel  # noqa: PLC0415
    from resonaate.data.importer_database import ImporterDatabase  # noqa: PLC0415
    from sqlalchemy.orm import Query  # noqa: PLC0415

    src = os.path.join(tmp, "source.sqlite3")
    if not os.path.exists(src):
        _source_db(src, 2)
    path = os.path.join(tmp, "imp_api.sqlite3")
    _derive(src, path, list(TARGETS + SENSORS), None)
    sha0 = _logical_dump(path)
    db = ImporterDatabase(f"sqlite:///{path}")
    for name, call in (
        ("insertData", lambda: db.insertData(AgentModel(unique_id=999, name="x"))),
        ("bulkSave", lambda: db.bulkSave([AgentModel(unique_id=998, name="y")])),
        ("deleteData", lambda: db.deleteData(Query(AgentModel))),
    ):
        raised = None
        try:
            call()
        except Exception as exc:  # noqa: BLE001
            raised = type(exc).__name__
        res.case("api/write_refused", {"method": name}, raised == "NotImplementedError" and _logical_dump(path) == sha0,
                 signature=f"C19/api/{name}_not_refused", observed=raised, item=("api",))
    db.engine.dispose()


def run_item(item):
    res = fw.Result()
    tmp = tempfile.mkdtemp(prefix="verif_c19_")
    try:
        if item[0] == "ephem":
            _run_ephem(res, item, tmp)
        elif item[0] in ("obs", "obs_rt", "obs_swap"):
            _run_obs(res, item, tmp)
            _check_write_api(res, tmp)
        elif item[0] == "api":
            _check_write_api(res, tmp)
    finally:
        shutil.rmtree(tmp, ignore_errors=True)
    return res
