"""C05 - calendar / Julian date / scenario time agree; requested durations are honoured.

Lattice explorer (conversions) + history explorer (run-call sequences on a real truth-only scenario).
"""
from __future__ import annotations

from datetime import date, datetime, timedelta

from verif import framework as fw
from verif import scen  # installs fake ray before resonaate is imported

from resonaate.physics.time.conversions import getTargetJulianDate
from resonaate.physics.time.stardate import (
    JulianDate,
    ScenarioTime,
    datetimeToJulianDate,
    getCalendarDate,
    julianDateToDatetime,
)

PROPERTY = "C05"
LEVEL = "model_checking"
RULE = (
    "conversions: every whole second of the listed days (86400 each) and 00:00:00/11:59:59/12:00:00/23:59:59 of every "
    "day 1901-01-01..2099-12-31, each round-tripped through datetimeToJulianDate/julianDateToDatetime and compared "
    "with an integer-arithmetic reference; scenario offsets round-tripped through JulianDate; durations: every "
    "(start instant, step, D, call split) of the announced lattice executed on a real truth-only Scenario via "
    "getTargetJulianDate+propagateTo with stepForward calls counted and Epoch/TruthEphemeris rows audited; D includes "
    "durations that are NOT a whole number of seconds (k*step - f and k*step + f for fractions f on both sides of one "
    "half, given in seconds to propagateTo and in decimal hours to runResonaate): exactly floor(D/step) steps. "
    "non-trivial = second-of-minute != 0 (conversions), offset not a multiple of 60 s, or D not a multiple of the "
    "step / start second != 0 / split run (durations); distinct by construction (lattice points)."
)
ASSUMPTIONS = [
    "python datetime/ordinal arithmetic is the calendar reference",
    "Julian dates are IEEE doubles (resolution ~4e-5 s near 2.45e6 days); reference agreement is required to 1e-9 day",
]
EXPECT_MIN_NONTRIVIAL = 1000


def _ref_jd(dt: datetime) -> float:
    # JD of 0001-01-01 00:00 (proleptic Gregorian ordinal 1) is 1721425.5
    return (dt.toordinal() + 1721424.5) + (dt.hour * 3600 + dt.minute * 60 + dt.second + dt.microsecond * 1e-6) / 86400.0


def _seed_day(seed: int, k: int) -> date:
    # deterministic lattice phase: which day is swept second-by-second
    span = (date(2099, 12, 31) - date(1901, 1, 1)).days
    return date(1901, 1, 1) + timedelta(days=(seed * 7919 + k * 104729 + 43800) % span)


def _days(tier, seed):
    days = [_seed_day(seed, 0), date(2016, 2, 29), date(2099, 12, 31), date(2021, 3, 30)]
    if tier == "thorough":
        days += [date(y, 12, 31) for y in range(1901, 2100, 22)]
        days += [date(y, 1, 1) for y in range(1901, 2100, 33)]
        days += [date(y, 2, 29) for y in range(1904, 2100, 16)]
        days += [date(y, 3, 1) for y in range(1903, 2100, 27)]
        days += [_seed_day(seed, k) for k in range(1, 12)]
        days += [date(2015, 6, 30), date(2015, 7, 1), date(2016, 12, 31), date(2017, 1, 1), date(1901, 1, 1)]
    out, seen = [], set()
    for d in days:
        if d not in seen:
            seen.add(d)
            out.append(d)
    return out


DUR_STARTS_Q = [
    datetime(2021, 3, 30, 16, 0, 0),
    datetime(2021, 3, 30, 16, 0, 1),
    datetime(2019, 12, 31, 23, 59, 29),
    datetime(2020, 2, 29, 12, 30, 59),
]
DUR_STEPS_Q = [2, 60, 300, 450, 3600]


def _dur_lattice(tier, seed):
    starts = list(DUR_STARTS_Q)
    steps = list(DUR_STEPS_Q)
    if tier == "thorough":
        base = datetime(2018, 6, 15, 7, 30, 0) + timedelta(days=seed % 1000)
        starts += [base + timedelta(seconds=s) for s in (0, 1, 7, 29, 30, 31, 37, 58, 59)]
        starts += [datetime(2016, 12, 31, 23, 59, 58), datetime(2017, 1, 1, 0, 0, 1), datetime(2020, 2, 28, 23, 59, 31)]
        steps += [7, 30, 3600]
    cases = []
    for st in starts:
        for step in steps:
            ds = [step, 3 * step, 3 * step + 1, 10 * step - 1, 4 * step + step // 2]
            if step <= 450:
                ds.append(3600)
            if step >= 300:
                # durations of a day and more (the days part of the timedelta matters): 26 h, exactly 1 day, 2 days + 1 step
                ds += [93600, 86400, 2 * 86400 + step]
            for d in ds:
                if d // step > 1800:
                    continue
                cases.append((st, step, d, "single"))
                if d // step >= 2:
                    cases.append((st, step, d, "split"))
    return cases


# durations with a fractional second (decimal strings, exact): k*step - f has floor(D/step) = k-1 although D rounded to
# the nearest / next whole second is a multiple of the step (f < 0.5, = 0.5, > 0.5, one millisecond); k*step + f has
# floor(D/step) = k whichever way the fraction is treated (control on the other side of the multiple)
FRAC_BELOW = ["0.36", "0.5", "0.72", "0.001"]
FRAC_ABOVE = ["0.4", "0.64"]
FRAC_STEPS_Q = [2, 7, 30, 60, 300, 450, 3600]
FRAC_STARTS_Q = [datetime(2021, 3, 30, 16, 0, 7), datetime(2019, 12, 31, 23, 59, 29), datetime(2020, 2, 29, 6, 30, 59)]


def _frac_dur_lattice(tier, seed):
    from fractions import Fraction  # noqa: PLC0415

    starts = list(FRAC_STARTS_Q)
    steps = list(FRAC_STEPS_Q)
    ks = [2, 3, 5]
    if tier == "thorough":
        base = datetime(2018, 6, 15, 7, 30, 0) + timedelta(days=seed % 1000)
        starts += [base + timedelta(seconds=s) for s in (0, 31, 59)] + [datetime(2016, 12, 31, 23, 59, 58)]
        steps += [5, 45, 360, 900]
        ks += [1, 4, 12]
    cases = []
    for i, st in enumerate(starts):
        for j, step in enumerate(steps):
            for k in ks:
                # quick: every start instant for k = 2, one start instant (rotating with step and k) for the other k
                if tier != "thorough" and k != ks[0] and (j + k) % len(starts) != i:
                    continue
                ds = [_dec(k * step, f, -1) for f in FRAC_BELOW] + [_dec(k * step, f, +1) for f in FRAC_ABOVE]
                if step >= 450 and k == ks[0] and (tier == "thorough" or j % len(starts) == i):
                    ds.append(_dec(86400 + step, "0.36", -1))  # the days part of the timedelta AND a fraction
                for d in ds:
                    n = int(Fraction(d) // step)
                    if n < 1 or n > 400:
                        continue
                    cases.append((st, step, d, "split" if (n >= 2 and (i + k + len(cases)) % 3 == 0) else "single"))
    return cases


def _dec(whole, frac, sign):
    """Exact decimal string of whole + sign*frac (seconds), frac given with at most 3 decimals."""
    from fractions import Fraction  # noqa: PLC0415

    v = Fraction(whole) + sign * Fraction(frac)
    ms = v * 1000
    assert ms.denominator == 1
    return f"{int(ms) // 1000}.{int(ms) % 1000:03d}"


# runs through the user-facing entry point ``resonaate.runResonaate(init_file, sim_time_hours=h)`` (what the
# ``resonaate -t <hours>`` command calls): hour values as decimal strings (the exact duration is Fraction(h)*3600 s,
# mostly NOT representable as a binary float), each against several steps; includes exact multiples of the step
ENTRY_HOURS_Q = ["0.1", "0.3", "0.7", "1.1", "2.3", "4.1", "0.35", "1", "0.05"]
ENTRY_STEPS_Q = [60, 360, 450]
# hours whose duration has a fractional second: 0.0249 h = 89.64 s, 0.0999 h = 359.64 s, 0.1999 h = 719.64 s, 0.2499 h = 899.64 s,
# 0.4999 h = 1799.64 s, 1.2499 h = 4499.64 s (fraction > 1/2 just below a multiple of the steps); 0.0998 h = 359.28 s,
# 0.2498 h = 899.28 s (fraction < 1/2 just below); 0.2501 h = 900.36 s, 0.1002 h = 360.72 s (just above a multiple)
ENTRY_FRAC_HOURS_Q = ["0.0249", "0.0999", "0.1999", "0.2499", "0.4999", "1.2499", "0.0998", "0.2498", "0.2501", "0.1002"]
ENTRY_FRAC_STEPS_Q = [30, 60, 360, 450]
ENTRY_STARTS = [datetime(2021, 3, 30, 16, 0, 7), datetime(2019, 12, 31, 23, 59, 29)]


def _entry_lattice(tier, seed):
    hours = list(ENTRY_HOURS_Q)
    steps = list(ENTRY_STEPS_Q)
    if tier == "thorough":
        hours += ["0.2", "0.6", "0.9", "1.3", "1.7", "2.1", "3.3", "5.1", "6.9", "8.2", "0.15", "0.45", "24.1", "26.3"]
        steps += [36, 300, 3600]
    cases = []
    for i, h in enumerate(hours):
        for step in steps:
            from fractions import Fraction  # noqa: PLC0415

            dur = Fraction(h) * 3600
            if dur // step < 1 or dur // step > 420:
                continue
            # output step = physics step, or 3 x physics (epochs of the steps between two saves are written with the save)
            cases.append((ENTRY_STARTS[(i + seed) % len(ENTRY_STARTS)], step, h, 1 if (i + len(cases)) % 2 == 0 else 3))
    fhours = list(ENTRY_FRAC_HOURS_Q)
    fsteps = list(ENTRY_FRAC_STEPS_Q)
    if tier == "thorough":
        fhours += ["0.7499", "2.4999", "0.4998", "24.0999", "0.5001", "0.0251"]
        fsteps += [45, 300, 900]
    for i, h in enumerate(fhours):
        for step in fsteps:
            from fractions import Fraction  # noqa: PLC0415

            dur = Fraction(h) * 3600
            assert dur.denominator != 1
            if dur // step < 1 or dur // step > 420:
                continue
            cases.append((ENTRY_STARTS[(i + seed) % len(ENTRY_STARTS)], step, h, 1 if (i + len(cases)) % 2 == 0 else 3))
    return cases


HOST_ZONES = ["EST5", "IST-5:30", "NZST-12NZDT,M9.5.0,M4.1.0/3", "UTC0"]


def items(tier, seed):
    out = []
    for d in _days(tier, seed):
        for h0 in range(0, 24, 6):
            out.append(("day", d.isoformat(), h0, 6))
    ystep = 10
    for y0 in range(1901, 2100, ystep):
        out.append(("alldays", y0, min(y0 + ystep - 1, 2099)))
    out.append(("sctime", seed))
    out.append(("calendar_fields", seed))
    for chunk in fw.chunked(_dur_lattice(tier, seed), 6):
        out.append(("duration", [(st.isoformat(), step, d, mode) for st, step, d, mode in chunk]))
    for chunk in fw.chunked(_frac_dur_lattice(tier, seed), 8):
        out.append(("duration", [(st.isoformat(), step, d, mode) for st, step, d, mode in chunk]))
    for chunk in fw.chunked(_entry_lattice(tier, seed), 4):
        out.append(("entry", [(st.isoformat(), step, h, m) for st, step, h, m in chunk]))
    # the configured instants are UTC whatever the HOST's time zone is (POSIX TZ strings: no tzdata needed)
    for tz in HOST_ZONES:
        out.append(("host_tz", tz))
    # start instants with a fractional second: the recorded epochs are start + k*step, timestamp AND Julian date
    out.append(("frac_start", [250, 125, 400]))
    return out


def bounds(tier, seed):
    return {
        "swept_days": [d.isoformat() for d in _days(tier, seed)],
        "all_days": "1901-01-01..2099-12-31 at 00:00:00, 11:59:59, 12:00:00, 23:59:59",
        "duration_cases": len(_dur_lattice(tier, seed)),
        "duration_steps": sorted({c[1] for c in _dur_lattice(tier, seed)}),
        "fractional_duration_cases": len(_frac_dur_lattice(tier, seed)),
        "fractional_duration_steps": sorted({c[1] for c in _frac_dur_lattice(tier, seed)}),
        "fractional_duration_D": "k*step - f, f in %s; k*step + f, f in %s; 1 day + step - 0.36 (step >= 450, one start instant per step in the quick tier)" % (FRAC_BELOW, FRAC_ABOVE),
        "fractional_duration_starts": sorted({c[0].isoformat() for c in _frac_dur_lattice(tier, seed)}),
        "entry_point_cases": len(_entry_lattice(tier, seed)),
        "entry_point_steps": sorted({c[1] for c in _entry_lattice(tier, seed)}),
        "host_time_zones": HOST_ZONES,
        "entry_point_hours": sorted({c[2] for c in _entry_lattice(tier, seed)}, key=float),
    }


# ------------------------------------------------------------------------------------------------
def _check_instant(res: fw.Result, sub: str, t: datetime, prev_jd, item):
    try:
        jd = datetimeToJulianDate(t)
        back = julianDateToDatetime(jd)
    except Exception as exc:  # noqa: BLE001
        res.violate(f"{sub}/roundtrip", {"t": t.isoformat(), "second": t.second}, signature=f"C05/roundtrip/exception/{type(exc).__name__}",
                    observed=f"{type(exc).__name__}: {exc}", expected=t.isoformat(), item=item)
        return prev_jd
    delta = (back - t).total_seconds()
    nontriv = t.second != 0
    ok = delta == 0.0
    res.case(
        f"{sub}/roundtrip",
        {"t": t.isoformat(), "second": t.second},
        ok,
        nontrivial=nontriv,
        signature=f"C05/roundtrip/delta={delta:+.6g}s",
        observed=back.isoformat(),
        expected=t.isoformat(),
        outcome=f"delta={delta:+.6g}",
        item=item,
    )
    ref = _ref_jd(t)
    res.case(
        f"{sub}/jd_reference",
        {"t": t.isoformat()},
        abs(float(jd) - ref) <= 1e-9,
        signature="C05/jd_reference",
        observed=float(jd),
        expected=ref,
        item=item,
    )
    if prev_jd is not None:
        res.case(
            f"{sub}/monotone",
            {"t": t.isoformat()},
            float(jd) > prev_jd,
            signature="C05/monotone",
            observed=float(jd),
            expected=f"> {prev_jd!r}",
            item=item,
        )
    res.observe(float(jd), back.isoformat())
    return float(jd)


def _run_day(res, item):
    _, iso_day, h0, nh = item
    d = date.fromisoformat(iso_day)
    t = datetime(d.year, d.month, d.day, h0, 0, 0)
    prev = float(datetimeToJulianDate(t - timedelta(seconds=1)))
    for _ in range(nh * 3600):
        prev = _check_instant(res, "day", t, prev, item)
        t += timedelta(seconds=1)


def _run_alldays(res, item):
    _, y0, y1 = item
    d = date(y0, 1, 1)
    end = date(y1, 12, 31)
    prev = None
    while d <= end:
        for hh, mm, ss in ((0, 0, 0), (11, 59, 59), (12, 0, 0), (23, 59, 59)):
            prev = _check_instant(res, "alldays", datetime(d.year, d.month, d.day, hh, mm, ss), prev, item)
        d += timedelta(days=1)


def _run_sctime(res, item):
    seed = item[1]
    starts = [
        datetime(2021, 3, 30, 16, 0, 1),
        datetime(1901, 1, 1, 0, 0, 0),
        datetime(2099, 12, 31, 23, 59, 59),
        datetime(2016, 2, 29, 12, 0, 0),
        datetime(2000, 1, 1, 11, 59, 59),
        datetime.combine(_seed_day(seed, 3), datetime.min.time()) + timedelta(seconds=37),
    ]
    offsets = [0, 1, 2, 59, 60, 61, 299, 300, 3599, 3600, 86399, 86400, 86401, 10**6, 2 * 10**6 + 1]
    for st in starts:
        jd0 = datetimeToJulianDate(st)
        for s in offsets:
            jd = ScenarioTime(s).convertToJulianDate(jd0)
            back = float(jd.convertToScenarioTime(jd0))
            res.case(
                "sctime/roundtrip",
                {"start": st.isoformat(), "offset": s},
                abs(back - s) < 1e-4,
                nontrivial=s % 60 != 0,
                signature="C05/sctime/roundtrip",
                observed=back,
                expected=s,
                item=item,
            )
            ref = _ref_jd(st) + s / 86400.0
            res.case(
                "sctime/jd_reference",
                {"start": st.isoformat(), "offset": s},
                abs(float(jd) - ref) <= 2e-9,
                signature="C05/sctime/jd_reference",
                observed=float(jd),
                expected=ref,
                item=item,
            )
            # the datetime side of a scenario offset
            dt = ScenarioTime(s).convertToDatetime(st)
            res.case(
                "sctime/datetime",
                {"start": st.isoformat(), "offset": s},
                dt == st + timedelta(seconds=s),
                signature="C05/sctime/datetime",
                observed=dt.isoformat(),
                expected=(st + timedelta(seconds=s)).isoformat(),
                item=item,
            )
            res.observe(float(jd), back)


def _run_calendar_fields(res, item):
    """getCalendarDate must return the civil fields of the instant (seconds to within JD resolution)."""
    seed = item[1]
    days = [_seed_day(seed, 5), date(2016, 2, 29), date(2000, 2, 29), date(1999, 12, 31), date(2000, 1, 1),
            date(2001, 3, 1), date(1901, 1, 1), date(2099, 12, 31), date(2020, 12, 31), date(2021, 1, 1)]
    for d in days:
        for hh in (0, 5, 11, 12, 18, 23):
            for mm in (0, 1, 30, 59):
                for ss in (0, 1, 29, 30, 31, 59):
                    t = datetime(d.year, d.month, d.day, hh, mm, ss)
                    jd = JulianDate(_ref_jd(t))
                    y, mo, dd, h, mi, s = getCalendarDate(jd)
                    got = (datetime(int(y), int(mo), int(dd)) + timedelta(hours=float(h), minutes=float(mi), seconds=float(s)))
                    err = abs((got - t).total_seconds())
                    res.case(
                        "calendar_fields",
                        {"t": t.isoformat()},
                        err < 1e-3 and 0 <= h < 24 and 0 <= mi < 60 and 0 <= s < 60.0,
                        nontrivial=ss != 0,
                        signature="C05/calendar_fields",
                        observed=[int(y), int(mo), int(dd), float(h), float(mi), float(s)],
                        expected=t.isoformat(),
                        item=item,
                    )
                    res.observe(err < 1e-3)


def _run_duration(res, item):
    from resonaate.data.ephemeris import TruthEphemeris  # noqa: PLC0415
    from resonaate.data.epoch import Epoch  # noqa: PLC0415
    from sqlalchemy.orm import Query  # noqa: PLC0415

    from fractions import Fraction  # noqa: PLC0415

    for iso, step, dur, mode in item[1]:
        st = datetime.fromisoformat(iso)
        # dur: whole seconds (int) or an exact decimal string with a fractional second (at most microseconds)
        dur_exact = Fraction(dur)
        frac_dur = dur_exact.denominator != 1
        dur_td = timedelta(seconds=int(dur_exact // 1), microseconds=int((dur_exact % 1) * 10**6))
        assert Fraction(dur_td.days * 86400 + dur_td.seconds) + Fraction(dur_td.microseconds, 10**6) == dur_exact
        expected_steps = int(dur_exact // step)
        span_steps = expected_steps + 2
        cfg = scen.config(
            st,
            span_steps,
            [scen.engine(1, [scen.target_eci(10001, *scen.LEO_A)], [scen.ground_sensor(20001, 10.0, 20.0)])],
            physics=step,
            truth_only=True,
        )
        sc = scen.build(cfg)
        calls = {"n": 0}
        orig = sc.stepForward

        def counted(orig=orig, calls=calls, cap=expected_steps + 3):
            calls["n"] += 1
            if calls["n"] > cap:  # a run that does not stop where it was asked to must not hang the check
                raise RuntimeError(f"more than {cap} stepForward calls for a duration of {expected_steps} steps")
            return orig()

        sc.stepForward = counted
        case = {"start": iso, "start_second": st.second, "step": step, "D": dur, "mode": mode,
                "D_fraction": str(dur_exact % 1)}
        err = None
        try:
            if mode == "single":
                sc.propagateTo(getTargetJulianDate(sc.clock.julian_date_start, dur_td))
            else:
                first = (expected_steps // 2) * step
                sc.propagateTo(getTargetJulianDate(sc.clock.julian_date_start, timedelta(seconds=first)))
                sc.propagateTo(getTargetJulianDate(sc.clock.julian_date_start, dur_td))
        except Exception as exc:  # noqa: BLE001
            err = f"{type(exc).__name__}: {exc}"
        nontriv = st.second != 0 or dur_exact % step != 0 or mode == "split"
        res.case(
            "duration/steps",
            case,
            err is None and calls["n"] == expected_steps and float(sc.clock.time) == expected_steps * step,
            nontrivial=nontriv,
            signature=f"C05/duration/steps/{'short' if calls['n'] < expected_steps else 'long' if calls['n'] > expected_steps else 'error'}"
            + ("/fractional_D" if frac_dur else ""),
            observed={"stepForward_calls": calls["n"], "clock_time": float(sc.clock.time), "error": err},
            expected={"steps": expected_steps},
            outcome=f"steps_minus_expected={calls['n'] - expected_steps}",
            item=("duration", [(iso, step, dur, mode)]),
        )
        # audit epochs and truth rows
        epochs = sorted(sc.database.getData(Query(Epoch)), key=lambda e: e.julian_date)
        want = [(st + timedelta(seconds=k * step)) for k in range(span_steps + 1)]
        got_iso = [e.timestampISO for e in epochs]
        ok_epochs = got_iso == [w.isoformat(timespec="microseconds") for w in want] and all(
            abs(e.julian_date - _ref_jd(w)) <= 2e-9 for e, w in zip(epochs, want)
        )
        res.case(
            "duration/epochs",
            case,
            ok_epochs,
            nontrivial=nontriv,
            signature="C05/duration/epochs",
            observed=got_iso[:4] + got_iso[-2:],
            expected=[w.isoformat() for w in want[:4]],
            item=("duration", [(iso, step, dur, mode)]),
        )
        truth = sc.database.getData(Query(TruthEphemeris).filter(TruthEphemeris.agent_id == 10001))
        tjd = sorted(r.julian_date for r in truth)
        want_jd = [_ref_jd(st + timedelta(seconds=k * step)) for k in range(expected_steps + 1)]
        ok_truth = len(tjd) == len(want_jd) and all(abs(a - b) <= 2e-9 for a, b in zip(tjd, want_jd))
        res.case(
            "duration/truth_rows",
            case,
            ok_truth,
            nontrivial=nontriv,
            signature=f"C05/duration/truth_rows/{'fewer' if len(tjd) < len(want_jd) else 'more' if len(tjd) > len(want_jd) else 'shifted'}",
            observed={"rows": len(tjd)},
            expected={"rows": len(want_jd)},
            item=("duration", [(iso, step, dur, mode)]),
        )
        res.observe(calls["n"], got_iso, tjd)
        res.states += calls["n"] + 1
        res.transitions += calls["n"]
        res.traces += 1


def _run_entry(res, item):
    """Drive the real entry point: config files on disk, file database, ``runResonaate(path, sim_time_hours=h)``."""
    import json  # noqa: PLC0415
    import shutil  # noqa: PLC0415
    import sqlite3  # noqa: PLC0415
    import tempfile  # noqa: PLC0415
    from fractions import Fraction  # noqa: PLC0415

    import resonaate  # noqa: PLC0415
    from resonaate.scenario.scenario import Scenario  # noqa: PLC0415

    for iso, step, hours, out_mult in item[1]:
        st = datetime.fromisoformat(iso)
        dur = Fraction(hours) * 3600
        expected_steps = int(dur // step)
        cfg = scen.config(
            st,
            2,  # the configured span is NOT what bounds the run: the requested hours are
            [scen.engine(1, [scen.target_eci(10001, *scen.LEO_A)], [scen.ground_sensor(20001, 10.0, 20.0)])],
            physics=step,
            output=step * out_mult,
            truth_only=True,
        )
        tmp = tempfile.mkdtemp(prefix="verif_c05_")
        calls = {"n": 0}
        orig = Scenario.stepForward

        def counted(self, orig=orig, calls=calls, cap=expected_steps + 3):
            calls["n"] += 1
            if calls["n"] > cap:  # a run that does not stop where it was asked to must not hang the check
                raise RuntimeError(f"more than {cap} stepForward calls for a duration of {expected_steps} steps")
            return orig(self)

        case = {"start": iso, "start_second": st.second, "step": step, "hours": hours, "D_seconds": str(dur),
                "output_step": step * out_mult}
        err = None
        got_iso, tjd, got_ejd = [], [], []
        try:
            main = {k: v for k, v in cfg.items() if k != "engines"}
            main["engines_files"] = []
            for i, eng in enumerate(cfg["engines"]):
                e = {k: v for k, v in eng.items() if k not in ("targets", "sensors")}
                e["targets_file"], e["sensors_file"] = f"t{i}.json", f"s{i}.json"
                json.dump(eng["targets"], open(f"{tmp}/t{i}.json", "w"))
                json.dump(eng["sensors"], open(f"{tmp}/s{i}.json", "w"))
                json.dump(e, open(f"{tmp}/e{i}.json", "w"))
                main["engines_files"].append(f"e{i}.json")
            json.dump(main, open(f"{tmp}/main.json", "w"))
            scen.fresh()
            Scenario.stepForward = counted
            try:
                resonaate.runResonaate(f"{tmp}/main.json", internal_db_path=f"{tmp}/out.sqlite3", sim_time_hours=float(hours))
            except Exception as exc:  # noqa: BLE001
                err = f"{type(exc).__name__}: {exc}"
            finally:
                Scenario.stepForward = orig
            scen.fresh()  # disposes the cached file-database interface
            con = sqlite3.connect(f"{tmp}/out.sqlite3")
            got_iso = [r[0] for r in con.execute("SELECT timestampISO FROM epochs ORDER BY julian_date")]
            got_ejd = [float(r[0]) for r in con.execute("SELECT julian_date FROM epochs ORDER BY julian_date")]
            tjd = [r[0] for r in con.execute("SELECT julian_date FROM truth_ephemerides WHERE agent_id=10001 ORDER BY julian_date")]
            con.close()
        finally:
            shutil.rmtree(tmp, ignore_errors=True)
        nontriv = Fraction(float(hours)) != Fraction(hours) or dur % step != 0
        res.case(
            "entry/steps",
            case,
            err is None and calls["n"] == expected_steps,
            nontrivial=nontriv,
            signature=f"C05/entry/steps/{'short' if calls['n'] < expected_steps else 'long' if calls['n'] > expected_steps else 'error'}",
            observed={"stepForward_calls": calls["n"], "error": err},
            expected={"steps": expected_steps},
            outcome=f"entry_steps_minus_expected={calls['n'] - expected_steps}",
            item=("entry", [(iso, step, hours, out_mult)]),
        )
        saved = [k for k in range(expected_steps + 1) if k % out_mult == 0]  # output steps: truth rows are written there
        want_jd = [_ref_jd(st + timedelta(seconds=k * step)) for k in saved]
        ok_truth = len(tjd) == len(want_jd) and all(abs(a - b) <= 2e-9 for a, b in zip(tjd, want_jd))
        res.case(
            "entry/truth_rows",
            case,
            ok_truth,
            nontrivial=nontriv,
            signature=f"C05/entry/truth_rows/{'fewer' if len(tjd) < len(want_jd) else 'more' if len(tjd) > len(want_jd) else 'shifted'}",
            observed={"rows": len(tjd)},
            expected={"rows": len(want_jd)},
            item=("entry", [(iso, step, hours, out_mult)]),
        )
        # every step up to the last save has its epoch: start + k*step, timestamp AND Julian date
        want_ep = [st + timedelta(seconds=k * step) for k in range(max(saved) + 1)]
        want_iso = [w.isoformat(timespec="microseconds") for w in want_ep]
        res.case(
            "entry/epochs",
            case,
            got_iso[: len(want_iso)] == want_iso and len(got_iso) >= len(want_iso)
            and all(abs(a - _ref_jd(w)) <= 2e-9 for a, w in zip(got_ejd, want_ep)),
            nontrivial=nontriv,
            signature="C05/entry/epochs",
            observed=got_iso[:3] + got_iso[-2:],
            expected=want_iso[:3] + want_iso[-2:],
            item=("entry", [(iso, step, hours, out_mult)]),
        )
        res.observe(calls["n"], got_iso, tjd)
        res.states += calls["n"] + 1
        res.transitions += calls["n"]
        res.traces += 1


def _run_host_tz(res, item):
    """Same configuration (timestamps with a Z designator, as the shipped init files have) under another host zone."""
    import os  # noqa: PLC0415
    import time as _time  # noqa: PLC0415

    from resonaate.data.epoch import Epoch  # noqa: PLC0415
    from sqlalchemy.orm import Query  # noqa: PLC0415

    tz = item[1]
    old = os.environ.get("TZ")
    os.environ["TZ"] = tz
    _time.tzset()
    try:
        for st in (datetime(2021, 3, 30, 16, 0, 37), datetime(2019, 12, 31, 23, 59, 29), datetime(2020, 6, 30, 0, 0, 0)):
            for step in (60, 450):
                n = 3
                cfg = scen.config(
                    st, n + 1,
                    [scen.engine(1, [scen.target_eci(10001, *scen.LEO_A)], [scen.ground_sensor(20001, 10.0, 20.0)])],
                    physics=step, truth_only=True,
                )
                case = {"host_TZ": tz, "utc_offset_s": -_time.timezone, "start": st.isoformat(), "step": step,
                        "configured_start_text": cfg["time"]["start_timestamp"]}
                err, got_iso, got_jd, start_dt = None, [], [], None
                try:
                    sc = scen.build(cfg)
                    start_dt = sc.clock.datetime_start
                    left, step_fn = {"n": n + 3}, sc.stepForward

                    def capped(left=left, step_fn=step_fn):
                        left["n"] -= 1
                        if left["n"] < 0:
                            raise RuntimeError("more stepForward calls than the requested duration allows")
                        return step_fn()

                    sc.stepForward = capped
                    sc.propagateTo(getTargetJulianDate(sc.clock.julian_date_start, timedelta(seconds=n * step)))
                    epochs = sorted(sc.database.getData(Query(Epoch)), key=lambda e: e.julian_date)
                    got_iso = [e.timestampISO for e in epochs]
                    got_jd = [float(e.julian_date) for e in epochs]
                except Exception as exc:  # noqa: BLE001
                    err = f"{type(exc).__name__}: {exc}"
                want = [st + timedelta(seconds=k * step) for k in range(n + 2)]
                ok = (err is None and start_dt == st and got_iso == [w.isoformat(timespec="microseconds") for w in want]
                      and all(abs(a - _ref_jd(w)) <= 2e-9 for a, w in zip(got_jd, want)))
                res.case(
                    "host_tz/epochs",
                    case,
                    ok,
                    nontrivial=_time.timezone != 0,
                    signature="C05/host_tz/epochs_shifted" if err is None else "C05/host_tz/error",
                    observed={"clock_start": str(start_dt), "epochs": got_iso[:2], "error": err},
                    expected={"clock_start": str(st), "epochs": [w.isoformat() for w in want[:2]]},
                    item=item,
                )
                res.observe(got_iso)
                res.states += n + 1
                res.transitions += n
                res.traces += 1
    finally:
        if old is None:
            os.environ.pop("TZ", None)
        else:
            os.environ["TZ"] = old
        _time.tzset()


def _run_frac_start(res, item):
    from resonaate.data.epoch import Epoch  # noqa: PLC0415
    from sqlalchemy.orm import Query  # noqa: PLC0415

    for ms in item[1]:
        for base in (datetime(2021, 3, 30, 16, 0, 7), datetime(2019, 12, 31, 23, 58, 59)):
            for step in (60, 450):
                st = base + timedelta(milliseconds=ms)
                n = 4
                cfg = scen.config(
                    st, n + 1,
                    [scen.engine(1, [scen.target_eci(10001, *scen.LEO_A)], [scen.ground_sensor(20001, 10.0, 20.0)])],
                    physics=step, truth_only=True,
                )
                case = {"start": st.isoformat(), "start_fraction_ms": ms, "step": step}
                err, got = None, []
                try:
                    sc = scen.build(cfg)
                    for _ in range(n):
                        sc.stepForward()
                        sc.saveDatabaseOutput()
                    got = sorted(((float(e.julian_date), e.timestampISO) for e in sc.database.getData(Query(Epoch))))
                    clock_start = float(sc.clock.julian_date_start)
                except Exception as exc:  # noqa: BLE001
                    err = f"{type(exc).__name__}: {exc}"
                want = [st + timedelta(seconds=k * step) for k in range(n + 2)]
                ok = (err is None and [g[1] for g in got] == [w.isoformat(timespec="microseconds") for w in want]
                      and all(abs(g[0] - _ref_jd(w)) <= 2e-9 for g, w in zip(got, want))
                      and abs(clock_start - _ref_jd(st)) <= 2e-9)
                res.case(
                    "frac_start/epochs",
                    case,
                    ok,
                    nontrivial=True,
                    signature="C05/frac_start/epoch_jd_not_start_plus_k_step" if err is None else "C05/frac_start/error",
                    observed={"first": got[:2], "error": err},
                    expected={"first": [(_ref_jd(w), w.isoformat()) for w in want[:2]]},
                    item=item,
                )
                res.observe(got)
                res.states += n + 1
                res.transitions += n
                res.traces += 1


def run_item(item):
    res = fw.Result()
    kind = item[0]
    if kind == "day":
        _run_day(res, item)
    elif kind == "alldays":
        _run_alldays(res, item)
    elif kind == "sctime":
        _run_sctime(res, item)
    elif kind == "calendar_fields":
        _run_calendar_fields(res, item)
    elif kind == "duration":
        _run_duration(res, item)
    elif kind == "entry":
        _run_entry(res, item)
    elif kind == "host_tz":
        _run_host_tz(res, item)
    elif kind == "frac_start":
        _run_frac_start(res, item)
    else:
        raise ValueError(kind)
    return res
