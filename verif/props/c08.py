"""C08 - tasking bookkeeping exact and independent of the order parallel jobs finish.

Explorer B (verif/sched.py): explicit-state search over the completion orders of every job batch of the real
``Scenario.stepForward`` on small real networks, plus per-state bookkeeping invariants.
"""
from __future__ import annotations

import math
from datetime import datetime, timedelta

import numpy as np

from verif import canon, fakeray, sched, scen
from verif import framework as fw

from sqlalchemy import text  # noqa: E402

PROPERTY = "C08"
LEVEL = "model_checking"
RULE = (
    "for each network configuration: default-schedule run of N steps, then for every job batch (one JobExecutor.join) "
    "of that run every completion order (all n! Lehmer codes for n<=5 quick / n<=6 thorough, otherwise all orders with "
    "<=2 inversions) replayed on a fresh real Scenario over the fake-ray seam; canonical driver state compared after "
    "that join and after every step; bookkeeping invariants evaluated after every step of every run. non-trivial = a "
    "replayed order that differs from the default in a batch whose merges touch shared engine/agent state (n>=2); "
    "distinct by (config, batch index, Lehmer code). Deviation bound 2 (pairs/*): for a subset of the configurations "
    "every pair of batches is reordered together (all orders for batches of <=3 jobs quick / <=4 thorough, adjacent "
    "transpositions beyond), so the induction step of the single-batch argument is explored rather than assumed."
)
ASSUMPTIONS = [
    "Ray semantics as modelled by verif/fakeray.py: arguments/results pickled, wait() returns one finished job, the set "
    "of possible behaviours is the set of completion orders of each batch",
    "a job's result is a function of its pickled submission and its noise stream (keyed by submission ordinal); "
    "checked by re-executing memoised jobs in the thorough tier",
]
EXPECT_MIN_NONTRIVIAL = 20

START = datetime(2021, 3, 30, 16, 0, 0)
SITES = [(10.0, 20.0), (12.0, 27.0), (-4.0, 14.0), (20.0, 22.0)]
SUBPOINTS = [(9.0, 21.0, 20000.0, 90.0), (11.0, 25.0, 21000.0, 60.0), (2.0, 18.0, 19500.0, 120.0),
             (14.0, 23.0, 20500.0, 80.0), (6.0, 16.0, 22000.0, 100.0)]


def _network(n_sens, n_tgt, start, *, kind="adv_radar", fov=None, fovs=None, slew=3.0, **sensor_over):
    """``fovs``: per-sensor cone angles (deg) overriding ``fov`` -- lets one job carry a hit and a miss."""
    sensors = [
        scen.ground_sensor(20001 + i, *SITES[i], kind=kind,
                           fov=({"fov_shape": "conic", "cone_angle": fovs[i]} if fovs else None)
                           or fov or {"fov_shape": "conic", "cone_angle": 20.0},
                           slew_rate=slew, **sensor_over)
        for i in range(n_sens)
    ]
    targets = [scen.target_eci(10001 + j, *scen.overhead_orbit(start, *SUBPOINTS[j])) for j in range(n_tgt)]
    return targets, sensors


def _configs(tier):
    """name -> (config dict, n_steps)."""
    out = {}
    n_steps = 2 if tier == "quick" else 3

    cost_metrics = [{"name": "ShannonInformation", "parameters": {}}, {"name": "LyapunovStability", "parameters": {}},
                    {"name": "SlewDistanceMinimization", "parameters": {}}]

    def add(name, n_sens, n_tgt, decision, start=START, steps=n_steps, dparams=None, cfg_over=None, reward=None,
            far_target=False, events=None, second_engine=None, imported_sensors=False, **net):
        tg, ss = _network(n_sens, n_tgt, start, **net)
        if far_target:
            # last target sits 60 deg east: visible to none/one of the sites -> visibility rows differ between targets
            tg[-1] = scen.target_eci(tg[-1]["id"], *scen.overhead_orbit(start, 5.0, 95.0, 1500.0, 90.0))
        eng = scen.engine(1, tg, ss, decision=decision, dparams=dparams)
        if reward == "cost":
            eng["reward"] = {"name": "CostConstrainedReward", "metrics": cost_metrics, "parameters": {}}
        engs = [eng]
        if second_engine:
            # a second tasking engine with its own sensor and target; engine 1's sensors can see its target too
            tg2 = [scen.target_eci(10011, *scen.overhead_orbit(start, *SUBPOINTS[4]))]
            ss2 = [scen.ground_sensor(20011, *SITES[3], kind="adv_radar", fov={"fov_shape": "conic", "cone_angle": 20.0}, slew_rate=3.0)]
            engs.append(scen.engine(2, tg2, ss2, decision=second_engine))
        cfg = scen.config(start, steps + 1, engs, seed=3, events=events(start) if events else None)
        for k, v in (cfg_over or {}).items():
            cfg[k].update(v)
        if imported_sensors:
            cfg["_imported_sensors"] = name  # private key of this check (see _build_fn)
        out[name] = (cfg, steps)

    add("munkres_2x2", 2, 2, "MunkresDecision")
    add("munkres_2x3", 2, 3, "MunkresDecision")
    add("munkres_3x2_idle", 3, 2, "MunkresDecision")
    add("greedy_2x2", 2, 2, "MyopicNaiveGreedyDecision")
    add("allvisible_2x2", 2, 2, "AllVisibleDecision")
    add("random_2x2", 2, 2, "RandomDecision", dparams={"seed": 1})
    # both sensors tasked on the same target and both miss it (tiny field of view, large initial estimate error)
    add("greedy_same_target_miss", 2, 1, "MyopicNaiveGreedyDecision",
        fov={"fov_shape": "conic", "cone_angle": 0.001}, cfg_over={"noise": {"init_position_std_km": 200.0}})
    add("allvisible_miss_2x2", 2, 2, "AllVisibleDecision",
        fov={"fov_shape": "conic", "cone_angle": 0.001}, cfg_over={"noise": {"init_position_std_km": 200.0}})
    # MIXED outcome inside one job: both sensors tasked on the one target, the narrow one misses (field of view)
    # and the wide one observes -- the job result carries an observation and a miss of the same target
    add("greedy_same_target_mixed", 2, 1, "MyopicNaiveGreedyDecision", fovs=[0.001, 60.0],
        cfg_over={"noise": {"init_position_std_km": 30.0}})
    add("greedy_mixed_3x2", 3, 2, "MyopicNaiveGreedyDecision", fovs=[60.0, 0.001, 0.001],
        cfg_over={"noise": {"init_position_std_km": 30.0}})
    # (5 km prior: a larger one makes the UKF posterior indefinite once two precise tracks land in one step --
    # a conditioning limit of the non-linear filter, outside this property)
    add("allvisible_mixed_2x2", 2, 2, "AllVisibleDecision", fovs=[0.001, 60.0],
        cfg_over={"noise": {"init_position_std_km": 5.0}})
    add("munkres_2x2_sec37", 2, 2, "MunkresDecision", start=datetime(2021, 3, 30, 16, 0, 37))
    # heterogeneous reward rows (information/stability/slew metrics differ per pair) and visibility rows
    add("munkres_2x3_cost_far", 2, 3, "MunkresDecision", reward="cost", far_target=True)
    add("greedy_2x2_cost", 2, 2, "MyopicNaiveGreedyDecision", reward="cost")
    # output step twice the physics step: records of the non-output step wait in the hand-over buffer
    add("munkres_2x2_output120", 2, 2, "MunkresDecision", steps=max(n_steps, 2) + 2, cfg_over={"time": {"output_step_sec": 120}})
    add("greedy_miss_output120", 2, 1, "MyopicNaiveGreedyDecision", steps=4, fov={"fov_shape": "conic", "cone_angle": 0.001},
        cfg_over={"noise": {"init_position_std_km": 200.0}, "time": {"output_step_sec": 120}})
    # the engine's target / sensor lists CHANGE during the run (rows and columns of every matrix shift): a target whose
    # id sorts FIRST is added at step 2, the then-middle target is removed at step 3, a sensor sorting first is added
    def _set_changes(start):
        def at(k):
            return scen.iso(start + timedelta(seconds=60 * k))

        return [
            {"scope": "scenario_step", "scope_instance_id": 0, "start_time": at(2), "event_type": "target_addition",
             "tasking_engine_id": 1, "target_agent": scen.target_eci(10000, *scen.overhead_orbit(start, *SUBPOINTS[3]))},
            {"scope": "scenario_step", "scope_instance_id": 0, "start_time": at(3), "event_type": "agent_removal",
             "tasking_engine_id": 1, "agent_id": 10001, "agent_type": "target"},
        ]

    def _sensor_changes(start):
        def at(k):
            return scen.iso(start + timedelta(seconds=60 * k))

        return [
            {"scope": "scenario_step", "scope_instance_id": 0, "start_time": at(2), "event_type": "sensor_addition",
             "tasking_engine_id": 1, "sensor_agent": scen.ground_sensor(20000, *SITES[3], kind="adv_radar",
                                                                         fov={"fov_shape": "conic", "cone_angle": 20.0}, slew_rate=3.0)},
            {"scope": "scenario_step", "scope_instance_id": 0, "start_time": at(3), "event_type": "agent_removal",
             "tasking_engine_id": 1, "agent_id": 20001, "agent_type": "sensor"},
        ]

    add("munkres_1x2_target_set_changes", 1, 2, "MunkresDecision", steps=4, events=_set_changes)
    add("greedy_2x2_target_set_changes", 2, 2, "MyopicNaiveGreedyDecision", steps=3, events=_set_changes, reward="cost")
    add("munkres_2x2_sensor_set_changes", 2, 2, "MunkresDecision", steps=3, events=_sensor_changes)
    # the SENSORS follow imported ephemerides (importer database written by a truth-only run of the same network) while
    # tasking and observation stay real-time: bookkeeping and pointing state must not depend on where truth comes from
    add("munkres_2x2_sensors_imported", 2, 2, "MunkresDecision", cfg_over={"propagation": {"sensor_realtime_propagation": False}},
        imported_sensors=True)
    add("munkres_1x2", 1, 2, "MunkresDecision")
    add("munkres_1x1", 1, 1, "MunkresDecision")
    # two tasking engines side by side: each tasks only its own sensors against its own targets
    add("two_engines_munkres", 2, 2, "MunkresDecision", second_engine="MunkresDecision")
    add("two_engines_greedy_allvisible", 1, 2, "MyopicNaiveGreedyDecision", second_engine="AllVisibleDecision")
    if tier == "thorough":
        add("munkres_3x3", 3, 3, "MunkresDecision")
        add("munkres_4x4", 4, 4, "MunkresDecision")
        add("munkres_2x5", 2, 5, "MunkresDecision")
        add("greedy_3x3", 3, 3, "MyopicNaiveGreedyDecision")
        add("allvisible_3x3", 3, 3, "AllVisibleDecision")
        add("random_3x3", 3, 3, "RandomDecision", dparams={"seed": 1})
        add("munkres_2x2_optical", 2, 2, "MunkresDecision", kind="optical")
        add("munkres_2x2_widefov", 2, 2, "MunkresDecision", fov={"fov_shape": "conic", "cone_angle": 120.0})
    return out


_IMPORTERS = {}  # config name -> (scratch dir, importer file) of this process


def _importer_for(cfg, n_steps):
    """Importer database for a configuration whose SENSORS take their truth from imported ephemerides: written by a
    truth-only run of the same network (real-time propagation) into a scratch file, once per process."""
    import copy  # noqa: PLC0415
    import tempfile  # noqa: PLC0415

    key = cfg["_imported_sensors"]
    if key not in _IMPORTERS:
        tmp = tempfile.mkdtemp(prefix="verif_c08_")
        src = copy.deepcopy({k: v for k, v in cfg.items() if not k.startswith("_")})
        src["propagation"].update(truth_simulation_only=True, sensor_realtime_propagation=True)
        sc = scen.build(src, db_path=f"{tmp}/importer.sqlite3")
        for _ in range(n_steps + 1):
            sc.stepForward()
            sc.saveDatabaseOutput()
        scen.fresh()
        _IMPORTERS[key] = (tmp, f"{tmp}/importer.sqlite3")
    return _IMPORTERS[key][1]


def _drop_importers():
    import shutil  # noqa: PLC0415

    for tmp, _ in _IMPORTERS.values():
        shutil.rmtree(tmp, ignore_errors=True)
    _IMPORTERS.clear()


def _build_fn(cfg, n_steps=2):
    if cfg.get("_imported_sensors"):
        path = _importer_for(cfg, n_steps)
        clean = {k: v for k, v in cfg.items() if not k.startswith("_")}
        return lambda: scen.build(clean, importer_db_path=f"sqlite:///{path}")
    return lambda: scen.build(cfg)


# ------------------------------------------------------------------------------------------------ invariants
def _per_step(sc, k, rec):
    """Collect the facts the bookkeeping invariants need, right after step k (and its save)."""
    jd = float(sc.clock.julian_date_epoch)
    info = {"step": k, "jd": jd, "time": float(sc.clock.time), "engines": {}}
    with sc.database.engine.connect() as conn:
        obs_rows = conn.execute(text("SELECT sensor_id, target_id, julian_date FROM observations")).fetchall()
        miss_rows = conn.execute(text("SELECT sensor_id, target_id, julian_date FROM missed_observations")).fetchall()
    # everything stored so far (all epochs): compared cumulatively at every step that saves
    info["db_obs"] = sorted((int(r[0]), int(r[1]), float(r[2])) for r in obs_rows)
    info["db_miss"] = sorted((int(r[0]), int(r[1]), float(r[2])) for r in miss_rows)
    info["saved"] = bool(sc.clock.time % sc.output_time_step == 0)
    # independent pointing reference: unit slant-range vector (site horizon frame) from each sensor to the
    # *predicted* estimate of each target at this epoch (what the sensor is commanded to point at)
    from resonaate.physics.transforms.methods import getSlantRangeVector  # noqa: PLC0415

    pointing = {}
    for sid, sa in sc.sensor_agents.items():
        for tid, est in sc.estimate_agents.items():
            pred = np.asarray(est.nominal_filter.pred_x, dtype=float)
            if pred.shape != (6,):
                continue
            v = np.asarray(getSlantRangeVector(sa.eci_state, pred, sc.clock.datetime_epoch), dtype=float)[:3]
            pointing[(sid, tid)] = v / np.linalg.norm(v)
    info["pointing"] = pointing
    for eid, eng in sc.tasking_engines.items():
        info["engines"][eid] = {
            "decision": eng.decision_matrix.copy(),
            "visibility": eng.visibility_matrix.copy(),
            "targets": list(eng.target_list),
            "sensors": list(eng.sensor_list),
            "obs": [(o.sensor_id, o.target_id, float(o.julian_date)) for o in eng.observations],
            "miss": [(m.sensor_id, m.target_id, float(m.julian_date)) for m in eng.missed_observations],
        }
    info["configured"] = None
    if not sc.scenario_config.events:
        info["configured"] = {int(e.unique_id): (sorted(int(x.id) for x in e.sensors), sorted(int(x.id) for x in e.targets))
                              for e in sc.scenario_config.engines}
    info["sensor_state"] = {
        sid: (np.array(s.sensors.boresight, dtype=float).copy(), float(s.sensors.time_last_tasked))
        for sid, s in sc.sensor_agents.items()
    }
    # what each task-execution job of this step reported for the sensors it was given
    reported = {}
    for step, name, result in rec.deliveries:
        if step == k and name.endswith("asyncExecuteTasking"):
            for si in result.sensor_info_list:
                reported.setdefault(si["sensor_id"], []).append(
                    (np.array(si["boresight"], dtype=float), float(si["time_last_tasked"]), result.target_id)
                )
    info["reported"] = reported
    # multiset of records the task-execution jobs of this step returned
    job_obs, job_miss, job_primary = [], [], []
    for step, name, result in rec.deliveries:
        if step == k and name.endswith("asyncExecuteTasking"):
            job_obs += [(o.sensor_id, o.target_id, float(o.julian_date)) for o in result.observations]
            job_miss += [(m.sensor_id, m.target_id, float(m.julian_date)) for m in result.missed_observations]
            for si in result.sensor_info_list:
                sid = si["sensor_id"]
                n_o = sum(1 for o in result.observations if o.sensor_id == sid and o.target_id == result.target_id)
                n_m = sum(1 for m in result.missed_observations if m.sensor_id == sid and m.target_id == result.target_id)
                job_primary.append((sid, result.target_id, n_o, n_m))
    info["job_obs"], info["job_miss"], info["job_primary"] = sorted(job_obs), sorted(job_miss), job_primary
    info["slew_miss"] = {(m.sensor_id, m.target_id) for step, name, result in rec.deliveries
                         if step == k and name.endswith("asyncExecuteTasking")
                         for m in result.missed_observations if "slew" in str(m.reason).lower()}
    return info


def _check_invariants(res, cfg_name, code_label, rec, item):
    for info in rec.step_info:
        k = info["step"]
        # (0) every engine holds exactly the sensors and targets configured for it (no events in this configuration),
        #     and no sensor is tasked by two engines in one step
        if info.get("configured"):
            got = {eid: (sorted(e["sensors"]), sorted(e["targets"])) for eid, e in info["engines"].items()}
            res.case("bookkeeping/engine_membership", {"config": cfg_name, "schedule": code_label, "step": k},
                     got == info["configured"], nontrivial=len(got) > 1, key=f"{cfg_name}|{code_label}|{k}|membership",
                     signature="C08/bookkeeping/engine_membership_differs_from_configuration",
                     observed=got, expected=info["configured"], item=item)
        tasked_by = {}
        for eid, e in info["engines"].items():
            for si, sid in enumerate(e["sensors"]):
                if e["decision"][:, si].any():
                    tasked_by.setdefault(sid, []).append(eid)
        twice = {sid: v for sid, v in tasked_by.items() if len(v) > 1}
        res.case("bookkeeping/sensor_tasked_by_one_engine", {"config": cfg_name, "schedule": code_label, "step": k},
                 not twice, nontrivial=len(info["engines"]) > 1, key=f"{cfg_name}|{code_label}|{k}|one_engine",
                 signature="C08/bookkeeping/sensor_tasked_by_two_engines", observed=twice, item=item)
        for eid, e in info["engines"].items():
            dec = e["decision"]
            # (1) every tasked pair is executed by exactly one job, which returns exactly one primary record for it
            tasked = sorted((sid, tid) for ti, tid in enumerate(e["targets"]) for si, sid in enumerate(e["sensors"]) if dec[ti, si])
            prim = sorted((s, t) for (s, t, _o, _m) in info["job_primary"] if t in e["targets"] and s in e["sensors"])
            res.case(
                "bookkeeping/tasked_pairs_executed",
                {"config": cfg_name, "schedule": code_label, "step": k, "engine": eid},
                tasked == prim,
                signature="C08/bookkeeping/tasked_pairs_not_executed_once",
                observed={"executed": prim},
                expected={"tasked": tasked},
                item=item,
            )
            for (s, t, n_o, n_m) in info["job_primary"]:
                res.case(
                    "bookkeeping/primary_record",
                    {"config": cfg_name, "schedule": code_label, "step": k, "sensor": s, "target": t},
                    n_o + n_m == 1,
                    signature=f"C08/bookkeeping/primary_record/obs={n_o},miss={n_m}",
                    observed={"observations": n_o, "missed": n_m},
                    expected="exactly one primary record in the job result",
                    outcome=f"obs={n_o},miss={n_m}",
                    item=item,
                )
            # (2) the engine's lists and the stored rows are exactly the multiset union of the job results
            eng_obs = sorted(x for x in e["obs"] if x[2] == info["jd"])
            eng_miss = sorted(x for x in e["miss"] if x[2] == info["jd"])
            checks = [("engine_observations", eng_obs, info["job_obs"]), ("engine_missed", eng_miss, info["job_miss"])]
            if info["saved"]:
                # a saving step: everything the jobs returned since the start of the run is stored, exactly once
                all_obs = sorted(x for i2 in rec.step_info[: k + 1] for x in i2["job_obs"])
                all_miss = sorted(x for i2 in rec.step_info[: k + 1] for x in i2["job_miss"])
                checks += [("db_observations", info["db_obs"], all_obs), ("db_missed", info["db_miss"], all_miss)]
            for label, got, want in checks:
                if len(info["engines"]) > 1:
                    want = [x for x in want if x[0] in e["sensors"]]
                    got = [x for x in got if x[0] in e["sensors"]]
                kind = "same" if got == want else ("duplicated" if len(got) > len(want) else "lost" if len(got) < len(want) else "different")
                res.case(
                    f"bookkeeping/{label}",
                    {"config": cfg_name, "schedule": code_label, "step": k, "engine": eid, "n_records": len(want)},
                    got == want,
                    signature=f"C08/bookkeeping/{label}/{kind}",
                    observed=got[:6],
                    expected=want[:6],
                    outcome=kind,
                    item=item,
                )
            stale = [m for m in e["miss"] if m[2] != info["jd"]]
            res.case(
                "bookkeeping/missed_current_step_only",
                {"config": cfg_name, "schedule": code_label, "step": k, "engine": eid},
                not stale,
                signature="C08/bookkeeping/stale_missed_observations",
                observed={"stale": len(stale), "total": len(e["miss"])},
                expected="missed_observations holds the current step's records only",
                item=item,
            )
            # no record for a pair that was not tasked may claim to be a *missed* tasking
            for (s, t, jd) in e["miss"]:
                if jd != info["jd"]:
                    continue
                ti, si = e["targets"].index(t), e["sensors"].index(s)
                res.case(
                    "bookkeeping/miss_implies_tasked",
                    {"config": cfg_name, "schedule": code_label, "step": k, "sensor": s, "target": t},
                    bool(dec[ti, si]),
                    signature="C08/bookkeeping/miss_without_tasking",
                    observed="missed-observation record for an untasked pair",
                    expected="decision true",
                    item=item,
                )
            # sensor pointing state reflects the tasking
            for si, sid in enumerate(e["sensors"]):
                tasked_targets = [e["targets"][ti] for ti in range(len(e["targets"])) if dec[ti, si]]
                if not tasked_targets:
                    continue
                reports = info["reported"].get(sid, [])
                bore, tlt = info["sensor_state"][sid]
                match = any(np.allclose(bore, rb, rtol=0, atol=1e-12) and tlt == rt for rb, rt, _ in reports)
                # independent of what the job reported: a sensor that slewed points at (one of) its tasked target's
                # predicted position and was last tasked now; tolerance 1e-9 rad-equivalent (pure rotation arithmetic)
                slewed = [t for t in tasked_targets if (sid, t) not in info["slew_miss"]]
                if slewed:
                    want_dirs = [info["pointing"].get((sid, t)) for t in slewed]
                    points = any(w is not None and float(np.linalg.norm(bore - w)) < 1e-9 for w in want_dirs)
                    res.case(
                        "bookkeeping/sensor_points_at_tasked_target",
                        {"config": cfg_name, "schedule": code_label, "step": k, "sensor": sid, "targets": slewed},
                        # (1e-4 s: an agent whose truth is imported carries the epoch of its record, a Julian date with a
                        # resolution of 4e-5 s; a stale last-tasked time is off by a whole step)
                        points and abs(tlt - info["time"]) <= 1e-4,
                        signature="C08/bookkeeping/sensor_pointing_wrong",
                        observed={"boresight": bore, "time_last_tasked": tlt},
                        expected={"boresight_one_of": [w for w in want_dirs if w is not None], "time_last_tasked": info["time"]},
                        item=item,
                    )
                res.case(
                    "bookkeeping/sensor_state",
                    {"config": cfg_name, "schedule": code_label, "step": k, "sensor": sid, "n_jobs_for_sensor": len(reports)},
                    match,
                    signature="C08/bookkeeping/sensor_state_not_applied",
                    observed={"boresight": bore, "time_last_tasked": tlt},
                    expected=[{"boresight": rb, "time_last_tasked": rt, "target": t} for rb, rt, t in reports],
                    outcome="applied" if match else "not_applied",
                    item=item,
                )


# ------------------------------------------------------------------------------------------------ exploration
NOMEMO_CONFIGS = ("munkres_2x2", "greedy_2x2_cost")


def items(tier, seed):
    # one work item per (config, batch of the default run): the worker re-derives the default run (memoised jobs)
    out = []
    for name in _configs(tier):
        out.append((name, tier))
    # worker-side purity under reordering: no memo, one forked process per schedule
    for name in NOMEMO_CONFIGS:
        out.append((name, tier, None, "nomemo"))
    # deviation bound 2: two batches of one run reordered together (the induction step explored, not assumed)
    for name in PAIR_CONFIGS[tier]:
        for shard in range(PAIR_SHARDS):
            out.append((name, tier, None, "pairs", None, shard))
    return out


def bounds(tier, seed):
    return {
        "configs": {n: {"steps": s} for n, (c, s) in _configs(tier).items()},
        "full_permutation_limit": 5 if tier == "quick" else 6,
        "inversion_bound_beyond": 2,
    }


def _codes_for(n, tier):
    limit = 5 if tier == "quick" else 6
    if n <= limit:
        return list(sched.lehmer_codes(n)), None
    return list(sched.lehmer_codes(n, max_sum=2)), f"batch of {n} jobs: orders with <=2 inversions only"


PAIR_CONFIGS = {
    "quick": ["munkres_2x2", "greedy_same_target_mixed", "two_engines_greedy_allvisible", "munkres_2x2_sensor_set_changes"],
    "thorough": ["munkres_2x2", "greedy_same_target_mixed", "two_engines_greedy_allvisible", "munkres_2x2_sensor_set_changes",
                 "munkres_2x3", "greedy_mixed_3x2", "random_2x2", "munkres_2x2_output120", "munkres_1x2_target_set_changes",
                 "greedy_2x2_cost", "two_engines_munkres"],
}


PAIR_SHARDS = 6  # work items per configuration (the combinations are dealt round-robin)


def _pair_codes(n, tier):
    """Non-identity orders of one batch used in a two-batch deviation: all of them up to 3 jobs (quick) / 4 (thorough),
    otherwise the orders one adjacent transposition away from the default (reported as the bound)."""
    full = 3 if tier == "quick" else 4
    codes = sched.lehmer_codes(n) if n <= full else sched.lehmer_codes(n, max_sum=1)
    return [c for c in codes if any(c)]


def _run_pairs(res, name, tier, item):
    """Two-batch deviations: for every pair of batches (i < j) of the default run, every combination of a non-default
    order in batch i with a non-default order in batch j is replayed on a fresh scenario; the canonical state after
    every step must equal the default run's and the bookkeeping invariants must hold.  The single-batch search
    concludes by induction that combinations reach the same states; this family explores the first level of that
    induction directly, so an order dependence that needs two reordered batches to show (state carried from one
    batch's merge order into the next batch) is reached."""
    only = item[4] if len(item) > 4 else None  # replay: [bi, code_i, bj, code_j]
    shard = item[5] if len(item) > 5 else None
    ordinal = -1
    cfg, n_steps = _configs(tier)[name]
    fakeray.MEMO_ENABLED = True
    build = _build_fn(cfg, n_steps)
    base = sched.run(build, n_steps, (), per_step=_per_step)
    res.traces += 1
    if base.error:
        res.violate("run/error", {"config": name, "schedule": "default"}, signature="C08/run_error/default",
                    observed=base.error, item=item)
        return
    seen = {canon.state_hash(s) for s in base.step_states}
    multi_b = [(bi, b) for bi, b in enumerate(base.batches) if b["n"] >= 2]
    capped = sorted({b["n"] for _, b in multi_b if b["n"] > (3 if tier == "quick" else 4)})
    if capped and not shard:
        res.cap(f"pairs {name}: batches of {capped} jobs contribute adjacent transpositions only to two-batch deviations")
    for x, (bi, b1) in enumerate(multi_b):
        for bj, b2 in multi_b[x + 1:]:
            for c1 in _pair_codes(b1["n"], tier):
                for c2 in _pair_codes(b2["n"], tier):
                    if only is not None and [bi, list(c1), bj, list(c2)] != [only[0], list(only[1]), only[2], list(only[3])]:
                        continue
                    ordinal += 1
                    if only is None and shard is not None and ordinal % PAIR_SHARDS != shard:
                        continue
                    choices = [0] * b1["start"] + list(c1) + [0] * (b2["start"] - b1["start"] - len(c1)) + list(c2)
                    rec = sched.run(build, n_steps, choices, per_step=_per_step)
                    res.traces += 1
                    res.transitions += b1["n"] + b2["n"]
                    label = f"pair:{bi}:{''.join(map(str, c1))}+{bj}:{''.join(map(str, c2))}"
                    stepk = b2.get("step", 0)
                    multi = any(len(v) > 1 for k in {b1.get("step", 0), stepk} if k < len(base.step_info)
                                for v in base.step_info[k]["reported"].values())
                    case = {"config": name, "batches": [bi, bj], "kinds": [b1["kind"], b2["kind"]], "codes": [list(c1), list(c2)],
                            "decision": cfg["engines"][0]["decision"]["name"], "sensor_in_multiple_jobs_of_step": bool(multi)}
                    ritem = (name, tier, None, "pairs", [bi, list(c1), bj, list(c2)])
                    if rec.error:
                        res.violate("pairs/run_error", case, signature=f"C08/order_dependence/pairs/{b1['kind']}+{b2['kind']}/run_error",
                                    observed=rec.error, item=ritem, nontrivial=True, key=label + name)
                        continue
                    _check_invariants(res, name, label, rec, ritem)
                    same_struct = [(q["kind"], q["n"]) for q in rec.batches] == [(q["kind"], q["n"]) for q in base.batches]
                    diffs, where = [], ""
                    if same_struct:
                        for k, (sa, sb) in enumerate(zip(base.step_states, rec.step_states)):
                            d = canon.diff(sa, sb, exact=sched.default_exact)
                            seen.add(canon.state_hash(sb))
                            if d:
                                diffs, where = d, f"after_step{k}"
                                break
                    ok = same_struct and not diffs and len(rec.step_states) == len(base.step_states)
                    pclass = sched.path_class(diffs[0][0]) if diffs else ("batch_structure" if not same_struct else "")
                    res.case(
                        "pairs/one_successor", case, ok, nontrivial=True, key=f"pairs|{name}|{label}",
                        signature=f"C08/order_dependence/{b2['kind']}/{pclass}",
                        observed={"where": where, "diffs": [(p, str(u)[:80], str(v)[:80]) for p, u, v in diffs[:5]]},
                        expected="same canonical driver state as the default completion order",
                        outcome="same" if ok else f"differs:{pclass}", item=ritem,
                    )
                    res.observe(ok, pclass)
    res.states += len(seen)


def _run_nomemo(res, name, tier, item):
    """Every completion order of every batch, each in its own forked process with every job really executed: the
    states after each step must equal the default order's.  Catches results that depend on which job ran earlier in the
    same worker process (hidden module/class-level state), which memoised replays cannot see."""
    cfg, n_steps = _configs(tier)[name]
    n_steps = min(n_steps, 2)
    build = _build_fn(cfg, n_steps)
    base_states, err, trace = sched.run_forked(build, n_steps, ())
    res.traces += 1
    if err:
        res.violate("nomemo/run_error", {"config": name}, signature="C08/nomemo/run_error", observed=err, item=item)
        return
    batches, i = [], 0
    while i < len(trace):
        nn, j = trace[i][0], i
        while j < len(trace) and trace[j][0] == nn - (j - i) and trace[j][0] >= 2:
            j += 1
        batches.append((i, nn))
        i = max(j, i + 1)
    for bi, (start, nn) in enumerate(batches):
        codes, cap = _codes_for(nn, "quick")
        if cap:
            res.cap(f"nomemo {name} batch {bi}: {cap}")
        for code in codes:
            if not any(code):
                continue
            states, err, _ = sched.run_forked(build, n_steps, [0] * start + list(code))
            res.traces += 1
            res.transitions += nn
            diffs = []
            if not err:
                for sa, sb in zip(base_states, states):
                    diffs = canon.diff(sa, sb, exact=sched.default_exact)
                    if diffs:
                        break
            ok = not err and not diffs and len(states) == len(base_states)
            pclass = sched.path_class(diffs[0][0]) if diffs else ("run_error" if err else "")
            res.case(
                "nomemo/one_successor",
                {"config": name, "batch": bi, "n": nn, "code": list(code), "decision": cfg["engines"][0]["decision"]["name"],
                 "sensor_in_multiple_jobs_of_step": False},
                ok,
                nontrivial=True,
                key=f"nomemo|{name}|{bi}|{code}",
                signature=f"C08/order_dependence/nomemo/{pclass}",
                observed={"error": err, "diffs": [(p, str(x)[:80], str(y)[:80]) for p, x, y in diffs[:5]]},
                expected="same canonical state as the default order with every job really executed",
                outcome="same" if ok else f"differs:{pclass}",
                item=item,
            )
            res.observe(ok)
    res.states += len(base_states)


def run_item(item):
    name, tier = item[0], item[1]
    if len(item) > 3 and item[3] == "nomemo":
        res = fw.Result()
        _run_nomemo(res, name, tier, item)
        return res
    if len(item) > 3 and item[3] == "pairs":
        res = fw.Result()
        _run_pairs(res, name, tier, item)
        return res
    only = item[2] if len(item) > 2 else None  # replay: [batch index, code]
    cfg, n_steps = _configs(tier)[name]
    res = fw.Result()
    fakeray.MEMO_ENABLED = True
    build = _build_fn(cfg, n_steps)
    base = sched.run(build, n_steps, (), per_step=_per_step)
    res.traces += 1
    if base.error:
        res.violate("run/error", {"config": name, "schedule": "default"}, signature="C08/run_error/default",
                    observed=base.error, item=item)
        return res
    _check_invariants(res, name, "default", base, item)
    seen_states = {canon.state_hash(s) for s in base.step_states}
    for bi, b in enumerate(base.batches):
        if "state" in b:
            seen_states.add(canon.state_hash(b["state"]))
    res.transitions += sum(b["n"] for b in base.batches)
    res.observe([canon.state_hash(s) for s in base.step_states])

    for bi, b in enumerate(base.batches):
        n = b["n"]
        if n < 2:
            continue
        codes, cap = _codes_for(n, tier)
        if cap:
            res.cap(f"{name} batch {bi} ({b['kind']}): {cap}")
        for code in codes:
            if not any(code):
                continue
            if only is not None and (only[0] != bi or list(only[1]) != list(code)):
                continue
            choices = [0] * b["start"] + list(code)
            rec = sched.run(build, n_steps, choices, per_step=_per_step)
            res.traces += 1
            res.transitions += n
            label = f"batch{bi}:{b['kind']}:{''.join(map(str, code))}"
            stepk = b.get("step", 0)
            multi = any(len(v) > 1 for v in base.step_info[stepk]["reported"].values()) if stepk < len(base.step_info) else False
            case = {"config": name, "step": stepk, "batch": bi, "kind": b["kind"], "n": n, "code": list(code),
                    "decision": cfg["engines"][0]["decision"]["name"], "sensor_in_multiple_jobs_of_step": bool(multi)}
            ritem = (name, tier, [bi, list(code)])
            if rec.error:
                res.violate("order/run_error", case, signature=f"C08/order_dependence/{b['kind']}/run_error",
                            observed=rec.error, item=ritem, nontrivial=True, key=label + name)
                continue
            _check_invariants(res, name, label, rec, ritem)
            # same batch structure
            same_struct = [(x["kind"], x["n"]) for x in rec.batches] == [(x["kind"], x["n"]) for x in base.batches]
            diffs = []
            if same_struct and "state" in rec.batches[bi]:
                diffs = canon.diff(base.batches[bi]["state"], rec.batches[bi]["state"], exact=sched.default_exact)
                seen_states.add(canon.state_hash(rec.batches[bi]["state"]))
            where = "after_join"
            if same_struct and not diffs:
                for k, (sa, sb) in enumerate(zip(base.step_states, rec.step_states)):
                    d = canon.diff(sa, sb, exact=sched.default_exact)
                    seen_states.add(canon.state_hash(sb))
                    if d:
                        diffs, where = d, f"after_step{k}"
                        break
            ok = same_struct and not diffs
            pclass = sched.path_class(diffs[0][0]) if diffs else ("batch_structure" if not same_struct else "")
            res.case(
                "order/one_successor",
                case,
                ok,
                nontrivial=True,
                key=f"{name}|{bi}|{code}",
                signature=f"C08/order_dependence/{b['kind']}/{pclass}",
                observed={"where": where, "diffs": [(p, str(x)[:80], str(y)[:80]) for p, x, y in diffs[:5]]},
                expected="same canonical driver state as the default completion order",
                outcome="same" if ok else f"differs:{pclass}",
                item=ritem,
            )
            res.observe(ok, pclass)
    res.states += len(seen_states)
    res.extra["memo_hits"] = fakeray.STATS["memo_hits"]
    _drop_importers()
    return res


def finalize(tier, seed, results):
    """Thorough tier: purity of jobs - re-execute one run per configuration with the memo disabled and require
    byte-identical step states (a job whose result depended on anything but its submission would differ)."""
    if tier != "thorough":
        return None
    res = fw.Result()
    for name, (cfg, n_steps) in _configs(tier).items():
        fakeray.MEMO_ENABLED = True
        a = sched.run(_build_fn(cfg, n_steps), n_steps, ())
        fakeray.MEMO_ENABLED = False
        fakeray.MEMO.clear()
        b = sched.run(_build_fn(cfg, n_steps), n_steps, ())
        fakeray.MEMO_ENABLED = True
        d = []
        for sa, sb in zip(a.step_states, b.step_states):
            d = canon.diff(sa, sb)
            if d:
                break
        res.case("memo/job_purity", {"config": name}, not d, signature="C08/harness/job_not_pure",
                 observed=[(p, str(x)[:60], str(y)[:60]) for p, x, y in d[:3]], item=(name, tier))
    return res
