"""C03 - orbit propagation is composable, batch-consistent, Kepler-exact and conservative.

Lattice explorer on the real ``TwoBody`` / ``SpecialPerturbations`` dynamics (``Celestial.propagate`` and
``propagateBulk``), both integrators, against (a) the real code called in a different decomposition (split points,
batch columns, output grids, start-epoch shifts, a stop-and-restart forced by an integration event, physics steps of a
propagation with the library's station keepers attached) and (b) an
independent closed-form Kepler reference (``verif/oracles/kepler_ref.py``).  ``solveKeplerProblemUniversal`` and the
helpers of ``physics/orbits/utils.py`` it relies on are compared with the same reference.

Tolerances (all derived here, see ``tol_pos``):

* integrator tolerance.  ``Dynamics.RELATIVE_TOL = 1e-10`` accepts a step whose scaled error is <= 1, i.e. a local
  position error of about ``eps_loc = rtol * |r|`` (7e-7 km in LEO).  A local position error changes the semi-major
  axis and is amplified along-track by 6*pi per revolution, so the global error grows quadratically with the number
  of revolutions: ``E(T) ~ eps_loc * (c0 + c2 * revs^2)``.  Measured on the current tree (both integrators, Kepler
  reference): worst 8.9e-4 km after one LEO day (15.5 revs), 2.8e-6 km after a LEO hour; the a-priori bound
  n_steps * sqrt(6) * eps_loc * (1 + 6 pi revs) is ~1 km for a LEO day.  The tolerance is
  ``1e-9 + 30 * eps_loc * (1 + 20 revs^2)`` km (0.1 km for a LEO day, 2e-4 km for a LEO hour): the worst measured
  error/tolerance ratio over the thorough lattice and VERIF_SEED in {0,1,2,7,12345} is 0.073 (>= 13x margin; the
  evidence file reports the ratio of every run), >= 10x below the a-priori bound, and >= 100x below the layout /
  restart / epoch defects seeded during development (km-level; the smallest, an epoch that ignores the elapsed time
  under SP, is 4e-2 km per 1000 s of shift and LEO hour).  Two results that are each within E of the truth differ
  by <= 2E.  Velocity tolerance = position tolerance * perigee angular rate (+1e-12 km/s).
* ``solveKeplerProblemUniversal`` stops when the universal anomaly moves by < ``_ATOL`` = 1.48e-8 sqrt(km) and evaluates
  f, g with the new chi but the Stumpff terms of the previous iterate; the resulting position error is bounded by
  _ATOL * (sqrt(2 r) + sqrt(a) + 2 a v0 / sqrt(mu)) (derivation in ``_tol_universal``; measured worst 0.5 of that bound
  over 13 seeds, 4.7e-6 km).  Tolerance 2x the bound + 1e-8 km.
* start-epoch shift under SP: the two runs see forces that differ by the rounding of the Julian date (resolution
  4e-5 s); that is enough to flip one accept/reject decision of the step-size controller, after which the two
  trajectories differ by up to the integrator's own global error E(T) (measured: 1.6e-8 km at T = 300 s with DOP853,
  i.e. 0.02 E-envelopes; RK45 stays at 1e-11).  Tolerance = tol_pos / 5 = 6 E-envelopes (4e-5 km for a LEO hour); an
  epoch that ignores or mis-scales the elapsed time is off by the shift itself (1000 s => 4e-2 km per LEO hour).
* propagateBulk output between step ends comes from the integrator's dense-output interpolant, whose error is not
  what rtol controls (measured <= 3x the step-end error): tolerance 3 * tol_pos for grid outputs.
* conservation: an energy error dE/E equals da/a; the along-track drift 3 pi revs da stays below the position
  envelope E(T), so |dE/E| <= E(T) / (3 pi revs a) ~ rtol (2 + 20 revs^2) / (10 revs), i.e. linear in revs for
  long spans; measured worst 1.1e-9 (RK45, one LEO hour) and 1.3e-9 (one LEO day).  Tolerance
  1e-12 + 300 * rtol * (1 + 2 revs) (7e-8 for a LEO hour: 60x the measured value; any force or layout slip changes
  the energy by > 1e-6), same for |h| and the direction of h (radians).
* epoch split (dynamics built by ``dynamicsFactory`` from a ``ScenarioClock`` that already shows T elapsed seconds, the
  way ``Scenario.addTarget`` / ``addSensor`` build them for agents added mid-run): against the same factory called with
  a clock restarted at the same absolute instant (start S+T, time 0) or split elsewhere (start S+T1, time T-T1) the two
  runs differ by the Julian-date rounding only, i.e. the start-epoch-shift tolerance tol_pos / 5 above.  Against the
  independent absolute-epoch reference trajectory (``verif/oracles/c03_sp_ref.py``: C13's reference force model,
  DOP853 at rtol 1e-12, i.e. 100x tighter than the library) the difference is the library's own global error E(T)
  plus the force-model disagreement that C13 bounds: tolerance tol_pos (measured worst ratio 0.06 without SRP over the
  thorough lattice and ten seeds of the quick one).  With SRP the library's DOP853 mis-times eclipses (see ``_Ctx``)
  while the reference (rtol 1e-12) resolves them, so the comparison is one-sided and was measured at up to 8.3e-4 km /
  9.4e-7 km/s for a LEO hour; no tight bound follows from the step size, so the allowance is twice the largest effect
  SRP has at all (with - without SRP over an hour, six seeds, all lattice orbits: 3.3e-3 km, 4.1e-6 km/s, i.e. 0.93
  a_srp T^2 and 4.2 a_srp T): 2 a_srp T^2 and 8 a_srp T; the SRP configurations are decided by the factory-vs-factory
  comparisons and the twins, the reference only excludes gross slips there.  An elapsed time counted twice moves the
  force-model epoch by T: measured 2.6e-4 km (T = 600 s, 300 s span, LEO, 4x4 field) to 1e-2 km (T = 2400 s, one
  hour), 50x-300x the tolerance; every case reports that measured sensitivity and is non-trivial only above 100x.
  A satellite added at T with exactly the state of one present from the start calls the same function with the same
  arguments from then on: the two truth states must be bit-identical (no tolerance).
* start epochs and start-date shifts that are NOT whole seconds (a start timestamp with milliseconds, a Julian date
  typed by hand, shifts of 0.4 / 0.5 / 1800.4 / 86400.25 s): an epoch that is snapped to a grid in one split and not in
  the other is off by <= 0.5 s.  The tolerances above cannot see that through ``propagate``: measured over LEO orbits
  (a 6600..7500 km, 2x2 .. 8x8 fields, with and without Sun/Moon) a 0.5 s slip of the force-model epoch moves the state
  by 0.01 - 0.16 start-epoch-shift tolerances after 300 s, 0.1 - 1.0 after 1800 s, 0.05 - 1.5 after an hour and 0.04 - 0.4
  after two hours (the effect and the tolerance both grow with the square of the span; higher orbits are worse: the
  tesseral field falls off with r^-4, the tolerance grows with r), so no span / orbit of the lattice resolves it.  The
  fractional shifts run through the comparisons above unchanged (same tolerances) and two subchecks were added:
  - force_epoch: the derivative the integrator sees (``_differentialEquation``, the property's anchor, where the epoch is
    formed as start date + elapsed seconds) is evaluated for every split of one absolute instant and compared with the
    other split and with the acceleration of the independent reference force model at that absolute instant.  Error
    source: the Julian dates of two splits differ by their rounding (datetimeToJulianDate, jd + D / 86400, jd + t / 86400:
    <= 4 ulp of 2.46e6 d = 1.6e-4 s; the sidereal angle, the third-body and the Sun positions are computed from that
    Julian date; the datetime the library derives from it, rounded to the millisecond, only feeds precession / nutation,
    1e-11 rad per second).  All instants of this subcheck are whole milliseconds, so that even that rounding is the same
    for every split.  Tolerance = EPOCH_RES_S = 5e-3 s (30x the rounding bound) times the reference's own
    rate of change of the acceleration with the epoch at fixed state (difference over one second; 1e-11 km/s^2 per s in
    LEO with a tesseral field, 1e-14 at GEO or with zonals + Moon + SRP only) + 4e-15 |a| (18 eps) for the summation of
    the terms (library - reference measured <= 3.7 eps |a| where the rate term vanishes).  Measured worst ratio 0.08; a
    0.25 s slip is 50 tolerances in LEO with a tesseral field and >= 20 in every configuration (the equivalent epoch slip
    of every case is reported as ``epoch_slip_equivalent_s``); non-trivial when 0.25 s of epoch exceeds 10 tolerances.
  - epoch_resolution: the propagated states of two splits, RK45 on force models without SRP, spans >= 300 s.  Two error
    sources: (a) the Julian-date rounding above acts at every force evaluation of an integration, so the two runs see
    epochs up to 1.6e-4 s apart: 5e-3 s (x30) times the measured effect of moving the epoch by one second,
    max(|dr|, |dv| / perigee rate); (b) those tiny force differences move the step-size controller (step sizes, rarely
    an accept/reject decision), which changes the result by a fraction of the integrator's own error:
    measured over 7280 RK45 comparisons (30 orbits a <= 12000 km, spans 300 / 1800 / 3600 s, whole / millisecond /
    typed-Julian-date starts, shifts 0.4 .. 86400.25 s, four seeds) <= 5.6e-5 tol_pos and 8.8e-5 tol_vel; floor
    tol_pos / 1000.  Worst measured error / (a + b) 0.067; a 0.25 s slip is 4 - 42 tolerances in LEO after 1800 s and an
    hour, 0.4 - 38 after 300 s (median 20-25, >= 9 for 90 % of the cases at every span); a case is non-trivial when a
    0.25 s slip exceeds 4 tolerances.  DOP853
    is not eligible: with 12-30 steps per LEO hour its controller noise was measured at up to 0.09 s of equivalent
    epoch slip (RK45: 4.6e-3 s at 300 s, 7.7e-4 s at an hour), so DOP853 configurations are decided by force_epoch.
* station keeping (propagation WITH StationKeeper events, which the first clause of the property covers as well: the truth of
  a station-kept satellite must not depend on the physics step).  A keeper is a state-dependent event: it compares the
  satellite's Earth-fixed longitude / latitude (GEO EW / NS) or its semi-major axis (LEO) with the slot it was built from
  and, past a documented threshold, applies an impulsive burn.  Decompositions compared: one call over the span against the
  span cut into equal steps of 60 / 120 / 300 / 600 s, one uneven two-leg split, a (6, 1) batch of one and propagateBulk;
  before every call the keepers get the FK5 reductions of the call's start instant, as PropagateRegistration.generateSubmission
  does.  Tolerances: the states of two decompositions agree within tol_pos / tol_vel of the span (the split tolerance above:
  measured worst ratio 0.012 without burns and with burns at the start of the span).  Burn sequences: same number, same
  keeper; a burn dv applied dt earlier or later moves the state by dv dt, so the burn times must agree within tol_pos / dv
  (>= 1e-6 s for the rounding of the time itself) and the sizes within tol_vel.  Independent expectation: the targets are
  constructed relative to the keepers' documented thresholds with margins of >= 0.048 deg (35 km) / 0.5 km, so whether a
  burn is due at all, and that a trigger which is already set when a call starts is applied at that very time, is known
  without the library (table SK_TARGETS).  Scenario level: a satellite whose keepers never trigger must fly bit-identically to
  the same satellite without keepers (an event function without a sign change does not influence solve_ivp's steps).
  Known finding F-C03-2 (open): a trigger that arises INSIDE a call is located at the end of the integrator step that saw it
  (flag-valued event function), so those burn times depend on the decomposition (two-body: 0.08 km after half an hour); the
  violations of targets whose thresholds are crossed inside the span carry the suffix /trigger_inside_span when a burn
  strictly inside the span was recorded.  Targets that stay inside their box never get that suffix: the seeded slip "Earth-fixed
  frame of the keeper frozen at the start of the call" (spurious burn 120 s into every call longer than that) gives 7e-3 km
  and unexpected burns there, 50 tolerances.
* stale schedules (propagation WITH scheduled events - ECI / NTW impulses, finite NTW burns - where every leg of a split is
  handed the FULL, un-pruned schedule: events that lie before the start of a call are over, events after its end are not due;
  the scenario loop prunes the queue before every step, a caller of propagate / propagateBulk or a filter handed a queue need
  not).  States: split against direct call and against the segment-wise reference.  Error source: the integrator error E(T) of
  the span, and at every event stop scipy hands back the dense-output interpolant at the event time instead of a step end (the
  restart subcheck sees 0.09 tol_pos for one stop), so every state of this family, propagate and propagateBulk alike, gets the
  dense-output allowance of the output grids: 3 * tol_pos / 3 * tol_vel of the span.  Measured worst error / (3 tol_pos): 0.03
  quick tier (five seeds), 0.10 thorough (DOP853, a = 12000 km, e = 0.4, one hour, three stops: 8 steps per hour make its
  interpolant the coarsest).  The smallest event of the table is 3e-3 km/s (a 150 s burn at 2e-5 km/s^2) or 5e-3 km/s
  (impulse): applied twice, not at all, or at another event's time >= 0.02 spans away it moves the state by >= 5e-3 km/s x 6 s =
  3e-2 km for the 300 s span (tolerance 7e-5 km) - > 2 orders of margin.  Reference: event-free coasts (two-body: closed-form Kepler; SP: the real code without events) between
  the event times, delta-v added by hand, thrust arcs integrated here with DOP853 at rtol 1e-12 (100x tighter than the library).
  Event records: the number of EventStack records of every call equals the
  number of events due in that call (exact, no tolerance) - a second observation channel that names the event kind applied
  once too often / too few.  Events exactly on a call boundary are excluded (the impulse's event function is zero at its own
  time in both calls: whose event it is is not defined by the property); every event is >= 0.02 spans (6 s) from every split
  point, output time and other event.
"""
from __future__ import annotations

import logging
import math
import os
import signal
import time
from datetime import datetime, timedelta

import numpy as np
from scipy.integrate import solve_ivp

from verif import framework as fw
from verif import fakeray

fakeray.install()  # keeps the real ray out of the worker processes; nothing here needs a cluster
from verif import scen  # noqa: E402  (real Scenario / ScenarioClock over the fake-ray seam, for the epoch-split family)
_lg = logging.getLogger("resonaate")
if not _lg.handlers:
    _lg.addHandler(logging.NullHandler())
_lg.setLevel(100)
_lg.propagate = False

from verif.oracles import c03_sp_ref as spref  # noqa: E402
from verif.oracles import kepler_ref as kr  # noqa: E402

from resonaate.data import setDBPath  # noqa: E402
from resonaate.dynamics import dynamicsFactory  # noqa: E402
from resonaate.dynamics.dynamics_base import Dynamics  # noqa: E402
from functools import partial  # noqa: E402

from resonaate.agents.agent_base import Agent  # noqa: E402
from resonaate.dynamics.integration_events.event_stack import EventRecord, EventStack  # noqa: E402
from resonaate.dynamics.integration_events.finite_thrust import ScheduledFiniteBurn, ntwBurn  # noqa: E402
from resonaate.parallel.key_value_store import KeyValueStore  # noqa: E402
from resonaate.physics.transforms.reductions import ReductionParams  # noqa: E402
from resonaate.scenario.config.platform_config import SpacecraftConfig  # noqa: E402
from resonaate.dynamics.integration_events.scheduled_impulse import ScheduledECIImpulse, ScheduledImpulse, ScheduledNTWImpulse  # noqa: E402
from resonaate.dynamics.special_perturbations import SpecialPerturbations  # noqa: E402
from resonaate.dynamics.two_body import TwoBody  # noqa: E402
from resonaate.physics.bodies import Earth  # noqa: E402
from resonaate.physics.orbits import kepler as rkep  # noqa: E402
from resonaate.physics.orbits import utils as rut  # noqa: E402
from resonaate.physics.time.stardate import JulianDate, ScenarioTime, datetimeToJulianDate  # noqa: E402
from resonaate.scenario.clock import ScenarioClock  # noqa: E402
from resonaate.scenario.config.agent_config import AgentConfig  # noqa: E402
from resonaate.scenario.config.geopotential_config import GeopotentialConfig  # noqa: E402
from resonaate.scenario.config.perturbations_config import PerturbationsConfig  # noqa: E402
from resonaate.scenario.config.propagation_config import PropagationConfig  # noqa: E402

PROPERTY = "C03"
LEVEL = "model_checking"
RULE = (
    "every (dynamics, integrator, span T, start time, orbit) of the announced lattice is propagated by the real "
    "code as a whole, split at every listed fraction (2 legs) and 3-way, as a column of a (6,K) batch (every column "
    "of every K is an orbit that is compared with its own single call), through propagateBulk on every listed "
    "output grid (1-D and (6,K) layouts) against separate calls, with a state-change event forcing a stop/restart "
    "at a listed fraction against the same split done by hand, and (SP) from every shifted start epoch "
    "(jd0+D, t-D); two-body results and solveKeplerProblemUniversal are compared with an independent closed-form "
    "Kepler reference and with energy / angular-momentum conservation. A case is non-trivial when the decomposition "
    "differs from the single call (split strictly inside, K>1, >=2 output times, restart strictly inside, D != 0 "
    "with a measured uncompensated epoch sensitivity > 100 tolerances) and, for Kepler/conservation cases, when the "
    "non-linear part of the motion |r(T) - r0 - v0 T| exceeds 1000 tolerances. Epoch-split family (SP, time-dependent "
    "force models: tesseral field, third bodies, SRP): for every (configuration, orbit, span, elapsed time T of the "
    "listed alphabet, integrator) the dynamics object is built by the real dynamicsFactory from a real ScenarioClock "
    "(start S) ticked to T - the way Scenario.addTarget/addSensor build it for an agent added mid-run - and "
    "propagated T -> T+span; it is compared with the factory called on a clock restarted at the same instant (start "
    "S+T, time 0), on a clock split elsewhere (start S+T1, time T-T1) and with an independent reference trajectory "
    "integrated at the absolute epoch S+T; non-trivial when T > 0 and the measured effect of counting T twice exceeds "
    "100 tolerances. Twin family: a real truth-only Scenario flies satellite A from the start; at T a target (dict "
    "and AgentConfig forms of Scenario.addTarget) and a space sensor (addSensor) are added with exactly A's state, "
    "and in a second run (configurations without SRP: the events do not carry the platform's mass / area) by "
    "target_addition / sensor_addition events; every twin's state at every later step, and "
    "one step of its truth and filter dynamics objects, must be bit-identical to A's; non-trivial when T > 0. "
    "Fractional seconds: every SP start-epoch-shift case also runs the shifts 0.4 / 0.5 / 1800.4 / 86400.25 s (spans >= 300 s; "
    "configurations with a tesseral field) and, for RK45 up to 300 s (thorough: up to an hour), from a start epoch with "
    "milliseconds (S + 0.224 s) and from a Julian date typed with five decimals (.58116), each shifted by 0.4 and 1000 s; every "
    "epoch-split case with T > 0 gets one more split (S + d, T - d) with d one of 0.4 / 0.5 / 1800.4 / 86400.25 s (clock ticked to "
    "T - d by a partial tick), and the low orbits are repeated from a start timestamp with milliseconds. All of them go through "
    "the comparisons above and through two more: force_epoch - _differentialEquation of every split object at both ends of the "
    "span (epoch-shift family: three start kinds x all whole and fractional shifts; epoch-split family: every factory-built "
    "object) against the other split and against the reference force model at the absolute instant, tolerance = 5 ms of epoch; "
    "non-trivial when the split differs (D != 0, T > 0 or fractional start) and 0.25 s of epoch exceeds 10 tolerances - and "
    "epoch_resolution - propagated states of two splits under RK45 without SRP within 5 ms of measured epoch sensitivity + "
    "tol_pos/1000; non-trivial when a 0.25 s epoch slip exceeds 4 tolerances. "
    "Station-keeping family (propagation WITH the library's StationKeeper events GEO EW / GEO NS / LEO, built by "
    "Agent._createStationKeepers from the slot state at scenario time 0 and given the reductions of every call's start instant "
    "as PropagateRegistration.generateSubmission does): for every (dynamics: two-body and SP configurations, integrator, target of "
    "the table SK_TARGETS - GEO on station / inside the 0.5 deg box east and west with a semi-major-axis offset / inclined 0.5 deg / "
    "outside the box with and without semi-major-axis offset / leaving the box inside the span, LEO on station / 1.5 km low / 3 km "
    "low / eccentric slot -, start time 0 and 7200 s, span 600 / 1800 / 3600 s) the span is propagated in one call and cut into every "
    "listed step (60 / 120 / 300 / 600 s) that divides it, as two uneven legs (0.37), as a (6,1) batch of one and through propagateBulk; "
    "every decomposition is compared with the single call (state within the split tolerance; number, keeper, time and size of the "
    "burns), with the burns the keepers' documented thresholds call for (none / exactly one at the start / first at the start) and "
    "with the EventStack records (one per burn); non-trivial when the decomposition differs from the single call and keepers "
    "are attached. Scenario level: a real truth-only Scenario with global station keeping flies three quiet targets at physics "
    "steps 600 / 300 / 60 s; truth at the common times 600 / 1200 / 1800 s against the 60 s run (split tolerance) and against "
    "the same scenario without station keeping (bit-identical). "
    "Stale-schedule family (propagation WITH scheduled events: ScheduledECIImpulse / ScheduledNTWImpulse / ScheduledFiniteBurn): for "
    "every (dynamics: two-body and one SP configuration, integrator, orbit, span/start time, schedule of the table ST_SCHEDULES - 2-3 "
    "events: impulse pairs and triples, impulse + finite burn in the second leg, a finished finite burn + impulse, a burn straddling the "
    "split points between two impulses; plus, for start times > 0, an impulse from before the start of the span left in the list) the "
    "span is propagated directly and split into two (0.5) and three (0.45, 0.72) legs with every leg handed (a) the full schedule as "
    "fresh event objects, (b) the full schedule as the same objects in every leg, (c) the schedule pruned of finished events (control); "
    "propagateBulk (6,1) over the whole span and as two calls split at 0.5 with full and pruned schedules; every result is compared with "
    "the direct call and with a segment-wise reference (event-free coasts, delta-v added by hand, thrust arcs integrated here), and the "
    "EventStack records of every single call are counted against the events due in that call; non-trivial when the events move the "
    "state by > 1000 tolerances and (full schedules) at least one leg holds both an event from before its start and an event inside it. "
    "Force-batch family (the per-member loop of _differentialEquation, TwoBody and SP): for every (dynamics: two-body, sp_g4, J2 + general "
    "relativity, J2 + Moon + SRP, 3x3 + Sun/Moon/Jupiter + SRP + general relativity; finite-thrust callback none / ntwBurn / spiralThrust / "
    "planeChangeThrust installed on the object; elapsed time 0 / 5400 s; batch size K = 2 / 3 / 5 / 13; every cyclic window of 13 orbits with "
    "different radii, eccentricities and inclinations) the derivative of the stacked (6K,) vector is compared, column by column, with the "
    "derivative of the member alone (acceleration within 1e-13 mu/r^2, velocity part bit-identical); non-trivial by construction (K >= 2, members "
    "are different orbits, so a term formed from another member's position or velocity differs by >= 1000 tolerances). "
    "Distinct by construction (lattice points); VERIF_SEED rotates RAAN/argument of perigee/third anomaly, the SP "
    "start day, the batch column assignment and the orbit assignment of the epoch-split / twin / stale-schedule items."
)
ASSUMPTIONS = [
    "closed-form conic relations (Kepler's equation in E/F, Barker's equation) in verif/oracles/kepler_ref.py are the "
    "two-body truth; Earth.mu is compared with the EGM-96 value 398600.4415",
    "scipy.integrate.solve_ivp honours rtol/atol (integrator correctness itself is not re-verified)",
    "the force model value of SpecialPerturbations is the subject of C13; here only its dependence on (epoch, state)",
    "events used to force a restart are test doubles deriving from DiscreteStateChangeEvent with a constant state "
    "change; scheduling/queueing of real impulses belongs to C01/C15",
    "stale-schedule family: the library's own event classes are used as they are; the meaning of an event (delta-v added once at its "
    "time, ECI or NTW components with T along the velocity, W along r x v, N = T x W; constant NTW acceleration between start and end "
    "time) is taken from their docstrings; the reference coasts are the closed-form Kepler reference (two-body) or the real code "
    "called without events (SP: the decomposition oracle of the restart subcheck), the thrust arcs scipy DOP853 at rtol 1e-12 on the "
    "event-free derivative; applied events are counted through the EventStack records in the key-value store (fake-ray seam); an "
    "event exactly on a call boundary is outside the family",
    "epoch-split reference trajectory: C13's independent force model (verif/oracles/force_ref.py) evaluated at "
    "absolute UTC instants, the library's public ecef2eci for the Earth orientation (C04's subject), scipy DOP853 at "
    "rtol 1e-12",
    "force_epoch subcheck: SpecialPerturbations._differentialEquation(t, state) is the function solve_ivp integrates (it is "
    "called with a plain float time and a 1-D state, as scipy does); the reference acceleration is C13's independent force "
    "model at the absolute UTC instant, with the library's public ecef2eci for the Earth orientation",
    "twin family, event variant: a scenario_step target_addition / sensor_addition event whose start_time is the end "
    "of the step T -> T+dt is applied at clock time T, before that step is propagated (event timing is C01's "
    "subject; a change there shows under the twin/added_by_event signatures only)",
    "station-keeping family: the burns are observed through a recording wrapper placed on each keeper's getStateChange "
    "(instance attribute; it returns the library's own value) and through the EventStack records in the key-value store "
    "(fake-ray seam); whether a burn is due follows from the thresholds documented in station_keeping.py (0.5 deg, 1 deg, "
    "2 km, 1e-6 / 1e-3 km/s) applied to targets constructed with margins (>= 0.048 deg, 0.5 km) - the burn formulae "
    "themselves are not re-derived; GEO slots within 2 deg of the +-180 deg meridian are moved (longitude wrap of the "
    "keeper is not C03's subject); the direct items hand the reductions over by hand the way "
    "PropagateRegistration.generateSubmission does, the scenario items go through that function itself",
]
EXPECT_MIN_NONTRIVIAL = 10000

RTOL = 1e-10  # Dynamics.RELATIVE_TOL the tolerances were calibrated for (checked in the helpers item)
ATOL = 1e-12
MU = kr.MU_EARTH
CHI_ATOL = 1.48e-8
DENSE_FACTOR = 3.0

AE = [(6800.0, 0.0), (7500.0, 0.1), (12000.0, 0.4), (26560.0, 0.7), (42164.0, 0.0), (60000.0, 0.3)]
INC = [0.0, 28.5, 90.0, 150.0, 180.0]
NU = [0.0, 90.0, 200.0]
METHODS = ["RK45", "DOP853"]
SHORT_SPANS = [1.0, 10.0, 300.0, 3600.0]
FRACS_FULL = [1e-6, 0.37, 0.5, 1.0 - 1e-6]
FRACS_LEAN = [0.37, 1.0 - 1e-6]
THREE_WAY = (0.25, 0.8)
GRID3 = [1.0 / 3.0, 2.0 / 3.0, 1.0]
GRID10 = [0.013, 0.05, 0.11, 0.23, 0.37, 0.5, 0.62, 0.81, 0.97, 1.0]
BATCH_PATTERN = [13, 13, 13, 13, 13, 13, 3, 3, 3, 2, 1]  # 90 orbits
SP_CFG = {
    # name: (degree, order, third bodies, srp, general relativity)
    "sp_g4": (4, 4, [], False, False),
    "sp_g2sm": (2, 2, ["sun", "moon"], False, False),
    "sp_g3all": (3, 3, ["sun", "moon", "jupiter"], True, True),
    "sp_g8": (8, 8, [], False, False),
    # solar radiation pressure WITHOUT the Sun among the third bodies (the force model then fetches the Sun itself)
    "sp_srp": (2, 0, ["moon"], True, False),
    # general relativity alone on top of J2 (force_batch family: a term that needs the member's own velocity)
    "sp_gr": (2, 0, [], False, True),
}
# force_batch family: _differentialEquation on the stacked (6K,) vector of a (6,K) batch against the same function on each member
FB_CFGS = ["twobody", "sp_g4", "sp_gr", "sp_srp", "sp_g3all"]  # sp_g3all: third bodies + SRP + general relativity together
FB_THRUST = {  # finite_thrust callback installed on the object (the library's own thrust functions), km/s^2
    "none": None, "ntw": ("ntwBurn", [1e-7, 2e-7, -1.5e-7]), "spiral": ("spiralThrust", 1e-7), "plane_change": ("planeChangeThrust", 1e-7),
}
FB_K = [2, 3, 5, 13]  # batch sizes; every cyclic window of the 13 orbits for K < 13, every rotation's first column for K = 13
FB_TIMES = [0.0, 5400.0]  # elapsed seconds at which the derivative is evaluated
FB_REL_TOL = 1e-13  # of mu / r^2, see _run_force_batch
SAT_RATIO = 0.0605  # (1 + 0.21) * 25 m^2 / 500 kg
A_SRP = 4.56e-6 * SAT_RATIO / 1000.0  # km/s^2 at 1 au: solar pressure 4.56e-6 N/m^2 times (1 + reflectivity) A / m
EPOCH_SHIFTS = [1.0, 1000.0, 86400.0, -300.0]
# start-date shifts that are NOT whole seconds (a scenario start_timestamp may carry a fraction of a second; a start epoch
# may be typed as a Julian date): tenths, a half (the tie of a rounding), half an hour / a day plus a fraction
EPOCH_SHIFTS_FRAC = [0.4, 0.5, 1800.4, 86400.25]
EPOCH_SHIFTS_FRAC_LEAN = [0.4, 86400.25]
# start epochs that are NOT whole seconds: a start timestamp with milliseconds (S + 0.224 s = 07:30:00.224) and a Julian
# date typed by hand with five decimals (day fraction .58116 = 01:56:52.224 UTC, 0.22 s off the whole-second grid; the
# library's own tests/dynamics use 2459690.58116); each with a whole-second and a fractional start-date shift
FRAC_START_MS = 0.224
FRAC_START_TYPED_JD = 0.58116
FRAC_START_SHIFTS = [0.4, 1000.0]
RES_FLOOR_DIV = 1000.0  # epoch-resolution subcheck: floor = tol_pos / 1000 (step-size controller decisions, see module docstring)
EPOCH_RES_S = 5e-3  # s: largest disagreement about the force-model epoch two splits of one absolute instant may show
RESTART_DV = [0.010, -0.020, 0.005]  # km/s, constant state change of the test event
# ---- epoch-split family: elapsed scenario seconds at which a dynamics object is built (multiples of the 300 s clock
# step).  600 s / 2400 s: the first steps of a run (tesseral field: 2.5 / 10 deg of Earth rotation); 30000 s: not close to
# a multiple of the sidereal day; 86400 s (a solar day is 1 deg short of a full Earth rotation: the tesseral alias, but
# 13 deg of lunar motion) and 1.5 days; a month for the configuration whose only fast-varying term is the Sun direction
ES_T = [0.0, 600.0, 2400.0, 30000.0, 86400.0, 129600.0]
ES_T_SRP = [0.0, 2400.0, 86400.0, 129600.0, 30.0 * 86400.0]
ES_SPANS = [300.0, 3600.0]
ES_RK45_HOUR_T = [2400.0, 129600.0]  # quick tier: a LEO hour of SP costs 0.3 s with RK45, so RK45 x one-hour span x LEO gets these T only
ES_CLOCK_STEP = 300.0
# epoch split, fractional seconds: the start timestamp of the clock carries milliseconds (S + ES_START_MS), and for every
# elapsed time T > 0 one more split (S + d, T - d) with a start-date shift d that is not a whole second (the clock is
# ticked to T - d with a last partial tick, ScenarioClock.ticToc(dt))
ES_START_MS = 0.224
ES_T_MS = [0.0, 600.0, 2400.0, 86400.0]
ES_T_MS_SRP = [0.0, 2400.0, 86400.0]
ES_FRAC_SPLIT = {600.0: 0.4, 2400.0: 1800.4, 30000.0: 0.5, 86400.0: 1800.4, 129600.0: 86400.25, 30.0 * 86400.0: 86400.25}
ES_MODEL = "egm96.txt"
# spacecraft platform handed to the factory: (1 + 0.21) * 25 / 500 = SAT_RATIO, the value the direct constructions use
ES_PLATFORM = {"type": "spacecraft", "mass": 500.0, "visual_cross_section": 25.0, "reflectivity": 0.21}
TWIN_DT = 300.0
TWIN_ADD_STEPS = [0, 2, 8]  # the twins are added after this many 300 s steps (T = 0, 600, 2400 s)
TWIN_AFTER = 2  # steps flown together after the addition
# ---- station-keeping family: propagation WITH StationKeeper events ("GEO EW" / "GEO NS" / "LEO"), one call against every
# split into equal steps.  The keepers are built once from the slot state at scenario time 0 (Agent._createStationKeepers,
# the call the agents make) and get the FK5 reductions of each call's start instant before that call, the way
# PropagateRegistration.generateSubmission hands them over for every physics step.
SK_A_GEO = 42164.1696  # km: two-body mean motion = Earth's rotation rate, a slot longitude is kept for days
SK_STEPS = [60.0, 120.0, 300.0, 600.0]  # physics steps the span is split into (those that divide it and are shorter)
SK_SPANS = [600.0, 1800.0, 3600.0]
SK_T0 = [0.0, 7200.0]  # elapsed scenario seconds at the start of the span (0: the keeper's own epoch; 2 h: 30 deg of Earth rotation later)
SK_T0_THOROUGH = [0.0, 7200.0, 90000.0]
SK_FRAC = 0.37  # one uneven two-leg split on top of the equal steps
SK_RSO = 40011
SK_LON_GUARD_DEG = 2.0  # slots closer than this to the +-180 deg meridian are moved by 10 deg (longitude wrap: not C03's subject)
# name: (regime, routines, longitude offset from the slot at the start of the span [deg], semi-major axis offset [km],
#        inclination [deg], eccentricity of slot and start state, expected burns two-body, expected burns SP).
# Expected burns follow from the documented thresholds of the keepers (LON_DRIFT 0.5 deg, LAT_DRIFT 1 deg, ALT_DRIFT 2 km,
# BURN 1e-6 km/s = 0.027 km of semi-major axis at GEO, LEO keeper disabled for an eccentric slot) with the margins below:
#   none        - the thresholds are not reached anywhere in the span: no burn in any decomposition.  Margins: the
#                 longitude offsets stay >= 0.048 deg (35 km along the orbit) inside the box including the two-body drift
#                 1.5 n da / a <= 0.003 deg/h; perturbations move a GEO satellite by < 2 km (0.003 deg) in an hour; the
#                 latitude of the inclined target stays <= 0.5 deg; LEO offsets are 0 / 1.5 km against 2 km (two-body only)
#   one_at_t0   - thresholds exceeded at the start, and the burn (n da / 2) restores the slot's semi-major axis to < 0.01 km:
#                 exactly one burn, at the start of the span, in every decomposition (two-body only)
#   first_at_t0 - as before, but the osculating semi-major axis keeps moving (SP): further burns may follow
#   any         - the thresholds are (or may be) crossed inside the span; only the decompositions are compared
SK_TARGETS = {
    "geo_on_station": ("geo", ["GEO EW", "GEO NS"], 0.0, 0.0, 0.0, 0.0, "none", "none"),
    "geo_inside_box_east": ("geo", ["GEO EW"], 0.3, 5.0, 0.0, 0.0, "none", "none"),
    "geo_inside_box_west": ("geo", ["GEO NS", "GEO EW"], -0.45, -3.0, 0.0, 0.0, "none", "none"),
    "geo_inclined_half_deg": ("geo", ["GEO NS", "GEO EW"], 0.0, 0.0, 0.5, 0.0, "none", "none"),
    "geo_outside_box_east": ("geo", ["GEO EW"], 0.6, 5.0, 0.0, 0.0, "one_at_t0", "first_at_t0"),
    "geo_outside_box_west": ("geo", ["GEO EW", "GEO NS"], -0.6, -5.0, 0.0, 0.0, "one_at_t0", "first_at_t0"),
    "geo_outside_box_same_sma": ("geo", ["GEO EW"], 0.6, 0.0, 0.0, 0.0, "none", "any"),
    "geo_leaving_box": ("geo", ["GEO EW"], 0.4995, -5.0, 0.0, 0.0, "any", "any"),  # crosses 0.5 deg about 670 s into the span
    "leo_on_station": ("leo", ["LEO"], 0.0, 0.0, 51.6, 0.0, "none", "any"),
    "leo_low_1p5_km": ("leo", ["LEO"], 0.0, -1.5, 51.6, 0.0, "none", "any"),
    "leo_low_3_km": ("leo", ["LEO"], 0.0, -3.0, 51.6, 0.0, "one_at_t0", "first_at_t0"),
    "leo_eccentric_low_3_km": ("leo", ["LEO"], 0.0, -3.0, 51.6, 0.01, "none", "none"),
}
SK_QUICK_SP_TARGETS = ["geo_on_station", "geo_inside_box_east", "geo_inclined_half_deg", "geo_outside_box_east", "geo_leaving_box",
                       "leo_on_station", "leo_low_3_km"]
SK_LEO_A = [6800.0, 7000.0]


# ------------------------------------------------------------------------------------------------ lattice
def _phase(seed):
    return ((seed * 79.19) % 360.0, (seed * 10.4729) % 90.0, (seed * 3.7) % 40.0)


def _orbit(idx, seed):
    """[a, e, inc, raan, argp, nu] (km, deg) of lattice point idx in 0..89."""
    p_raan, p_argp, p_nu = _phase(seed)
    a, e = AE[idx // 15]
    inc = INC[(idx // 3) % 5]
    nu = NU[idx % 3] + (p_nu if idx % 3 == 2 else 0.0)
    raan = (40.0 + 90.0 * (idx % 4) + p_raan) % 360.0
    argp = (70.0 + 90.0 * ((idx // 4) % 4) + p_argp) % 360.0
    return [a, e, inc, raan, argp, nu]


def _state(orb):
    a, e, inc, raan, argp, nu = orb
    return kr.state_from_elements(a, e, math.radians(inc), math.radians(raan), math.radians(argp), math.radians(nu))


def _jd0(seed):
    # 2018-06-15T07:30:00 UTC + (seed mod 1000) days: inside the EOP table (2014-01..2022-10)
    base = 2458284.8125  # JD of 2018-06-15T07:30:00
    return base + float(seed % 1000)


def _iso(jd):
    return (datetime(2018, 6, 15, 7, 30, 0) + timedelta(days=jd - 2458284.8125)).isoformat()


def _chunks(seq, pattern):
    out, i = [], 0
    for n in pattern:
        if i >= len(seq):
            break
        out.append(seq[i : i + n])
        i += n
    return out


def _rot(seq, r):
    r %= len(seq)
    return seq[r:] + seq[:r]


def _sp_orbits(seed, n):
    """n <= 13 orbits spread over (a, e) and inclinations; index list into the 90-lattice."""
    # (a,e) k: inc 28.5/nu 90 and a second one cycling through 90/150/0/180/28.5 at nu 200(+phase); + one polar GEO
    idx = []
    second_inc = [2, 3, 0, 4, 1, 2]
    for k in range(6):
        idx.append(k * 15 + 1 * 3 + 1)
        idx.append(k * 15 + second_inc[k] * 3 + 2)
    idx.append(4 * 15 + 3 * 3 + 0)
    return idx[:n]


def items(tier, seed):
    thorough = tier == "thorough"
    out = []
    all_idx = list(range(90))
    # ---- two-body, spans up to an hour: all 90 orbits, partitioned into batches; column assignment rotated
    rotations = list(range(7)) if thorough else [0]
    starts = {1.0: 0.0, 10.0: 259217.0, 300.0: 0.0, 3600.0: 7200.0}
    for method in METHODS:
        for T in SHORT_SPANS:
            for rot in rotations:
                order = _rot(all_idx, rot * 7 + seed + int(T))
                mode = "full" if rot == 0 else "batch_only"
                for ch in _chunks(order, BATCH_PATTERN):
                    out.append(["prop", "twobody", method, T, starts[T], 0.0, mode, [_orbit(i, seed) for i in ch]])
    # ---- two-body, half a day and a day (a one-day RK45 propagation costs 0.25 s: few orbits in the quick tier)
    if thorough:
        long_sets = {43200.0: all_idx, 86400.0: [i for i in all_idx if (i // 3) % 5 in (1, 2, 4)]}
    else:
        long_sets = {43200.0: [k * 15 + 3 + (k % 3) for k in range(6)], 86400.0: [4, 15 + 9 + 2, 45 + 3 + 1, 75 + 12 + 0]}
    for method in METHODS:
        for T, idxs in long_sets.items():
            order = _rot(idxs, seed)
            for ch in _chunks(order, [2] * 50 if thorough or T < 86400.0 else [2, 1, 1]):
                out.append(["prop", "twobody", method, T, 0.0, 0.0, "lean", [_orbit(i, seed) for i in ch]])
    # ---- special perturbations
    jd0 = _jd0(seed)
    cfgs = ["sp_g4", "sp_g2sm"] + (["sp_g3all", "sp_g8"] if thorough else [])
    for cfg in cfgs:
        for method in METHODS:
            if thorough:
                plan = [(10.0, all_idx, [3] * 30, 86400.0), (300.0, all_idx, [13, 13, 13, 13, 13, 13, 3, 3, 3, 2, 1], 87000.0),
                        (3600.0, _sp_orbits(seed, 13) + [0, 44, 89], [2] * 8, 90000.0),
                        (43200.0, _sp_orbits(seed, 2), [1, 1], 86400.0)]
                if cfg in ("sp_g3all", "sp_g8"):
                    plan = [(10.0, _sp_orbits(seed, 13), [3, 3, 3, 2, 2], 86400.0), (300.0, _sp_orbits(seed, 13), [13], 87000.0),
                            (3600.0, _sp_orbits(seed, 6), [2, 2, 1, 1], 90000.0)]
            else:
                plan = [(10.0, _sp_orbits(seed, 13), [3, 3, 3, 2, 2], 86400.0), (300.0, _sp_orbits(seed, 13), [5, 4, 4], 87000.0),
                        (3600.0, _sp_orbits(seed, 6), [2, 1, 1, 1, 1], 90000.0)]
            for T, idxs, pattern, t0 in plan:
                order = _rot(list(idxs), seed)
                if not thorough and T >= 3600.0 and method == "RK45":
                    order, pattern = order[:4], [2, 1, 1]  # an SP hour costs 0.35 s with RK45 (0.13 s with DOP853)
                mode = "sp" if (thorough or T < 3600.0) else "sp_lean"
                if T >= 43200.0 and method == "RK45":
                    continue  # half a day of SP with RK45 costs 4 CPU s per propagation: DOP853 only
                for ch in _chunks(order, pattern):
                    out.append(["prop", cfg, method, T, t0, jd0, mode, [_orbit(i, seed) for i in ch]])
    # ---- SRP with the Sun not listed as a third body: start-epoch shifts of a day and a month (RK45: smooth enough)
    for ch in _chunks(_rot(_sp_orbits(seed, 6), seed)[:4], [1, 1, 1, 1]):
        out.append(["prop", "sp_srp", "RK45", 3600.0, 31.0 * 86400.0, jd0, "sp_lean", [_orbit(i, seed) for i in ch]])
    # ---- epoch split: dynamics built by the factory at elapsed time T (one orbit per item, both integrators inside)
    es_cfgs = ["sp_g4", "sp_g2sm", "sp_srp"] + (["sp_g3all", "sp_g8"] if thorough else [])
    # AgentConfig (the factory's input) rejects a state more than 45000 km above the surface ("RSO altitude above GEO"):
    # the a = 60000 km orbits are outside the configuration domain; 4 low, 4 medium, 3 geosynchronous orbits remain
    pool = [i for i in _sp_orbits(seed, 13) if AE[i // 15][0] <= 42164.0]
    for ci, cfg in enumerate(es_cfgs):
        if thorough:
            idxs = pool
        else:  # one low (6800 / 7500 km), one eccentric medium (12000 / 26560 km), one geosynchronous orbit
            idxs = [pool[(seed + ci) % 4], pool[4 + (seed + ci + 1) % 4], pool[8 + (seed + ci + 2) % 3]]
        for i in idxs:
            low = AE[i // 15][0] < 12000.0
            for span in ES_SPANS:
                if span < 3600.0 and not (thorough or low):
                    continue  # quick tier: above LEO five minutes are too short for an epoch slip to reach 100 tolerances
                Ts = ES_T_SRP if cfg == "sp_srp" else ES_T
                # quick tier: a LEO hour of SP costs 0.3 s with RK45 (0.02-0.1 s higher up): RK45 gets two T there
                rk_T = Ts if (thorough or span < 3600.0 or not low) else [t for t in Ts if t in ES_RK45_HOUR_T]
                out.append(["epoch_split", cfg, span, Ts, rk_T, jd0, seed, _orbit(i, seed), 0.0])
        # the same with a start timestamp that carries milliseconds: the low orbit(s), five minutes (RK45 resolves a
        # 0.1 s epoch slip there), both integrators at every T
        for i in [k for k in idxs if AE[k // 15][0] < 12000.0]:
            Ts = ES_T_MS_SRP if cfg == "sp_srp" else ES_T_MS
            out.append(["epoch_split", cfg, ES_SPANS[0], Ts, Ts, jd0, seed, _orbit(i, seed), ES_START_MS])
    # ---- twins: satellites added to a running scenario with exactly the state of one that flies from the start
    j = 0
    for cfg in es_cfgs:
        for method in METHODS:
            for k_add in TWIN_ADD_STEPS:
                if k_add == 0 and not (thorough or method == "RK45"):
                    continue
                orbs_t = [pool[(seed + 4 * j) % 11]] if not thorough else [pool[(seed + j + q) % 11] for q in (0, 4, 8)]
                for i in orbs_t:
                    out.append(["epoch_twin", cfg, method, TWIN_DT, k_add, TWIN_AFTER, seed, _orbit(i, seed)])
                j += 1
    # ---- station keeping: one call against every split into equal physics steps (keepers active)
    out.extend(_sk_items(thorough, seed, jd0))
    # ---- stale schedules: propagation WITH scheduled events, every leg of a split handed the full, un-pruned schedule
    out.extend(_st_items(thorough, seed, jd0))
    # ---- force_batch: the derivative of a stacked batch, member by member (both tiers: it costs ~1 CPU s per item)
    for cfg in FB_CFGS:
        for thrust in FB_THRUST:
            out.append(["force_batch", cfg, thrust, jd0, seed, [_orbit(i, seed) for i in _sp_orbits(seed, 13)]])
    # ---- closed-form solver and helpers
    for ch in fw.chunked(all_idx, 15):
        out.append(["universal", [_orbit(i, seed) for i in ch]])
    out.append(["universal_branches", seed])
    out.append(["helpers", seed])
    out.append(["stumpff", seed])
    # heaviest first so that the pool drains evenly
    out.sort(key=lambda it: -_cost(it))
    only = os.environ.get("VERIF_C03_ITEMS")  # development aid (seeded-change runs): regex on "<kind>/<dynamics>/<method>/<T>"
    if only:
        import re  # noqa: PLC0415

        out = [it for it in out if re.search(only, "/".join(str(x) for x in it[:4]) if it[0] == "prop" else it[0])]
    return out


def _sk_plan(span, steps):
    return [float(span), [s for s in steps if s < span and abs(span / s - round(span / s)) < 1e-9]]


def _sk_items(thorough, seed, jd0):
    """["station_keeping", dynamics, integrator, target, t0, jd0, seed, [[span, [steps]], ...]]."""
    out = []
    # two-body: every target, both integrators, every start time, every span with every step (a GEO hour costs 10 ms)
    for method in METHODS:
        for name in SK_TARGETS:
            for t0 in (SK_T0_THOROUGH if thorough else SK_T0):
                out.append(["station_keeping", "twobody", method, name, t0, jd0, seed, [_sk_plan(T, SK_STEPS) for T in SK_SPANS]])
    # special perturbations: one span per item (a LEO half hour in 60 s steps costs 1.5 s)
    cfgs = ["sp_g4", "sp_g2sm"] + (["sp_g3all", "sp_g8", "sp_srp"] if thorough else [])
    for cfg in cfgs:
        for method in METHODS:
            full = thorough and cfg in ("sp_g4", "sp_g2sm")  # thorough: every target / start / span for these two, a lean set for the others
            for name in (SK_TARGETS if full else SK_QUICK_SP_TARGETS + (["leo_eccentric_low_3_km"] if thorough else [])):
                leo = SK_TARGETS[name][0] == "leo"
                quiet = SK_TARGETS[name][7] == "none"  # no trigger expected under SP: the targets that decide about new defects
                for t0 in (SK_T0_THOROUGH if full else SK_T0):
                    if full:
                        plans = [[_sk_plan(1800.0, SK_STEPS)], [_sk_plan(600.0, SK_STEPS), _sk_plan(3600.0, SK_STEPS[1:])]]
                    elif thorough:
                        plans = [[_sk_plan(1800.0, SK_STEPS)]]
                    elif leo:
                        # quick tier, LEO (an SP half hour costs 0.5 s per decomposition with RK45): the 4x4 field only, 300 / 600 s
                        if cfg != "sp_g4":
                            continue
                        plans = [[_sk_plan(1800.0, [300.0, 600.0])]]
                    elif not quiet:
                        # quick tier, GEO targets whose thresholds are crossed (every trigger costs a restart; their violations
                        # fall under known finding F-C03-2): one start time per integrator
                        if (t0 == 0.0) != (method == "DOP853"):
                            continue
                        plans = [[_sk_plan(1800.0, SK_STEPS[1:] if method == "DOP853" else SK_STEPS)]]
                    else:
                        # quick tier, GEO targets inside their box: half an hour in every step (DOP853: from 120 s, a 60 s call
                        # costs it as much as a 300 s one); RK45 from the later start time also an hour in 300 / 600 s and ten
                        # minutes in 120 / 300 s steps
                        plans = [[_sk_plan(1800.0, SK_STEPS[1:] if method == "DOP853" else SK_STEPS)]]
                        if method == "RK45" and t0 > 0.0:
                            plans.append([_sk_plan(600.0, [120.0, 300.0]), _sk_plan(3600.0, [300.0, 600.0])])
                    for plan in plans:
                        out.append(["station_keeping", cfg, method, name, t0, jd0, seed, plan])
    # the same through a real truth-only Scenario at several physics steps (Sun and Moon move the osculating semi-major
    # axis of a GEO satellite by more than the 27 m the East/West burn threshold stands for; thorough: every configuration)
    for cfg in (cfgs if thorough else ["sp_g2sm"]):
        for method in METHODS:
            out.append(["station_keeping_scenario", cfg, method, seed])
    return out


def _sk_bounds(tier, seed, its):
    sk = [it for it in its if it[0] == "station_keeping"]
    combos = {}
    for it in sk:
        key = f"{it[1]}/{it[2]}"
        for span, steps in it[7]:
            combos.setdefault(key, set()).add((it[3], it[4], span, tuple(steps)))
    return {
        "targets": {name: {"regime": v[0], "routines": v[1], "longitude_offset_deg": v[2], "sma_offset_km": v[3], "inclination_deg": v[4],
                           "eccentricity": v[5], "expected_burns_two_body": v[6], "expected_burns_sp": v[7]} for name, v in SK_TARGETS.items()},
        "slot": {"geo_radius_km": SK_A_GEO, "geo_inertial_longitude_at_t0_deg": (100.0 + _phase(seed)[0]) % 360.0, "leo_sma_km": SK_LEO_A[seed % 2],
                 "antimeridian_guard_deg": SK_LON_GUARD_DEG},
        "start_times_s": SK_T0_THOROUGH if tier == "thorough" else SK_T0, "spans_s": SK_SPANS, "steps_s": SK_STEPS, "uneven_split": SK_FRAC,
        "other_decompositions": ["batch_of_one (6,1) + ScenarioTime", "propagateBulk (6,1), grid3"],
        "dynamics": sorted({it[1] for it in sk}), "sp_targets_quick": SK_QUICK_SP_TARGETS,
        "target_start_span_steps_combinations": {k: len(v) for k, v in sorted(combos.items())},
        "items": len(sk),
        "scenario": {"targets": SKS_TARGETS, "span_s": SKS_SPAN, "physics_steps_s": SKS_PHYSICS, "without_keepers_physics_steps_s": SKS_PHYSICS_NO_KEEPERS,
                     "compared_at_s": SKS_COMMON, "configs_integrators": sorted({(it[1], it[2]) for it in its if it[0] == "station_keeping_scenario"})},
        "known_finding": "F-C03-2 (open): triggers arising inside a call are located at integrator step ends; signature suffix /trigger_inside_span",
    }


def _cost(it):
    if it[0] == "station_keeping_scenario":
        return 6.0
    if it[0] == "station_keeping":
        leo = SK_TARGETS[it[3]][0] == "leo"
        per_s = (2.8e-6 if it[1] == "twobody" else 6e-5) * (6.0 if leo else 1.0) * (1.0 if it[2] == "RK45" else 0.6)
        per_call = 1e-3 if it[1] == "twobody" else (0.007 if it[2] == "RK45" else 0.014)
        return sum((len(steps) + 4) * per_s * span + per_call * sum(span / s for s in steps) for span, steps in it[7]) + 0.05
    if it[0] == "stale_schedule":
        return (0.12 if it[1] == "twobody" else (0.7 if it[2] == "RK45" else 1.1)) * len(it[8])
    if it[0] == "epoch_split":
        return (0.0012 * it[2] + 0.6) * (6800.0 / it[7][0]) ** 0.5 * len(it[3]) / 6.0
    if it[0] == "epoch_twin":
        return 1.0
    if it[0] != "prop":
        return 0.5
    _, kind, method, T, _t0, _jd, mode, orbs = it
    per = {"RK45": 2.8e-6, "DOP853": 1.0e-6}[method] * T + 1e-3
    if kind != "twobody":
        per = {"RK45": 9e-5, "DOP853": 3.5e-5}[method] * T + 0.03
    units = {"full": 23, "lean": 9, "sp": 15, "sp_lean": 10, "batch_only": 6}[mode]
    return per * units * len(orbs)


def _orbit_counts(props):
    out = {}
    for it in props:
        key = f"{it[1]}/{it[2]}/T={it[3]:g}" + ("/batch_only" if it[6] == "batch_only" else "")
        out[key] = out.get(key, 0) + len(it[7])
    return dict(sorted(out.items()))


def bounds(tier, seed):
    its = items(tier, seed)
    props = [it for it in its if it[0] == "prop"]
    return {
        "orbits_a_e": AE, "inclinations_deg": INC, "true_anomalies_deg": NU, "seed_phase_raan_argp_nu_deg": _phase(seed),
        "integrators": METHODS, "spans_s": sorted({it[3] for it in props}),
        "split_fractions": FRACS_FULL, "three_way": THREE_WAY,
        "grids": {"grid1": [1.0], "grid3": GRID3, "grid10": GRID10, "edges": "t0+1 s, t2-1 s, t2 (0.25/0.75 for T<=2 s)"},
        "batch_sizes": sorted({len(it[7]) for it in props}), "sp_configs": {k: SP_CFG[k] for k in sorted({it[1] for it in props if it[1] != "twobody"})},
        "sp_start_epoch": _iso(_jd0(seed)), "epoch_shifts_s": EPOCH_SHIFTS, "restart_event_fractions": [0.37, 0.5],
        "epoch_shifts_fractional_s": {"spans >= 300 s": EPOCH_SHIFTS_FRAC, "one-hour spans, quick tier": EPOCH_SHIFTS_FRAC_LEAN,
                                      "force_epoch only (10 s spans, sp_srp)": EPOCH_SHIFTS_FRAC},
        "fractional_start_epochs": {"ms_timestamp": _abs_dt(_frac_starts(_jd0(seed))[0][1]).isoformat(),
                                    "typed_julian_date": repr(_frac_starts(_jd0(seed))[1][1]), "shifts_s": FRAC_START_SHIFTS,
                                    "force_epoch_shifts_s": FRAC_START_SHIFTS + [1800.4],
                                    "propagated": "RK45, no SRP, span 300 s" + (" and 3600 s" if tier == "thorough" else "")},
        "force_epoch": {"tolerance_epoch_s": EPOCH_RES_S, "floor": "4e-15 |a|", "instants": "both ends of every SP span; elapsed T of every epoch-split object"},
        "epoch_resolution": {"integrator": "RK45", "configs": "no SRP", "spans_s": ">= 300", "tolerance": f"tol_pos/{RES_FLOOR_DIV:g} + {EPOCH_RES_S:g} s x measured sensitivity"},
        "epoch_split": {
            "elapsed_T_s": ES_T, "elapsed_T_s_sp_srp": ES_T_SRP, "spans_s": ES_SPANS, "rk45_one_hour_leo_T_s": "all" if tier == "thorough" else ES_RK45_HOUR_T,
            "span_300_s": "all orbits" if tier == "thorough" else "a < 12000 km only",
            "splits": ["(S, T)", "(S+T, 0)", "(S+T1, T-T1), T1 = 300 floor(T/600) [DOP853]", "(S+d, T-d), d fractional", "absolute-epoch reference"],
            "fractional_split_d_s_by_T": {f"{k:g}": v for k, v in ES_FRAC_SPLIT.items()},
            "ms_start": {"start_fraction_s": ES_START_MS, "elapsed_T_s": ES_T_MS, "elapsed_T_s_sp_srp": ES_T_MS_SRP, "span_s": ES_SPANS[0], "orbits": "a < 12000 km",
                         "items": sum(1 for it in its if it[0] == "epoch_split" and len(it) > 8 and it[8])},
            "configs": sorted({it[1] for it in its if it[0] == "epoch_split"}), "clock_step_s": ES_CLOCK_STEP,
            "orbits": sorted({tuple(it[7][:3]) for it in its if it[0] == "epoch_split"}),
            "items": sum(1 for it in its if it[0] == "epoch_split"),
        },
        "epoch_twin": {
            "added_after_steps": TWIN_ADD_STEPS, "step_s": TWIN_DT, "steps_after": TWIN_AFTER,
            "paths": ["addTarget(dict)", "addTarget(AgentConfig)", "addSensor(dict)", "target_addition event (no SRP)", "sensor_addition event (no SRP)",
                      "truth dynamics object", "filter dynamics object"],
            "configs_integrators": sorted({(it[1], it[2]) for it in its if it[0] == "epoch_twin"}),
            "items": sum(1 for it in its if it[0] == "epoch_twin"),
        },
        "station_keeping": _sk_bounds(tier, seed, its),
        "stale_schedule": _st_bounds(its),
        "force_batch": {"configs": {k: (SP_CFG[k] if k != "twobody" else "TwoBody") for k in FB_CFGS}, "finite_thrust": FB_THRUST, "batch_sizes": FB_K,
                        "elapsed_s": FB_TIMES, "orbits": 13, "windows": "every cyclic window of the 13 orbits (K < 13), all 13 rotations (K = 13)",
                        "tolerance": f"{FB_REL_TOL:g} mu/r^2, velocity part bit-identical", "items": sum(1 for it in its if it[0] == "force_batch")},
        "propagation_items": len(props),
        "orbits_per_dynamics_integrator_span": _orbit_counts(props),
        "orbit_span_combinations": sum(len(it[7]) for it in props),
    }


# ------------------------------------------------------------------------------------------------ tolerances
def _period(a):
    return kr.TWO_PI * math.sqrt(a**3 / MU)


def tol_pos(a, e, T):
    revs = T / _period(a)
    return 1e-9 + 30.0 * RTOL * a * (1.0 + e) * (1.0 + 20.0 * revs * revs)


def tol_vel(a, e, T):
    rp = a * (1.0 - e)
    return 1e-12 + tol_pos(a, e, T) * math.sqrt(MU * (1.0 + e) / rp) / rp


def tol_conserve(a, T):
    return 1e-12 + 300.0 * RTOL * (1.0 + 2.0 * T / _period(a))


def tol_epoch(a, e, T):
    return tol_pos(a, e, T) / 5.0


class _RestartEvent(ScheduledImpulse):
    """The library's scheduled-impulse event function (``ScheduledImpulse.__call__``) with a constant velocity change and
    without the EventStack side effect of the concrete classes: stops the integrator at ``time`` and forces a restart."""

    def __init__(self, time, delta):
        super().__init__(float(time), np.asarray(delta, dtype=float)[3:], 0)
        self.calls = 0
        self.fired_at = []

    def getStateChange(self, time, state):
        self.calls += 1
        self.fired_at.append(float(time))
        return self.thrust.copy()

    @property
    def suffix(self):
        """Root-cause tag: a comparison that fails while the event fired more (or less) than once is a different
        defect (event handling) from one that fails although the event fired exactly once (restart bookkeeping).
        The two mechanisms recorded as known finding F-C03-1 are recognised by their own evidence, so that any other
        reason for a second firing keeps a signature of its own:
        * fpe_window: ScheduledImpulse.__call__ returns exactly 0.0 while |t - time| < 1e-15; a restart one ulp later
          is still inside that window iff ulp(time) < 1e-15, i.e. time < 8 s;
        * root_early: the first firing was recorded before the event time (root finder one ulp early), so the restart
          one ulp later is not yet past the event."""
        if self.calls == 1:
            return ""
        if self.calls == 0:
            return "/event_not_applied"
        if abs(self.time) < 8.0:
            return "/event_retriggered/known_fpe_window"
        if self.fired_at[0] < self.time:
            return "/event_retriggered/known_root_early"
        return "/event_retriggered/unexplained"


def _dynamics(kind, method, jd):
    if kind == "twobody":
        return TwoBody(method=method)
    deg, order, bodies, srp, gr = SP_CFG[kind]
    return SpecialPerturbations(
        JulianDate(jd),
        GeopotentialConfig(model="egm96.txt", degree=deg, order=order),
        PerturbationsConfig(third_bodies=list(bodies), solar_radiation_pressure=srp, general_relativity=gr),
        SAT_RATIO,
        method=method,
    )


class _Ctx:
    """Per-item bookkeeping: result, worst error/tolerance ratio per subcheck."""

    def __init__(self, res, item, kind, method, T, t0):
        self.res, self.item, self.kind, self.method, self.T, self.t0 = res, item, kind, method, T, t0
        self.mode = item[6] if item[0] == "prop" else item[0]
        self.ratios = {}
        # Solar radiation pressure with the eclipse model is a non-smooth force (LEO penumbra lasts ~8 s, a DOP853 step
        # ~300 s): a step straddling the transition is accepted although the jump falls between its stages, so the
        # eclipse is mis-timed by up to a step and the result depends on step placement by up to the whole SRP
        # displacement a_srp T^2 / 2 (measured on this tree: 9.8e-4 km of 1.8e-3 km for a LEO hour with DOP853, 1e-9 km
        # with RK45).  Configurations with SRP therefore get a_srp T^2 (x2 margin) added; layout / restart / epoch slips
        # (km-level) stay visible, SRP-sized effects do not (the force value itself is C13's subject).
        # RK45's short steps resolve the penumbra (measured 1e-9 km), so the allowance is for DOP853 only
        srp = kind != "twobody" and SP_CFG[kind][3] and method == "DOP853"
        self.srp_pos = A_SRP * T * T if srp else 0.0
        self.srp_vel = 2.0 * A_SRP * T if srp else 0.0

    def tp(self, a, e):
        return tol_pos(a, e, self.T) + self.srp_pos

    def tv(self, a, e):
        return tol_vel(a, e, self.T) + self.srp_vel

    def base(self, orb, **kw):
        d = {"dyn": self.kind, "method": self.method, "T": self.T, "t0": self.t0, "a": orb[0], "e": orb[1], "inc": orb[2],
             "raan": round(orb[3], 6), "argp": round(orb[4], 6), "nu": round(orb[5], 6)}
        d.update(kw)
        return d

    def ratio(self, sub, r):
        if r > self.ratios.get(sub, 0.0):
            self.ratios[sub] = r

    def compare(self, sub, orb, got, ref, tp, tv, *, nontrivial, detail, extra=None, shape=(6,)):
        """got must have the announced shape and agree with ref within (tp km, tv km/s)."""
        case = self.base(orb, **(extra or {}))
        sig = f"C03/{sub}/{self.kind}/{self.method}/{detail}"
        if sub in ("grid", "restart_bulk"):
            # propagateBulk returns the dense-output interpolant between step ends (4th order for RK45, 7th for DOP853),
            # whose error is not what rtol controls; measured <= 3x the step-end error on the thorough lattice
            tp, tv = DENSE_FACTOR * tp, DENSE_FACTOR * tv
        if isinstance(got, Exception):
            return self.res.case(sub, case, False, nontrivial=nontrivial, signature=f"{sig}/exception/{type(got).__name__}",
                                 observed=repr(got)[:200], expected="a state", item=self.item)
        got = np.asarray(got)
        if got.shape != tuple(shape) or not np.all(np.isfinite(got)):
            return self.res.case(sub, case, False, nontrivial=nontrivial, signature=f"{sig}/shape_or_nonfinite",
                                 observed={"shape": list(got.shape)}, expected={"shape": list(shape)}, item=self.item)
        ep = fw.maxabs(got[:3], ref[:3])
        ev = fw.maxabs(got[3:], ref[3:])
        ok = ep <= tp and ev <= tv
        if "event_retriggered" not in detail:  # the margin report is about the tolerances, not about known finding F-C03-1
            self.ratio(sub, max(ep / tp, ev / tv))
        return self.res.case(sub, case, ok, nontrivial=nontrivial, signature=sig,
                             observed={"pos_err_km": ep, "vel_err_kms": ev, "state": got}, expected={"tol_km": tp, "tol_kms": tv, "state": ref},
                             outcome="within" if ok else "outside", item=self.item)


CALL_TIMEOUT_S = 60  # CPU seconds of this process (ITIMER_VIRTUAL: independent of machine load). The slowest call of the
# thorough lattice takes ~5 CPU s; a restart loop that never terminates (seen during development for negative times,
# which are outside the lattice) must become a verdict, not a hang. After the first timeout the rest of the item's calls
# are reported as skipped instead of burning another minute each.
_HUNG = {"flag": False}


class _CallTimeout(Exception):
    pass


def _on_alarm(signum, frame):
    raise _CallTimeout(f"call did not return within {CALL_TIMEOUT_S} CPU seconds")


def _call(fn, *a, **kw):
    if _HUNG["flag"]:
        return _CallTimeout("skipped: an earlier call of this item did not return")
    try:
        old = signal.signal(signal.SIGVTALRM, _on_alarm)
    except ValueError:  # not in the main thread: no watchdog
        old = None
    try:
        if old is not None:
            signal.setitimer(signal.ITIMER_VIRTUAL, CALL_TIMEOUT_S)
        return fn(*a, **kw)
    except _CallTimeout as exc:
        _HUNG["flag"] = True
        return exc
    except Exception as exc:  # noqa: BLE001 - an exception on a lattice point is a reported outcome, not a harness error
        return exc
    finally:
        if old is not None:
            signal.setitimer(signal.ITIMER_VIRTUAL, 0)
            signal.signal(signal.SIGVTALRM, old)


def _bad(x):
    return isinstance(x, Exception)


def _sfx(ev, got):
    """Event root-cause tag; an exception raised before the event could fire is not an event-handling symptom."""
    return "" if (_bad(got) and ev.calls == 0) else ev.suffix


# ------------------------------------------------------------------------------------------------ propagation item
def _run_prop(res, item):
    _, kind, method, T, t0, jd, mode, orbs = item
    T, t0, jd = float(T), float(t0), float(jd)
    ctx = _Ctx(res, item, kind, method, T, t0)
    dyn = _dynamics(kind, method, jd)
    t2 = t0 + T
    two_body = kind == "twobody"
    fracs = {"full": FRACS_FULL, "lean": FRACS_LEAN, "sp": FRACS_LEAN, "sp_lean": [0.37], "batch_only": []}[mode]
    if T > 2.0:
        edges = [1.0 / T, 1.0 - 1.0 / T, 1.0]
    else:
        edges = [0.25, 0.75, 1.0]
    grids = {"full": {"grid1": [1.0], "grid3": GRID3, "grid10": GRID10, "edges": edges}, "lean": {"grid3": GRID3, "edges": edges},
             "sp": {"grid3": GRID3, "edges": edges}, "sp_lean": {"grid3": GRID3}, "batch_only": {}}[mode]
    K = len(orbs)
    x0s = [_state(o) for o in orbs]
    wholes, seps = [], []

    for orb, x0 in zip(orbs, x0s):
        a, e = orb[0], orb[1]
        tp, tv = ctx.tp(a, e), ctx.tv(a, e)
        whole = _call(dyn.propagate, t0, t2, x0)
        wholes.append(whole)
        sep = {1.0: whole}  # fraction -> separately propagated state t0 -> t0 + f T
        seps.append(sep)
        if _bad(whole) or np.asarray(whole).shape != (6,):
            ctx.compare("shape", orb, whole, x0, math.inf, math.inf, nontrivial=False, detail="single")
            continue
        res.observe(whole)
        lin = fw.maxabs(whole[:3] - x0[:3] - x0[3:] * T)  # non-linear part of the motion
        moved = lin > 1000.0 * tp
        # -- Kepler-exact + conservative (two-body)
        if two_body:
            ref = kr.propagate(x0, T)
            ctx.compare("kepler", orb, whole, ref, tp, tv, nontrivial=moved, detail="propagate")
            _conserve(ctx, orb, x0, whole, moved, "single")
        if mode == "batch_only":
            continue
        # -- composition: 2 legs at every fraction, one 3-way split
        mids = {}
        for f in fracs:
            t1 = t0 + f * T
            mid = _call(dyn.propagate, t0, t1, x0)
            end = mid if _bad(mid) else _call(dyn.propagate, t1, t2, mid)
            mids[f] = mid
            sep[f] = mid
            ctx.compare("compose", orb, end, whole, tp, tv, nontrivial=0.0 < f < 1.0, detail="two_legs", extra={"frac": f})
        f1, f2 = THREE_WAY
        s = _call(dyn.propagate, t0, t0 + f1 * T, x0)
        sep[f1] = s
        for ta, tb in ((t0 + f1 * T, t0 + f2 * T), (t0 + f2 * T, t2)):
            s = s if _bad(s) else _call(dyn.propagate, ta, tb, s)
        ctx.compare("compose", orb, s, whole, tp, tv, nontrivial=True, detail="three_legs", extra={"frac": [f1, f2]})
        # -- output grids through propagateBulk, 1-D layout, against separate calls
        for gname, gf in grids.items():
            times = [t0] + [t0 + f * T for f in gf]
            out = _call(dyn.propagateBulk, times, x0)
            if _bad(out) or np.asarray(out).shape != (6, len(gf)):
                ctx.compare("grid", orb, out, x0, tp, tv, nontrivial=True, detail="layout1d", extra={"grid": gname}, shape=(6, len(gf)))
                continue
            res.observe(out)
            for j, f in enumerate(gf):
                if f not in sep:
                    sep[f] = _call(dyn.propagate, t0, t0 + f * T, x0)
                if _bad(sep[f]):
                    ctx.compare("grid", orb, sep[f], x0, tp, tv, nontrivial=True, detail="separate_call", extra={"grid": gname, "j": j})
                    continue
                ctx.compare("grid", orb, out[:, j], sep[f], tp, tv, nontrivial=len(gf) >= 2, detail="layout1d",
                            extra={"grid": gname, "j": j, "frac": f})
        # -- stop/restart forced by an event at 0.37 T: null change == no event; constant change == split by hand
        f = 0.37
        t1 = t0 + f * T
        mid = mids.get(f)
        if mid is not None and not _bad(mid):
            ev0 = _RestartEvent(t1, np.zeros(6))
            got = _call(dyn.propagate, t0, t2, x0, scheduled_events=[ev0])
            ctx.compare("restart", orb, got, whole, tp, tv, nontrivial=True, detail="null_event" + _sfx(ev0, got), extra={"frac": f, "dv": 0})
            res.case("restart_once", ctx.base(orb, frac=f, event_time=t1), ev0.calls == 1, nontrivial=True,
                     signature=f"C03/restart/{kind}/{method}/fired_once{ev0.suffix}", observed={"fired": ev0.calls}, expected={"fired": 1},
                     outcome=f"fired={min(ev0.calls, 3)}", item=item)
            if mode in ("full", "sp"):
                delta = np.concatenate((np.zeros(3), RESTART_DV))
                ev1 = _RestartEvent(t1, delta)
                got = _call(dyn.propagate, t0, t2, x0, scheduled_events=[ev1])
                want = _call(dyn.propagate, t1, t2, mid + delta)
                if not _bad(want):
                    ctx.compare("restart", orb, got, want, tp, tv, nontrivial=True, detail="state_change" + _sfx(ev1, got),
                                extra={"frac": f, "dv": 1, "event_time": t1, "fired": ev1.calls})
        # -- SP: only absolute epoch + state matter
        if not two_body:
            _epoch(ctx, orb, x0, whole, jd)

    # the caller's arrays must not have been modified by any of the calls above
    for orb, x0 in zip(orbs, x0s):
        res.case("input_unchanged", ctx.base(orb), bool(np.array_equal(x0, _state(orb))), signature=f"C03/input_mutated/{kind}/{method}", item=item)
    # ---- batch layouts: every column is compared with its own single call
    ok_idx = [k for k in range(K) if not _bad(wholes[k]) and np.asarray(wholes[k]).shape == (6,)]
    if len(ok_idx) != K:
        return ctx
    X = np.stack(x0s, axis=1)  # (6, K)
    gb = _call(dyn.propagate, ScenarioTime(t0), ScenarioTime(t2), X.copy())
    want_shape = (6, K) if K > 1 else (6,)
    if _bad(gb) or np.asarray(gb).shape != want_shape:
        ctx.compare("batch", orbs[0], gb, x0s[0], 1.0, 1.0, nontrivial=K > 1, detail="layout", extra={"K": K}, shape=want_shape)
    else:
        res.observe(gb)
        gb2 = np.asarray(gb).reshape(6, K)
        for k, orb in enumerate(orbs):
            a, e = orb[0], orb[1]
            ctx.compare("batch", orb, gb2[:, k], wholes[k], ctx.tp(a, e), ctx.tv(a, e), nontrivial=K > 1, detail="column",
                        extra={"K": K, "col": k})
            if two_body:
                _conserve(ctx, orb, x0s[k], gb2[:, k], K > 1, "batch")
    # ---- the same batch in other memory layouts (Fortran-ordered copy, transposed view of a (K, 6) table): the result
    # must not depend on how the caller's block is laid out in memory
    if K > 1 and not _bad(gb) and np.asarray(gb).shape == want_shape:
        table = np.ascontiguousarray(np.stack(x0s, axis=0))  # (K, 6), C-ordered
        for lname, block in (("fortran_copy", np.asfortranarray(X)), ("transposed_view", table.T)):
            gl = _call(dyn.propagate, ScenarioTime(t0), ScenarioTime(t2), block)
            if _bad(gl) or np.asarray(gl).shape != want_shape:
                ctx.compare("batch", orbs[0], gl, x0s[0], 1.0, 1.0, nontrivial=True, detail="memory_layout/" + lname, extra={"K": K}, shape=want_shape)
                continue
            gl2 = np.asarray(gl).reshape(6, K)
            for k, orb in enumerate(orbs):
                ctx.compare("batch", orb, gl2[:, k], wholes[k], ctx.tp(orb[0], orb[1]), ctx.tv(orb[0], orb[1]), nontrivial=True,
                            detail="memory_layout/" + lname, extra={"K": K, "col": k})
            res.case("input_unchanged", ctx.base(orbs[0], layout=lname), bool(np.array_equal(np.asarray(block), X)),
                     signature=f"C03/input_mutated/{kind}/{method}", item=item)
    # ---- a batch under a state-dependent finite thrust (along-track burn active over the whole call): every column must
    # get the thrust its own state implies, i.e. equal its own single call with the same burn
    if K > 1 and T <= 300.0 and mode in ("full", "sp"):
        burn = lambda: [ScheduledFiniteBurn(t0 - 5.0, t2 + 5.0, partial(ntwBurn, acc_vector=np.array([0.0, 2.0e-5, 0.0])), 10001)]  # noqa: E731
        gt = _call(dyn.propagate, t0, t2, X.copy(), scheduled_events=burn())
        if _bad(gt) or np.asarray(gt).shape != want_shape:
            ctx.compare("batch_thrust", orbs[0], gt, x0s[0], 1.0, 1.0, nontrivial=True, detail="layout", extra={"K": K}, shape=want_shape)
        else:
            gt2 = np.asarray(gt).reshape(6, K)
            for k, orb in enumerate(orbs):
                single = _call(dyn.propagate, t0, t2, x0s[k].copy(), scheduled_events=burn())
                if _bad(single):
                    continue
                # the burn really acts (2e-5 km/s^2 over T): otherwise the comparison says nothing
                acts = fw.maxabs(single[3:], wholes[k][3:]) > 0.2 * 2.0e-5 * T
                ctx.compare("batch_thrust", orb, gt2[:, k], single, ctx.tp(orb[0], orb[1]), ctx.tv(orb[0], orb[1]), nontrivial=bool(acts),
                            detail="column", extra={"K": K, "col": k, "burn_acts": bool(acts)})
    if mode == "batch_only":
        return ctx
    # propagateBulk with the (6, K) layout
    gf = GRID3
    times = [t0] + [t0 + f * T for f in gf]
    out = _call(dyn.propagateBulk, times, X.copy())
    if _bad(out) or np.asarray(out).shape != (6, K, len(gf)):
        ctx.compare("grid", orbs[0], out, x0s[0], 1.0, 1.0, nontrivial=True, detail="layout2d", extra={"K": K, "grid": "grid3"}, shape=(6, K, len(gf)))
    else:
        res.observe(out)
        for k, orb in enumerate(orbs):
            a, e = orb[0], orb[1]
            for j, f in enumerate(gf):
                if f in seps[k] and not _bad(seps[k][f]):
                    ctx.compare("grid", orb, out[:, k, j], seps[k][f], ctx.tp(a, e), ctx.tv(a, e), nontrivial=True, detail="layout2d",
                                extra={"K": K, "col": k, "grid": "grid3", "j": j, "frac": f})
    # restart inside a batch: the same constant change is added to every column at 0.5 T (propagate); a null event
    # strictly inside a grid interval and one on a grid time (propagateBulk; the restart bookkeeping of the output)
    if mode in ("full", "sp") and K > 1:
        f = 0.5
        t1 = t0 + f * T
        delta = np.concatenate((np.zeros(3), RESTART_DV))
        ev = _RestartEvent(t1, delta)
        got = _call(dyn.propagate, t0, t2, X.copy(), scheduled_events=[ev])
        if _bad(got) or np.asarray(got).shape != (6, K):
            ctx.compare("restart", orbs[0], got, x0s[0], 1.0, 1.0, nontrivial=True, detail="batch_layout" + _sfx(ev, got), extra={"K": K}, shape=(6, K))
        else:
            for k, orb in enumerate(orbs):
                a, e = orb[0], orb[1]
                mid = seps[k].get(f)
                if mid is None:
                    mid = _call(dyn.propagate, t0, t1, x0s[k])
                if _bad(mid):
                    continue
                want = _call(dyn.propagate, t1, t2, mid + delta)
                if not _bad(want):
                    ctx.compare("restart", orb, got[:, k], want, ctx.tp(a, e), ctx.tv(a, e), nontrivial=True,
                                detail="batch_state_change" + ev.suffix, extra={"K": K, "col": k, "frac": f, "event_time": t1, "fired": ev.calls})
    if mode in ("full", "lean", "sp", "sp_lean") and K > 1:
        with_dv = mode in ("full", "sp")  # a real state change where the hand-made split is affordable, else a null event
        delta = np.concatenate((np.zeros(3), RESTART_DV)) if with_dv else np.zeros(6)
        for label, f in (("inside_interval", 0.5), ("on_grid_time", GRID3[0])):
            t1 = t0 + f * T
            ev = _RestartEvent(t1, delta)
            out = _call(dyn.propagateBulk, times, X.copy(), scheduled_events=[ev])
            if _bad(out) or np.asarray(out).shape != (6, K, len(gf)):
                # root cause attribution: propagate() takes the same steps (t_eval does not influence them) and counts the firings
                twin = _RestartEvent(t1, delta)
                _call(dyn.propagate, t0, t2, X.copy(), scheduled_events=[twin])
                ctx.compare("restart_bulk", orbs[0], out, x0s[0], 1.0, 1.0, nontrivial=True, detail=f"layout/{label}{_sfx(twin, out)}",
                            extra={"K": K, "event_time": t1, "fired": twin.calls}, shape=(6, K, len(gf)))
                continue
            for k, orb in enumerate(orbs):
                a, e = orb[0], orb[1]
                # expected outputs: separate calls, with the change added by hand at t1
                want = {}
                if not with_dv:
                    want = {fj: seps[k].get(fj) for fj in gf}
                else:
                    state = seps[k].get(f)
                    if state is None:
                        state = _call(dyn.propagate, t0, t1, x0s[k])
                    state = state if _bad(state) else state + delta
                    tcur = t1
                    for fj in gf:
                        if fj < f:
                            want[fj] = seps[k].get(fj)
                        elif fj == f:
                            want[fj] = state
                        else:
                            state = state if _bad(state) else _call(dyn.propagate, tcur, t0 + fj * T, state)
                            tcur = t0 + fj * T
                            want[fj] = state
                for j, fj in enumerate(gf):
                    if want.get(fj) is None or _bad(want[fj]):
                        continue
                    ref = want[fj]
                    if with_dv and fj == f:
                        # The output time IS the event time: whether this output is the state just before or just after
                        # the change is decided by the last bit of the solver's event root (celestial.py compares it with
                        # the output time by ==): either side is accepted (boundary case on the predicate's own threshold).
                        # The event's own record settles it: fired AT or before the output time -> this output lies after
                        # the change (what a separate propagate(t0, t_out) with the same schedule returns, the event on its
                        # end point included); only a root reported one ulp LATE leaves the output before the change.
                        late_root = not ev.fired_at or ev.fired_at[0] > t1
                        if late_root:
                            res.either_way += 1
                            pre = ref - delta
                            if fw.maxabs(np.asarray(out[:, k, j])[3:], pre[3:]) < fw.maxabs(np.asarray(out[:, k, j])[3:], ref[3:]):
                                ref = pre
                    ctx.compare("restart_bulk", orb, out[:, k, j], ref, ctx.tp(a, e), ctx.tv(a, e), nontrivial=True,
                                detail=label + ev.suffix, extra={"K": K, "col": k, "j": j, "event_frac": f, "event_time": t1, "fired": ev.calls})
    return ctx


def _conserve(ctx, orb, x0, x1, nontrivial, where):
    a = orb[0]
    tol = tol_conserve(a, ctx.T)
    try:
        e0, e1 = kr.energy(x0), kr.energy(x1)
        h0, h1 = kr.ang_mom(x0), kr.ang_mom(x1)
        n0, n1 = kr.vnorm(h0), kr.vnorm(h1)
        de = abs(e1 - e0) / abs(e0)
        dh = abs(n1 - n0) / n0
        ddir = kr.vnorm(kr.cross(h0, h1)) / (n0 * n1)
    except (ZeroDivisionError, OverflowError, ValueError):  # degenerate output state (r = 0, h = 0, non-finite)
        de = dh = ddir = math.inf
    ctx.ratio("conserve", max(de, dh, ddir) / tol)
    for name, val in (("energy", de), ("h_norm", dh), ("h_direction", ddir)):
        ctx.res.case("conserve", ctx.base(orb, quantity=name, where=where), val <= tol, nontrivial=nontrivial,
                     signature=f"C03/conserve/{ctx.kind}/{ctx.method}/{name}", observed=val, expected=f"<= {tol:.3g}",
                     outcome="within" if val <= tol else "outside", item=ctx.item)


def _abs_dt(jd):
    """UTC datetime of a Julian date of the lattice (own arithmetic: the difference of two doubles of the same binade is
    exact, the timedelta keeps microseconds)."""
    return datetime(2018, 6, 15, 7, 30, 0) + timedelta(days=float(jd) - 2458284.8125)


def _frac_starts(jd):
    """Start epochs that are not whole seconds: [(name, julian date)]."""
    return [("ms_timestamp", jd + FRAC_START_MS / 86400.0), ("typed_julian_date", math.floor(jd) + FRAC_START_TYPED_JD)]


def _perigee_rate(a, e):
    rp = a * (1.0 - e)
    return math.sqrt(MU * (1.0 + e) / rp) / rp


def _res_tol(a, e, T, w0, w1):
    """Tolerance of the epoch-resolution subcheck (RK45, smooth force models) from the measured effect of moving the
    force-model epoch by one second (w1 against w0): see module docstring.  Returns (tol_km, tol_kms, resolvable)."""
    n = _perigee_rate(a, e)
    sens = max(fw.maxabs(w1[:3], w0[:3]), fw.maxabs(w1[3:], w0[3:]) / n)  # km per second of epoch slip
    tp = tol_pos(a, e, T) / RES_FLOOR_DIV + EPOCH_RES_S * sens
    return tp, tp * n + 1e-15, bool(0.25 * sens > 4.0 * tp)


class _ForceRef:
    """Acceleration of the independent reference force model at absolute UTC instants (cached), with the tolerance of
    the force-epoch subcheck: EPOCH_RES_S seconds of the reference's own rate of change of the acceleration with the epoch
    at fixed state (difference over one second: the Earth turns 7e-5 rad, linear), plus 4e-15 |a| (18 eps) for the summation of
    the acceleration terms (measured library - reference where the rate term vanishes: <= 3.7 eps |a|, five seeds)."""

    def __init__(self, kind):
        self.kind = kind
        self.cache = {}

    def at(self, when, x):
        key = (when, tuple(float(c) for c in x))
        if key not in self.cache:
            deg, order, bodies, srp, gr = SP_CFG[self.kind]
            args = (ES_MODEL, deg, order, list(bodies), srp, gr, SAT_RATIO)
            a0 = np.asarray(spref.acceleration(when, x[:3], x[3:], *args), dtype=float)
            a1 = np.asarray(spref.acceleration(when + timedelta(seconds=1.0), x[:3], x[3:], *args), dtype=float)
            rate = float(np.max(np.abs(a1 - a0)))
            tol = EPOCH_RES_S * rate + 4e-15 * float(np.linalg.norm(a0))
            self.cache[key] = (a0, rate, tol, bool(0.25 * rate > 10.0 * tol))
        return self.cache[key]


def _derivative(obj, t_el, x):
    """The derivative the integrator sees: ``_differentialEquation`` (the property's anchor: the place where the force-model
    epoch is formed from start date and elapsed seconds), called the way solve_ivp calls it (plain float time, 1-D state)."""
    return _call(obj._differentialEquation, float(t_el), np.array(x, dtype=float))  # noqa: SLF001


def _force_epoch(ctx, orb, got, x, want, rate, tol, *, nontrivial, detail, extra):
    """got = _derivative(object, elapsed time, x): velocity part = the state's velocity, acceleration = want within tol."""
    case = ctx.base(orb, **extra)
    sig = f"C03/force_epoch/{ctx.kind}/{detail}"
    if _bad(got) or np.asarray(got).shape != (6,) or not np.all(np.isfinite(got)):
        return ctx.res.case("force_epoch", case, False, nontrivial=nontrivial, signature=f"{sig}/exception_or_shape",
                            observed=repr(got)[:200], expected="a (6,) derivative", item=ctx.item)
    got = np.asarray(got, dtype=float)
    err = fw.maxabs(got[3:], want)
    ok = err <= tol and bool(np.array_equal(got[:3], np.asarray(x, dtype=float)[3:]))
    ctx.ratio("force_epoch", err / tol)
    ctx.res.observe(got)
    return ctx.res.case("force_epoch", case, ok, nontrivial=nontrivial, signature=sig,
                        observed={"acc_err_kms2": err, "epoch_slip_equivalent_s": err / rate if rate > 0.0 else None, "derivative": got},
                        expected={"tol_kms2": tol, "acceleration": want}, outcome="within" if ok else "outside", item=ctx.item)


def _epoch(ctx, orb, x0, whole, jd):
    T, t0 = ctx.T, ctx.t0
    kind, method = ctx.kind, ctx.method
    a, e = orb[0], orb[1]
    tp = tol_epoch(a, e, T) + ctx.srp_pos
    tv = tol_vel(a, e, T) / 5.0 + ctx.srp_vel
    # measured sensitivity: the same call with the epoch moved by 1000 s and t NOT compensated
    wit = _call(_dynamics(kind, method, jd + 1000.0 / 86400.0).propagate, t0, t0 + T, x0)
    sens = 0.0 if _bad(wit) else fw.maxabs(wit[:3], whole[:3])
    lean = ctx.mode == "sp_lean"
    shifts = EPOCH_SHIFTS if not lean else [1000.0, 86400.0]
    frac = EPOCH_SHIFTS_FRAC if not lean else EPOCH_SHIFTS_FRAC_LEAN
    frac_prop = frac
    if kind == "sp_srp":
        shifts = [86400.0, 30.0 * 86400.0]  # the Sun direction moves ~1 deg/day: a month makes an epoch slip in SRP visible
        frac_prop = []  # no tesseral field: a sub-second epoch slip moves the state by < 1e-10 km (force-epoch subcheck only)
    if T < 300.0:
        frac_prop = []  # a sub-second epoch slip moves the state by < 1e-9 km in ten seconds (force-epoch subcheck only)
    # epoch resolution through propagate: RK45 on smooth force models, spans from five minutes (see module docstring)
    tight = method == "RK45" and not SP_CFG[kind][3] and T >= 300.0
    starts = [("whole_second", jd, whole, shifts + frac_prop, shifts + frac)]
    for name, jb in _frac_starts(jd):
        wb = None
        if tight and not lean:
            wb = _call(_dynamics(kind, method, jb).propagate, t0, t0 + T, x0)
            if _bad(wb) or np.asarray(wb).shape != (6,):
                ctx.compare("epoch_shift", orb, wb, x0, math.inf, math.inf, nontrivial=True, detail="fractional_start", extra={"start": name})
                wb = None
        starts.append((name, jb, wb, FRAC_START_SHIFTS if wb is not None else [], FRAC_START_SHIFTS + [1800.4]))
    fref = _ForceRef(kind)
    for name, jb, wb, prop_shifts, force_shifts in starts:
        res_tol = None
        if tight and wb is not None:
            w1 = _call(_dynamics(kind, method, jb + 1.0 / 86400.0).propagate, t0, t0 + T, x0)
            if not _bad(w1):
                res_tol = _res_tol(a, e, T, wb, w1)
        for d in prop_shifts:
            if t0 - d < 0.0:
                continue  # elapsed scenario seconds are non-negative in the property's domain (SP items start at t0 >= 86400 s)
            dyn2 = _dynamics(kind, method, jb + d / 86400.0)
            got = _call(dyn2.propagate, t0 - d, t0 + T - d, x0)
            nontriv = sens * abs(d) / 1000.0 > 100.0 * tp
            extra = {"delta_s": d, "sensitivity_km_per_1000s": sens}
            if name != "whole_second":
                extra["start"] = name
            ctx.compare("epoch_shift", orb, got, wb, tp, tv, nontrivial=nontriv, detail="shifted_start", extra=extra)
            if res_tol is not None:
                ctx.compare("epoch_resolution", orb, got, wb, res_tol[0], res_tol[1], nontrivial=res_tol[2], detail="shifted_start",
                            extra={"delta_s": d, "start": name, "tol_is_epoch_slip_of_s": EPOCH_RES_S})
        # the derivative itself at both ends of the span, for every split of the two absolute instants
        when0 = _abs_dt(jb)
        unshifted = _dynamics(kind, method, jb)
        for t_abs, x in ((t0, x0), (t0 + T, whole)):
            want, rate, tol, resolvable = fref.at(when0 + timedelta(seconds=t_abs), x)
            base_acc = None
            for d in [0.0] + force_shifts:
                if t0 - d < 0.0:
                    continue
                obj = unshifted if d == 0.0 else _dynamics(kind, method, jb + d / 86400.0)
                extra = {"delta_s": d, "start": name, "elapsed_s": t_abs - d, "acc_rate_kms2_per_s": rate}
                acc = _derivative(obj, t_abs - d, x)
                _force_epoch(ctx, orb, acc, x, want, rate, tol, nontrivial=resolvable and (d != 0.0 or name != "whole_second"),
                             detail="vs_absolute_epoch_reference", extra=extra)
                if d == 0.0:
                    base_acc = None if (_bad(acc) or np.asarray(acc).shape != (6,)) else np.asarray(acc, dtype=float)[3:]
                elif base_acc is not None:
                    _force_epoch(ctx, orb, acc, x, base_acc, rate, tol, nontrivial=resolvable, detail="split_vs_split", extra=extra)


# ------------------------------------------------------------------------------------------------ epoch split (factory + clock)
def _start_dt(seed):
    """UTC datetime of ``_jd0(seed)``."""
    return datetime(2018, 6, 15, 7, 30, 0) + timedelta(days=int(seed) % 1000)


def _clock(start, T):
    """A real ScenarioClock (fresh in-memory database for its epoch rows) started at ``start`` and ticked to T seconds."""
    step = ES_CLOCK_STEP if T <= 10.0 * 86400.0 else 3600.0
    scen.fresh()
    setDBPath("sqlite://")
    n = int(math.floor(T / step + 1e-9))
    rem = T - n * step
    clk = ScenarioClock(start, (n + 2) * step, step)
    for _ in range(n):
        clk.ticToc()
    if rem > 1e-9:
        clk.ticToc(rem)  # a last partial tick: elapsed times that are not a multiple of the step (fractional start-date shifts)
    if (rem <= 1e-9 and float(clk.time) != float(T)) or abs(float(clk.time) - float(T)) > 1e-9:
        raise RuntimeError(f"harness: clock at {float(clk.time)} instead of {T}")
    return clk


def _factory_dynamics(kind, method, start, T, x0):
    """dynamicsFactory called the way Scenario.addTarget calls it, with a clock that shows T elapsed seconds."""
    deg, order, bodies, srp, gr = SP_CFG[kind]
    agent = AgentConfig(name="added", id=40002, platform=dict(ES_PLATFORM),
                        state={"type": "eci", "position": [float(c) for c in x0[:3]], "velocity": [float(c) for c in x0[3:]]})
    prop = PropagationConfig(propagation_model="special_perturbations", integration_method=method)
    geo = GeopotentialConfig(model=ES_MODEL, degree=deg, order=order)
    pert = PerturbationsConfig(third_bodies=list(bodies), solar_radiation_pressure=srp, general_relativity=gr)
    return dynamicsFactory(agent, prop, geo, pert, _clock(start, T))


def _run_epoch_split(res, item):
    _, kind, span, Ts, rk_T, jd, seed, orb = item[:8]
    s_off = float(item[8]) if len(item) > 8 else 0.0  # fraction of a second carried by the start timestamp
    span, jd = float(span), float(jd) + s_off / 86400.0
    deg, order, bodies, srp, gr = SP_CFG[kind]
    start = _start_dt(seed) + timedelta(seconds=s_off)
    x0 = _state(orb)
    a, e = orb[0], orb[1]
    ratios = {}
    fref = _ForceRef(kind)
    for T in [float(t) for t in Ts]:
        when = start + timedelta(seconds=T)
        # (c) independent reference: the state `span` seconds after the absolute instant S + T (no start/elapsed pair)
        ref = _call(spref.propagate, when, x0, span, ES_MODEL, deg, order, list(bodies), srp, gr, SAT_RATIO)
        if _bad(ref):
            raise RuntimeError(f"harness: reference trajectory failed: {ref!r}")
        ref = ref[0]
        acc_ref, acc_rate, acc_tol, acc_resolvable = fref.at(when, x0)
        # measured effect of counting T twice: direct construction with the epoch moved by T, elapsed time not compensated
        sens = 0.0
        if T > 0.0:
            wit = _call(_dynamics(kind, "DOP853", jd + T / 86400.0).propagate, T, T + span, x0)
            sens = 0.0 if _bad(wit) else fw.maxabs(wit[:3], ref[:3])
        for method in METHODS:
            if method == "RK45" and T > 0.0 and T not in [float(t) for t in rk_T]:
                continue
            ctx = _Ctx(res, item, kind, method, span, T)
            ctx.ratios = ratios
            tp_e, tv_e = tol_epoch(a, e, span) + ctx.srp_pos, tol_vel(a, e, span) / 5.0 + ctx.srp_vel
            # reference comparison: library global error + (SRP) twice the whole effect of SRP, see module docstring
            tp_r = tol_pos(a, e, span) + (2.0 * A_SRP * span * span if srp else 0.0)
            tv_r = tol_vel(a, e, span) + (8.0 * A_SRP * span if srp else 0.0)
            extra = {"elapsed_T": T, "sensitivity_km": sens}
            if s_off:
                extra["start_fraction_s"] = s_off
            dyn_a = _call(_factory_dynamics, kind, method, start, T, x0)
            got_a = dyn_a if _bad(dyn_a) else _call(dyn_a.propagate, ScenarioTime(T), ScenarioTime(T + span), x0.copy())
            ctx.compare("epoch_split", orb, got_a, ref, tp_r, tv_r, nontrivial=sens > 100.0 * tp_r, detail="factory_vs_absolute_epoch_reference",
                        extra=dict(extra, split="(S, T)"))
            if _bad(got_a) or np.asarray(got_a).shape != (6,):
                continue
            res.observe(got_a)
            # the derivative the factory-built object hands to the integrator at elapsed time T, against the reference
            # force model at the absolute instant S + T (non-trivial when T > 0 or the start carries a fraction of a second)
            acc_a = _derivative(dyn_a, T, x0)
            _force_epoch(ctx, orb, acc_a, x0, acc_ref, acc_rate, acc_tol, nontrivial=acc_resolvable and (T > 0.0 or s_off != 0.0),
                         detail="factory_vs_absolute_epoch_reference", extra=dict(extra, split="(S, T)"))
            if T == 0.0:
                continue
            acc_a = None if (_bad(acc_a) or np.asarray(acc_a).shape != (6,)) else np.asarray(acc_a, dtype=float)[3:]
            # epoch resolution through propagate (RK45, smooth force models): the same object one second later
            res_tol = None
            if method == "RK45" and not srp:
                w1 = _call(dyn_a.propagate, ScenarioTime(T + 1.0), ScenarioTime(T + 1.0 + span), x0.copy())
                if not _bad(w1):
                    res_tol = _res_tol(a, e, span, got_a, w1)
            splits = [("factory_vs_restarted_clock", T)]
            t1 = 300.0 * math.floor(T / 600.0)
            if method == "DOP853" and 0.0 < t1 < T:
                splits.append(("factory_vs_other_split", t1))
            if T in ES_FRAC_SPLIT:
                splits.append(("factory_vs_fractional_split", ES_FRAC_SPLIT[T]))
            for detail, shift in splits:
                te = T - shift
                dyn_b = _call(_factory_dynamics, kind, method, start + timedelta(seconds=shift), te, x0)
                got_b = dyn_b if _bad(dyn_b) else _call(dyn_b.propagate, ScenarioTime(te), ScenarioTime(te + span), x0.copy())
                ex = dict(extra, split=f"(S+{shift:g}, {te:g})")
                # with the elapsed time counted twice the two runs sit at S + 2T and S + 2T - shift: they differ by `shift`
                ctx.compare("epoch_split", orb, got_b, got_a, tp_e, tv_e, nontrivial=sens * shift / T > 100.0 * tp_e, detail=detail, extra=ex)
                # and each split on its own against the absolute-epoch reference
                ctx.compare("epoch_split", orb, got_b, ref, tp_r, tv_r, nontrivial=sens * (T - shift) / T > 100.0 * tp_r,
                            detail="factory_vs_absolute_epoch_reference", extra=ex)
                if _bad(got_b) or np.asarray(got_b).shape != (6,):
                    continue
                if res_tol is not None:
                    ctx.compare("epoch_resolution", orb, got_b, got_a, res_tol[0], res_tol[1], nontrivial=res_tol[2], detail=detail,
                                extra=dict(ex, tol_is_epoch_slip_of_s=EPOCH_RES_S))
                acc_b = _derivative(dyn_b, te, x0)
                _force_epoch(ctx, orb, acc_b, x0, acc_ref, acc_rate, acc_tol, nontrivial=acc_resolvable,
                             detail="factory_vs_absolute_epoch_reference", extra=ex)
                if acc_a is not None:
                    _force_epoch(ctx, orb, acc_b, x0, acc_a, acc_rate, acc_tol, nontrivial=acc_resolvable, detail=detail, extra=ex)
    res.case("input_unchanged", {"dyn": kind, "a": a, "e": e, "family": "epoch_split", "start_fraction_s": s_off}, bool(np.array_equal(x0, _state(orb))),
             signature=f"C03/input_mutated/{kind}/epoch_split", item=item)
    return ratios


# ------------------------------------------------------------------------------------------------ twins in a real Scenario
TWIN_A, TWIN_B, TWIN_B2, TWIN_S, TWIN_GROUND, TWIN_ENGINE = 40001, 40002, 40003, 60002, 60001, 7


def _twin_config(kind, method, start, n_steps, x0, events):
    deg, order, bodies, srp, gr = SP_CFG[kind]
    sat_a = scen.target_eci(TWIN_A, x0[:3], x0[3:])
    sat_a["platform"] = dict(ES_PLATFORM)
    return scen.config(
        start, n_steps, [scen.engine(TWIN_ENGINE, [sat_a], [scen.ground_sensor(TWIN_GROUND, 10.0, 20.0)])],
        physics=int(TWIN_DT), truth_only=True, model="special_perturbations", integrator=method, events=events, seed=11,
        geopotential={"model": ES_MODEL, "degree": deg, "order": order},
        perturbations={"third_bodies": list(bodies), "solar_radiation_pressure": srp, "general_relativity": gr},
    )


def _run_epoch_twin(res, item):
    _, kind, method, dt, k_add, n_after, seed, orb = item
    dt, k_add, n_after = float(dt), int(k_add), int(n_after)
    start = _start_dt(seed)
    T = k_add * dt
    x0 = _state(orb)
    n_steps = k_add + n_after + 1
    nontriv = T > 0.0
    sig = f"C03/epoch_twin/{kind}/{method}"

    def base(**kw):
        d = {"dyn": kind, "method": method, "elapsed_T": T, "dt": dt, "a": orb[0], "e": orb[1], "inc": orb[2],
             "raan": round(orb[3], 6), "argp": round(orb[4], 6), "nu": round(orb[5], 6)}
        d.update(kw)
        return d

    def jd_at(k):
        return datetimeToJulianDate(start + timedelta(seconds=k * dt))

    def same(path, step, got, want):
        got, want = np.asarray(got, dtype=float), np.asarray(want, dtype=float)
        ok = got.shape == want.shape and bool(np.array_equal(got, want))
        err = fw.maxabs(got[:3], want[:3]) if got.shape == want.shape and got.ndim == 1 and got.size >= 3 else math.inf
        res.case("epoch_twin", base(path=path, steps_after_addition=step), ok, nontrivial=nontriv, signature=f"{sig}/{path}",
                 observed={"pos_diff_km": err, "state": got}, expected={"pos_diff_km": 0.0, "state": want},
                 outcome="identical" if ok else "differs", item=item)

    def fail(path, exc):
        res.case("epoch_twin", base(path=path), False, nontrivial=nontriv, signature=f"{sig}/{path}/exception/{type(exc).__name__}",
                 observed=repr(exc)[:200], expected="twin flies with A", item=item)

    def twin_spec(ident, state, sensor):
        pos, vel = [float(c) for c in state[:3]], [float(c) for c in state[3:]]
        spec = scen.space_sensor(ident, pos, vel) if sensor else scen.target_eci(ident, pos, vel)
        # explicit mass / cross-section / reflectivity: the configuration defaults depend on the altitude regime of the
        # state the agent is configured with, and a twin configured later on the same orbit may sit in another regime
        spec["platform"] = dict(ES_PLATFORM)
        return spec

    # ---- run 1: the public addTarget / addSensor calls at clock time T
    path = "added_by_call"
    try:
        app = scen.build(_twin_config(kind, method, start, n_steps, x0, []))
        if k_add:
            app.propagateTo(jd_at(k_add))
        if float(app.clock.time) != T:
            raise RuntimeError(f"harness: scenario clock at {float(app.clock.time)} instead of {T}")
        sa = np.array(app.target_agents[TWIN_A].eci_state, dtype=float)
        app.addTarget(twin_spec(TWIN_B, sa, False), TWIN_ENGINE)
        app.addTarget(AgentConfig(**twin_spec(TWIN_B2, sa, False)), TWIN_ENGINE)
        app.addSensor(twin_spec(TWIN_S, sa, True), TWIN_ENGINE)
        # the dynamics objects the scenario built for the added agents, one step from the common state
        dyn_ref = app.target_agents[TWIN_A].dynamics
        want = dyn_ref.propagate(ScenarioTime(T), ScenarioTime(T + dt), sa.copy())
        objs = {
            "dynamics_object/truth": app.target_agents[TWIN_B].dynamics,
            "dynamics_object/truth_from_AgentConfig": app.target_agents[TWIN_B2].dynamics,
            "dynamics_object/sensor": app.sensor_agents[TWIN_S].dynamics,
            "dynamics_object/filter": app.estimate_agents[TWIN_B].nominal_filter.dynamics,
        }
        filt_ref = app.estimate_agents[TWIN_A].nominal_filter.dynamics
        for name, obj in objs.items():
            ref_obj = filt_ref if name.endswith("filter") else dyn_ref
            w = want if ref_obj is dyn_ref else ref_obj.propagate(ScenarioTime(T), ScenarioTime(T + dt), sa.copy())
            same(name, 1, obj.propagate(ScenarioTime(T), ScenarioTime(T + dt), sa.copy()), w)
        for k in range(1, n_after + 1):
            app.propagateTo(jd_at(k_add + k))
            a_now = np.array(app.target_agents[TWIN_A].eci_state, dtype=float)
            res.observe(a_now)
            same("added_by_call/addTarget_dict", k, app.target_agents[TWIN_B].eci_state, a_now)
            same("added_by_call/addTarget_AgentConfig", k, app.target_agents[TWIN_B2].eci_state, a_now)
            same("added_by_call/addSensor", k, app.sensor_agents[TWIN_S].eci_state, a_now)
            # the truth record the agent hands to the database
            rec_a, rec_b = app.target_agents[TWIN_A].getCurrentEphemeris(), app.target_agents[TWIN_B].getCurrentEphemeris()
            same("added_by_call/ephemeris_record", k, [*rec_b.eci, float(rec_b.julian_date)], [*rec_a.eci, float(rec_a.julian_date)])
    except Exception as exc:  # noqa: BLE001 - an exception on a lattice point is a reported outcome
        fail(path, exc)
        return {}
    # ---- run 2: the same additions made by scenario events (start_time = end of the step T -> T+dt, see ASSUMPTIONS).
    # The addition events carry the state only, not mass / cross-section / reflectivity (the added agent gets the defaults
    # of its altitude regime): under SRP an event-added twin is a different spacecraft, so SRP configurations stop here.
    if SP_CFG[kind][3]:
        return {}
    path = "added_by_event"
    try:
        when = scen.iso(start + timedelta(seconds=T + dt))
        events = [
            {"scope": "scenario_step", "scope_instance_id": 0, "start_time": when, "event_type": "target_addition",
             "tasking_engine_id": TWIN_ENGINE, "target_agent": twin_spec(TWIN_B, sa, False)},
            {"scope": "scenario_step", "scope_instance_id": 0, "start_time": when, "event_type": "sensor_addition",
             "tasking_engine_id": TWIN_ENGINE, "sensor_agent": twin_spec(TWIN_S, sa, True)},
        ]
        app = scen.build(_twin_config(kind, method, start, n_steps, x0, events))
        for k in range(1, n_after + 1):
            app.propagateTo(jd_at(k_add + k))
            a_now = np.array(app.target_agents[TWIN_A].eci_state, dtype=float)
            present = TWIN_B in app.target_agents and TWIN_S in app.sensor_agents
            res.case("epoch_twin", base(path=path, steps_after_addition=k), present, nontrivial=nontriv, signature=f"{sig}/added_by_event/agent_missing",
                     observed=present, expected=True, item=item)
            if not present:
                continue
            same("added_by_event/target", k, app.target_agents[TWIN_B].eci_state, a_now)
            same("added_by_event/sensor", k, app.sensor_agents[TWIN_S].eci_state, a_now)
    except Exception as exc:  # noqa: BLE001
        fail(path, exc)
    return {}


# ------------------------------------------------------------------------------------------------ station keeping
def _sk_elements(name, t0, seed, shift_deg=0.0):
    """(slot elements, start elements) [a, e, inc, raan, argp, nu] (km, deg) of a station-keeping target.

    GEO: the slot is an equatorial circular orbit of radius SK_A_GEO whose inertial longitude at scenario time 0 is nu0; it
    turns with the Earth, so at t0 the slot sits at nu0 + n t0, and the start state is placed `dlon` east of it with the
    semi-major axis offset `da` (inclined targets: node at `raan`, argument of latitude = that inertial longitude - raan, the
    difference to the true longitude is i^2 / 4 = 0.001 deg).  LEO: the keeper looks at the semi-major axis only."""
    regime, _routines, dlon, da, inc, ecc = SK_TARGETS[name][:6]
    p_raan, p_argp, _p_nu = _phase(seed)
    if regime == "geo":
        nu0 = (100.0 + p_raan + shift_deg) % 360.0
        rate = math.degrees(math.sqrt(MU / SK_A_GEO**3))  # deg/s
        lon = nu0 + rate * t0 + dlon
        raan = (10.0 + p_argp) % 360.0 if inc else 0.0
        return [SK_A_GEO, ecc, 0.0, 0.0, 0.0, nu0], [SK_A_GEO + da, ecc, inc, raan, 0.0, (lon - raan) % 360.0]
    a = SK_LEO_A[seed % 2]
    raan, argp = (40.0 + p_raan) % 360.0, (70.0 + p_argp) % 360.0
    rate = math.degrees(math.sqrt(MU / a**3))
    return [a, ecc, inc, raan, argp, 57.0], [a + da, ecc, inc, raan, argp, (57.0 + rate * t0) % 360.0]


def _sk_keepers(routines, slot_state, jd, log):
    """Keepers built the way the agents build them (Agent._createStationKeepers -> StationKeeper.factory) from the slot state
    at the scenario start epoch; every burn they hand out is written to `log` as (keeper class, time, |dv|)."""
    platform = SpacecraftConfig(station_keeping={"routines": list(routines)})
    keepers = Agent._createStationKeepers(True, SK_RSO, platform, np.array(slot_state, dtype=float), JulianDate(jd))  # noqa: SLF001
    if len(keepers) != len(routines):
        raise RuntimeError(f"harness: {len(keepers)} keepers built for routines {routines}")
    for keeper in keepers:
        def spy(time_, state_, _orig=keeper.getStateChange, _name=type(keeper).__name__):
            change = _orig(time_, state_)
            log.append((_name, float(time_), float(np.linalg.norm(np.asarray(change, dtype=float)[3:]))))
            return change

        keeper.getStateChange = spy  # instance attribute: Celestial._applyEvents calls event.getStateChange(...)
    return keepers


def _sk_slot(name, t0, seed, jd):
    """(slot elements, start elements, shift): a GEO slot within SK_LON_GUARD_DEG of the +-180 deg meridian is moved by
    10 deg (the library's own longitude of the slot; harness guard only, needs an initialised key-value store)."""
    shift = 0.0
    for _ in range(4):
        slot_el, start_el = _sk_elements(name, t0, seed, shift)
        if SK_TARGETS[name][0] != "geo":
            break
        probe = _sk_keepers(["GEO EW"], _state(slot_el), jd, [])[0]
        if abs(abs(math.degrees(probe.initial_lon)) - 180.0) > SK_LON_GUARD_DEG:
            break
        shift += 10.0
    return slot_el, start_el, shift


def _sk_drain():
    """Pop the EventStack records the burns pushed into the key-value store."""
    out = []
    while len(out) < 100000:
        rec = KeyValueStore.popValue(EventStack.EVENT_STACK_LOCATION, 0)
        if not rec:
            break
        rec = EventRecord.fromSerial(rec)
        out.append((str(rec.event_type), int(rec.performer)))
    return out


def _sk_decomposition(dyn, routines, slot_state, x0, jd, legs, *, how="propagate"):
    """One decomposition of the span: consecutive propagate calls over `legs` = [t0, t1, ..., tN], each preceded by what
    PropagateRegistration.generateSubmission does (reductions of the call's start instant handed to every keeper).
    how = "batch_of_one": the state goes in as a (6, 1) block with ScenarioTime arguments; "bulk": one propagateBulk call
    with the legs as output times.  Returns {"state", "burns", "records"} or the exception."""
    log = []
    try:
        keepers = _sk_keepers(routines, slot_state, jd, log)
        state = np.array(x0, dtype=float)
        if how == "bulk":
            red = ReductionParams.build(_abs_dt(jd) + timedelta(seconds=legs[0]))
            for keeper in keepers:
                keeper.reductions = red
            # the documented (6, K) layout with K = 1
            out = _call(dyn.propagateBulk, [float(t) for t in legs], state.reshape(6, 1).copy(), station_keeping=keepers)
            if _bad(out):
                raise out
            out = np.asarray(out)
            if out.shape != (6, 1, len(legs) - 1):
                raise ValueError(f"propagateBulk returned shape {out.shape}")
            state = out[:, 0, -1]
        else:
            for ta, tb in zip(legs, legs[1:]):
                red = ReductionParams.build(_abs_dt(jd) + timedelta(seconds=ta))
                for keeper in keepers:
                    keeper.reductions = red
                if how == "batch_of_one":
                    state = _call(dyn.propagate, ScenarioTime(ta), ScenarioTime(tb), np.array(state, dtype=float).reshape(6, 1), station_keeping=keepers)
                else:
                    state = _call(dyn.propagate, float(ta), float(tb), np.array(state, dtype=float), station_keeping=keepers)
                if _bad(state):
                    raise state
        return {"state": np.asarray(state, dtype=float), "burns": list(log), "records": _sk_drain()}
    except Exception as exc:  # noqa: BLE001 - an exception on a lattice point is a reported outcome
        _sk_drain()
        return exc


def _sk_burns_json(burns, t0):
    return [[b[0], round(b[1] - t0, 6), b[2]] for b in burns[:12]] + ([f"... {len(burns)} in all"] if len(burns) > 12 else [])


def _run_station_keeping(res, item):
    _, kind, method, name, t0, jd, seed, plan = item
    t0, jd, seed = float(t0), float(jd), int(seed)
    regime, routines, dlon, da, inc, ecc, exp_tb, exp_sp = SK_TARGETS[name]
    two_body = kind == "twobody"
    expect = exp_tb if two_body else exp_sp
    scen.fresh()
    setDBPath("sqlite://")
    slot_el, start_el, shift = _sk_slot(name, t0, seed, jd)
    slot, x0 = _state(slot_el), _state(start_el)
    a, e = start_el[0], start_el[1]
    dyn = _dynamics(kind, method, jd)
    ratios = {}
    root = "C03/station_keeping"
    tag = f"{kind}/{method}/{name}"

    def base(ctx, **kw):
        d = ctx.base(start_el, target=name, routines="+".join(routines), expected_burns=expect, slot_shift_deg=shift)
        d.update(kw)
        return d

    for span, steps in plan:
        span = float(span)
        ctx = _Ctx(res, item, kind, method, span, t0)
        ctx.ratios = ratios
        tp, tv = ctx.tp(a, e), ctx.tv(a, e)
        t2 = t0 + span
        whole = _sk_decomposition(dyn, routines, slot, x0, jd, [t0, t2])
        if _bad(whole):
            res.case("sk_split", base(ctx, decomposition="whole"), False, nontrivial=True, signature=f"{root}/split_state/{tag}/whole_call/exception/{type(whole).__name__}",
                     observed=repr(whole)[:200], expected="a state", item=item)
            continue
        res.observe(whole["state"], [b[1] for b in whole["burns"]])
        decomps = [("whole", 1, whole)]
        for step in [float(s) for s in steps]:
            n = int(round(span / step))
            legs = [t0 + k * step for k in range(n)] + [t2]
            decomps.append((f"steps_{step:g}", n, _sk_decomposition(dyn, routines, slot, x0, jd, legs)))
        decomps.append((f"two_legs_{SK_FRAC:g}", 2, _sk_decomposition(dyn, routines, slot, x0, jd, [t0, t0 + SK_FRAC * span, t2])))
        decomps.append(("batch_of_one", 1, _sk_decomposition(dyn, routines, slot, x0, jd, [t0, t2], how="batch_of_one")))
        decomps.append(("propagateBulk_grid3", 1, _sk_decomposition(dyn, routines, slot, x0, jd, [t0] + [t0 + f * span for f in GRID3], how="bulk")))
        for label, n_legs, got in decomps:
            case = base(ctx, decomposition=label, legs=n_legs)
            if _bad(got):
                res.case("sk_split", case, False, nontrivial=True, signature=f"{root}/split_state/{tag}/exception/{type(got).__name__}",
                         observed=repr(got)[:200], expected="a state", item=item)
                continue
            burns = got["burns"]
            # -- (1) the burns the keepers' documented thresholds call for (independent classification of the target)
            t_tol0 = 1e-6  # s: a trigger that is already set at the start of a call is applied at that very time (rounding of t0 only)
            verdict = "as_expected"
            if expect == "none" and burns:
                verdict = "unexpected_burn"
            elif expect in ("one_at_t0", "first_at_t0") and not burns:
                verdict = "missing_burn"
            elif expect in ("one_at_t0", "first_at_t0") and abs(burns[0][1] - t0) > t_tol0:
                verdict = "burn_not_at_start"
            elif expect == "one_at_t0" and len(burns) > 1:
                verdict = "unexpected_burn"
            if expect != "any":
                res.case("sk_expected", case, verdict == "as_expected", nontrivial=True, signature=f"{root}/expected_burns/{tag}/{verdict}",
                         observed={"burns": _sk_burns_json(burns, t0)}, expected=expect, outcome=f"{expect}/{verdict}", item=item)
            # -- (2) the two observation channels agree: one EventStack record per burn, performed by this satellite
            recs = got["records"]
            res.case("sk_records", case, len(recs) == len(burns) and all(r[1] == SK_RSO for r in recs), nontrivial=bool(burns),
                     signature=f"{root}/event_records/{tag}", observed={"records": len(recs), "burns": len(burns), "types": sorted({r[0] for r in recs})},
                     expected="one record per burn", item=item)
            if label == "whole":
                continue
            # -- (3) the decomposition against the single call: state, number / times / sizes of the burns
            inside = [b for b in burns + whole["burns"] if b[1] - t0 > t_tol0]
            # a burn strictly inside the span for a target whose thresholds are (or may be) crossed there: such a trigger is
            # found at the end of the integrator step that saw it (flag-valued event function), see known finding F-C03-2
            suffix = "/trigger_inside_span" if (inside and expect in ("any", "first_at_t0")) else ""
            differs = True  # >= 2 legs, or another entry point / layout of the same call
            kind_of = "layout" if n_legs == 1 else "steps"
            state = got["state"]
            if state.shape != (6,) or not np.all(np.isfinite(state)):
                res.case("sk_split", case, False, nontrivial=differs, signature=f"{root}/split_state/{tag}/{kind_of}/shape_or_nonfinite",
                         observed={"shape": list(state.shape)}, expected={"shape": [6]}, item=item)
                continue
            ep, ev = fw.maxabs(state[:3], whole["state"][:3]), fw.maxabs(state[3:], whole["state"][3:])
            ok_s = ep <= tp and ev <= tv
            if not suffix:  # the margin report is about the tolerances, not about known finding F-C03-2
                ctx.ratio("sk_split", max(ep / tp, ev / tv))
            res.observe(state)
            res.case("sk_split", case, ok_s, nontrivial=differs, signature=f"{root}/split_state/{tag}/{kind_of}{suffix}",
                     observed={"pos_err_km": ep, "vel_err_kms": ev, "state": state, "burns": _sk_burns_json(burns, t0)},
                     expected={"tol_km": tp, "tol_kms": tv, "state": whole["state"], "burns": _sk_burns_json(whole["burns"], t0)},
                     outcome="within" if ok_s else "outside", item=item)
            same_n = len(burns) == len(whole["burns"])
            worst_dt, worst_dv, ok_b = 0.0, 0.0, same_n
            if same_n:
                for b, w in zip(burns, whole["burns"]):
                    # a burn dv applied dt earlier or later moves the state by dv dt: the times must agree to tp / dv
                    t_tol = max(tp / max(b[2], w[2], 1e-300), t_tol0)
                    worst_dt = max(worst_dt, abs(b[1] - w[1]) / t_tol)
                    worst_dv = max(worst_dv, abs(b[2] - w[2]) / tv)
                    ok_b = ok_b and b[0] == w[0] and abs(b[1] - w[1]) <= t_tol and abs(b[2] - w[2]) <= tv
            res.case("sk_burns", case, ok_b, nontrivial=differs and bool(burns or whole["burns"]), signature=f"{root}/burn_sequence/{tag}/{'count' if not same_n else 'times'}{suffix}",
                     observed={"burns": _sk_burns_json(burns, t0), "time_err_over_tol": worst_dt, "dv_err_over_tol": worst_dv},
                     expected={"burns": _sk_burns_json(whole["burns"], t0)}, outcome=f"n={min(len(burns), 3)}/{'same' if ok_b else 'differs'}", item=item)
    res.case("input_unchanged", {"dyn": kind, "method": method, "target": name, "family": "station_keeping"}, bool(np.array_equal(x0, _state(start_el))),
             signature=f"C03/input_mutated/{kind}/station_keeping", item=item)
    return ratios


SKS_TARGETS = {50001: "geo_on_station", 50002: "geo_inclined_half_deg", 50003: "leo_eccentric_low_3_km"}  # slot = initial state
SKS_SPAN = 1800.0
SKS_COMMON = 600.0  # the truth states are compared at the multiples of this time
SKS_PHYSICS = [600, 300, 60]
SKS_PHYSICS_NO_KEEPERS = [600, 300]


def _run_sk_scenario(res, item):
    """Truth of station-kept satellites in a real truth-only Scenario (global station_keeping on, routines in the platform
    configuration, PropagateRegistration.generateSubmission hands the reductions over) at several physics steps: the truth
    at the common times must not depend on the step (TruthEphemeris rows at different step sizes), and a satellite that
    stays inside its box (the slot is its own initial state; half an hour) must fly exactly like the same satellite
    without keepers: an event function that never triggers does not touch the integrator's steps (bit-identical)."""
    _, kind, method, seed = item
    seed = int(seed)
    deg, order, bodies, srp, gr = SP_CFG[kind]
    start = _start_dt(seed)
    scen.fresh()
    setDBPath("sqlite://")
    elements = {tid: _sk_slot(name, 0.0, seed, _jd0(seed))[0] for tid, name in SKS_TARGETS.items()}
    states = {tid: _state(el) for tid, el in elements.items()}
    root = "C03/station_keeping"
    ratios = {}

    def run(dt, keepers_on):
        targets = []
        for tid, name in SKS_TARGETS.items():
            spec = scen.target_eci(tid, states[tid][:3], states[tid][3:], station_keeping=SK_TARGETS[name][1])
            spec["platform"].update({k: v for k, v in ES_PLATFORM.items() if k != "type"})
            targets.append(spec)
        cfg = scen.config(
            start, int(round(SKS_SPAN / dt)), [scen.engine(TWIN_ENGINE, targets, [scen.ground_sensor(TWIN_GROUND, 10.0, 20.0)])],
            physics=int(dt), truth_only=True, model="special_perturbations", integrator=method, station_keeping=keepers_on, seed=11,
            geopotential={"model": ES_MODEL, "degree": deg, "order": order},
            perturbations={"third_bodies": list(bodies), "solar_radiation_pressure": srp, "general_relativity": gr},
        )
        app = scen.build(cfg)
        built = {tid: [type(k).__name__ for k in app.target_agents[tid].station_keeping] for tid in SKS_TARGETS}
        out = {}
        n_common = int(round(SKS_COMMON / dt))
        for j in range(1, int(round(SKS_SPAN / dt)) + 1):
            app.propagateTo(datetimeToJulianDate(start + timedelta(seconds=j * dt)))
            if j % n_common == 0:
                out[j * dt] = {tid: np.array(app.target_agents[tid].eci_state, dtype=float) for tid in SKS_TARGETS}
        return out, built

    runs = {}
    for dt in SKS_PHYSICS:
        runs[(dt, True)] = _call(run, float(dt), True)
    for dt in SKS_PHYSICS_NO_KEEPERS:
        runs[(dt, False)] = _call(run, float(dt), False)
    for (dt, on), got in runs.items():
        if _bad(got):
            res.case("sk_scenario", {"dyn": kind, "method": method, "physics_step": dt, "station_keeping": on}, False, nontrivial=True,
                     signature=f"{root}/scenario/{kind}/{method}/exception/{type(got).__name__}", observed=repr(got)[:200], expected="a run", item=item)
    if any(_bad(g) for g in runs.values()):
        return ratios
    fine = runs[(SKS_PHYSICS[-1], True)][0]
    for tid, name in SKS_TARGETS.items():
        el = elements[tid]
        a, e = el[0], el[1]

        def case(**kw):
            d = {"dyn": kind, "method": method, "target": name, "a": a, "e": e, "inc": el[2], "raan": round(el[3], 6), "argp": round(el[4], 6), "nu": round(el[5], 6)}
            d.update(kw)
            return d

        want_keepers = {"GEO EW": "KeepGeoEastWest", "GEO NS": "KeepGeoNorthSouth", "LEO": "KeepLeoUp"}
        for (dt, on), (_out, built) in runs.items():
            expect_k = sorted(want_keepers[r] for r in SK_TARGETS[name][1]) if on else []
            res.case("sk_scenario", case(physics_step=dt, station_keeping=on), sorted(built[tid]) == expect_k, nontrivial=on,
                     signature=f"{root}/scenario_keepers_built/{kind}/{method}/{name}", observed=built[tid], expected=expect_k, item=item)
        for k in range(1, int(round(SKS_SPAN / SKS_COMMON)) + 1):
            T = k * SKS_COMMON
            ctx = _Ctx(res, item, kind, method, T, 0.0)
            ctx.ratios = ratios
            tp, tv = ctx.tp(a, e), ctx.tv(a, e)
            res.observe(fine[T][tid])
            # (a) truth at the common times against the finest physics step
            for dt in SKS_PHYSICS[:-1]:
                got = runs[(dt, True)][0][T][tid]
                ep, ev = fw.maxabs(got[:3], fine[T][tid][:3]), fw.maxabs(got[3:], fine[T][tid][3:])
                ctx.ratio("sk_scenario", max(ep / tp, ev / tv))
                res.case("sk_scenario", case(elapsed=T, physics_step=dt, against_physics_step=SKS_PHYSICS[-1]), ep <= tp and ev <= tv, nontrivial=True,
                         signature=f"{root}/scenario_step_size/{kind}/{method}/{name}", observed={"pos_err_km": ep, "vel_err_kms": ev, "state": got},
                         expected={"tol_km": tp, "tol_kms": tv, "state": fine[T][tid]}, outcome="within" if ep <= tp and ev <= tv else "outside", item=item)
            # (b) with keepers that have nothing to do == without keepers, same physics step
            for dt in SKS_PHYSICS_NO_KEEPERS:
                got, want = runs[(dt, True)][0][T][tid], runs[(dt, False)][0][T][tid]
                same = bool(np.array_equal(got, want))
                res.case("sk_scenario", case(elapsed=T, physics_step=dt), same, nontrivial=True, signature=f"{root}/scenario_quiet_keeper/{kind}/{method}/{name}",
                         observed={"pos_diff_km": fw.maxabs(got[:3], want[:3]), "state": got}, expected={"pos_diff_km": 0.0, "state": want},
                         outcome="identical" if same else "differs", item=item)
    return ratios


# ------------------------------------------------------------------------------------------------ stale schedules
# Composability of a propagation WITH scheduled events when every leg is handed the FULL schedule: a caller that splits
# t0 -> t2 at t1 and passes the same list of events to both calls (or a filter / prediction handed a queue that was not pruned)
# must get the direct result: events before a call's start are over, events after its end are not due yet.
# Event specs: ("eci" | "ntw", fraction of the span, delta-v [km/s]) or ("burn", start fraction, end fraction, NTW acceleration
# [km/s^2]).  Every schedule has >= 1 event in the first and >= 1 in the last leg of every split of ST_SPLITS, and no event
# closer than 0.02 spans (>= 6 s) to a split point or an output time: an event exactly ON a call boundary belongs to both
# calls by the library's own event function (zero at its time) and is outside this family.  Two events of one schedule
# are either >= 0.02 spans apart or exactly coincident (the schedules added below the table).
ST_SCHEDULES = {
    "eci_eci": [("eci", 0.25, [0.0, 0.010, 0.005]), ("eci", 0.75, [0.003, -0.002, 0.001])],
    "ntw_eci_ntw": [("ntw", 0.2, [0.002, 0.008, -0.004]), ("eci", 0.6, [-0.005, 0.004, 0.006]), ("ntw", 0.85, [0.0, -0.006, 0.003])],
    "eci_ntw_eci": [("eci", 0.1, [0.004, 0.0, -0.006]), ("ntw", 0.3, [0.0, 0.009, 0.0]), ("eci", 0.8, [0.002, 0.005, 0.001])],  # two stale impulses
    "eci_burn": [("eci", 0.2, [0.0, -0.008, 0.004]), ("burn", 0.6, 0.8, [0.0, 2.0e-5, 0.0])],  # stale impulse, thrust start / end are the live events
    "burn_eci": [("burn", 0.1, 0.3, [1.0e-5, 2.0e-5, 0.0]), ("ntw", 0.78, [0.001, 0.007, -0.002])],  # stale (finished) finite burn
    "eci_burn_across_ntw": [("eci", 0.15, [0.006, 0.0, 0.003]), ("burn", 0.35, 0.65, [0.0, -2.0e-5, 1.0e-5]), ("ntw", 0.9, [0.0, 0.005, 0.0])],  # a leg starts mid-burn
}
# COINCIDENT events of one schedule (same instant to the bit): an impulse where a burn starts, a burn starting where the
# previous one ends, in both list orders -- the solver reports one terminal event per stop and the others must not be lost
ST_SCHEDULES.update({
    "eci_at_burn_start": [("eci", 0.4, [0.0, 0.006, -0.003]), ("burn", 0.4, 0.66, [0.0, 2.0e-5, 1.0e-5]), ("ntw", 0.88, [0.0, 0.004, 0.0])],
    "burn_start_at_eci": [("burn", 0.4, 0.66, [0.0, 2.0e-5, 1.0e-5]), ("eci", 0.4, [0.0, 0.006, -0.003]), ("ntw", 0.88, [0.0, 0.004, 0.0])],
    "burn_end_at_burn_start": [("burn", 0.15, 0.4, [1.0e-5, -2.0e-5, 0.0]), ("burn", 0.4, 0.66, [0.0, 2.0e-5, 1.0e-5]), ("eci", 0.88, [0.002, 0.0, 0.004])],
    "burn_start_at_burn_end": [("burn", 0.4, 0.66, [0.0, 2.0e-5, 1.0e-5]), ("burn", 0.15, 0.4, [1.0e-5, -2.0e-5, 0.0]), ("eci", 0.88, [0.002, 0.0, 0.004])],
})
ST_PAST_EVENT = ("eci", -0.2, [0.007, -0.003, 0.009])  # an impulse from before t0 still in the list (t0 > 0 only): never due in any call
ST_SPLITS = {"two_legs": [0.5], "three_legs": [0.45, 0.72]}
ST_BULK_GRID = [0.33, 0.5, 0.57, 0.77, 1.0]  # output times of propagateBulk; the two-leg bulk split is at 0.5
ST_VARIANTS = ["full_fresh", "full_shared", "pruned"]
ST_VARIANTS_LEAN = ["full_fresh", "pruned"]  # quick tier, SP (a short SP call with DOP853 costs 20 ms, every event a restart)
ST_RSO = 10001
ST_SP_SCHEDULES = ["eci_eci", "eci_burn_across_ntw", "eci_at_burn_start"]
ST_QUICK_SP = "sp_g4"


def _st_items(thorough, seed, jd0):
    """["stale_schedule", dynamics, integrator, span, t0, jd0, seed, orbit, [schedule names]]."""
    out = []
    # two-body: a LEO, an eccentric and a GEO orbit (rotating with the seed); ten minutes from scenario time 0 and an hour from 7200 s
    tb_idx = [(seed % 15), 15 + (seed + 4) % 15, 60 + (seed + 8) % 15] + ([30 + (seed + 2) % 15, 45 + (seed + 6) % 15] if thorough else [])
    for method in METHODS:
        for k, i in enumerate(tb_idx):
            for T, t0 in ((600.0, 0.0), (3600.0, 7200.0)):
                if not thorough and (k + METHODS.index(method)) % 2 != (0 if T < 3600.0 else 1):
                    continue  # quick tier: every orbit gets one of the two (span, start time) pairs per integrator, the other with the other integrator
                out.append(["stale_schedule", "twobody", method, T, t0, 0.0, seed, _orbit(i, seed), list(ST_SCHEDULES)])
    # special perturbations: a LEO orbit, five minutes a day into the scenario (thorough: every schedule, two configurations, an hour as well)
    cfgs = [ST_QUICK_SP] + (["sp_g2sm"] if thorough else [])
    for cfg in cfgs:
        for method in METHODS:
            i = _sp_orbits(seed, 4)[(seed + METHODS.index(method)) % 4]
            out.append(["stale_schedule", cfg, method, 300.0, 87000.0, jd0, seed, _orbit(i, seed), list(ST_SCHEDULES) if thorough else ST_SP_SCHEDULES])
            if thorough:
                out.append(["stale_schedule", cfg, method, 3600.0, 90000.0, jd0, seed, _orbit(i, seed), ST_SP_SCHEDULES])
    return out


def _st_bounds(its):
    st = [it for it in its if it[0] == "stale_schedule"]
    return {
        "schedules_fraction_of_span": {k: [list(ev) for ev in v] for k, v in ST_SCHEDULES.items()},
        "past_event_for_start_times_gt_0": list(ST_PAST_EVENT), "splits": ST_SPLITS, "bulk_output_fractions": ST_BULK_GRID, "bulk_split": 0.5,
        "variants": {"two-body and thorough SP": ST_VARIANTS, "quick SP": ST_VARIANTS_LEAN}, "entries": ["propagate", "propagateBulk (6,1)"],
        "compared_with": ["direct call", "segment-wise reference", "EventStack record count per call"],
        "dynamics_integrator_span_t0_a_e_schedules": sorted([it[1], it[2], it[3], it[4], it[7][0], it[7][1], len(it[8])] for it in st),
        "items": len(st),
    }


def _st_ntw(y):
    """(N, T, W) unit vectors of the state: T along the velocity, W along the orbit normal r x v, N = T x W (the convention
    the docstrings of the NTW impulse / burn name; written out here, the library's ntw2eci is not used)."""
    r, v = np.asarray(y[:3], dtype=float), np.asarray(y[3:6], dtype=float)
    t_hat = v / math.sqrt(float(v @ v))
    h = np.cross(r, v)
    w_hat = h / math.sqrt(float(h @ h))
    return np.cross(t_hat, w_hat), t_hat, w_hat


def _st_to_eci(y, vec):
    n_hat, t_hat, w_hat = _st_ntw(y)
    return vec[0] * n_hat + vec[1] * t_hat + vec[2] * w_hat


def _st_abs(spec, t0, T):
    """Event spec with absolute times."""
    if spec[0] == "burn":
        return ("burn", t0 + spec[1] * T, t0 + spec[2] * T, np.array(spec[3], dtype=float))
    return (spec[0], t0 + spec[1] * T, np.array(spec[2], dtype=float))


def _st_objects(events):
    """Fresh library event objects of a schedule (absolute times), in schedule order."""
    out = []
    for ev in events:
        if ev[0] == "eci":
            out.append(ScheduledECIImpulse(float(ev[1]), ev[2].copy(), ST_RSO))
        elif ev[0] == "ntw":
            out.append(ScheduledNTWImpulse(float(ev[1]), ev[2].copy(), ST_RSO))
        else:
            out.append(ScheduledFiniteBurn(float(ev[1]), float(ev[2]), partial(ntwBurn, acc_vector=ev[3].copy()), ST_RSO))
    return out


def _st_end(ev):
    return ev[2] if ev[0] == "burn" else ev[1]


def _st_expected_records(events, ta, tb):
    """EventStack records a call over (ta, tb) must push, from the documented meaning of the events alone: one per impulse
    strictly inside, one per burn switched on inside or already running at ta, one per burn switched off inside."""
    want = {"eci_impulse": 0, "ntw_impulse": 0, "thrust_on": 0, "thrust_off": 0}
    for ev in events:
        if ev[0] == "burn":
            want["thrust_on"] += int(ta < ev[1] < tb or ev[1] < ta < ev[2])
            want["thrust_off"] += int(ta < ev[2] < tb)
        else:
            want["eci_impulse" if ev[0] == "eci" else "ntw_impulse"] += int(ta < ev[1] < tb)
    return want


def _st_records():
    got = {"eci_impulse": 0, "ntw_impulse": 0, "thrust_on": 0, "thrust_off": 0}
    other = []
    for label, performer in _sk_drain():
        if label in ("ECI Impulse", "NTW Impulse"):
            got[label.lower().replace(" ", "_")] += 1
        elif label.startswith("Finite thrust ended at"):
            got["thrust_off"] += 1
        elif label.startswith("Finite thrust at"):
            got["thrust_on"] += 1
        else:
            other.append(label)
        if performer != ST_RSO:
            other.append(f"performer {performer}")
    return got, other


def _st_model(kind, dyn_ref):
    """(coast(ta, tb, state), derivative(t, state)) of the event-free motion the segment-wise reference is built from.
    Two-body: the closed-form Kepler reference and mu r / r^3 written out here (nothing of the library).  SP: the real code
    called without any event (the decomposition oracle of the restart subcheck) and its derivative with no thrust armed."""
    if kind == "twobody":
        def gravity(_t, s):
            r = np.asarray(s[:3], dtype=float)
            return np.concatenate((np.asarray(s[3:], dtype=float), -MU * r / math.sqrt(float(r @ r)) ** 3))

        return (lambda ta, tb, y: kr.propagate(y, tb - ta)), gravity

    def derivative(t, s):
        dyn_ref.finite_thrust = None
        return np.array(dyn_ref._differentialEquation(float(t), np.array(s, dtype=float)), dtype=float)  # noqa: SLF001

    return (lambda ta, tb, y: dyn_ref.propagate(float(ta), float(tb), np.array(y, dtype=float))), derivative


def _st_reference(model, x0, t0, events, out_times):
    """Segment-wise reference {time: state}: event-free coasts between the break points (event times and output times),
    delta-v added by hand (NTW components through this module's own basis), and the thrust arcs integrated here (scipy
    DOP853, rtol 1e-12: 100x tighter than the library) with the event-free derivative + the NTW acceleration.  No event
    object is involved anywhere."""
    coast, gravity = model
    inside = [ev for ev in events if _st_end(ev) > t0]
    pts = sorted({float(t0), *[float(t) for t in out_times], *[float(ev[1]) for ev in inside if ev[1] > t0],
                  *[float(ev[2]) for ev in inside if ev[0] == "burn"]})
    pts = [t for t in pts if t <= max(out_times)]
    y = np.array(x0, dtype=float)
    out = {}
    for a, b in zip(pts, pts[1:]):
        for ev in inside:
            if ev[0] != "burn" and ev[1] == a and a > t0:
                y = y.copy()
                y[3:] += ev[2] if ev[0] == "eci" else _st_to_eci(y, ev[2])
        mid = 0.5 * (a + b)
        acc = [ev[3] for ev in inside if ev[0] == "burn" and ev[1] < mid < ev[2]]
        if not acc:
            y = np.asarray(coast(a, b, y.copy()), dtype=float)
        else:
            def rhs(t, s, _acc=acc):
                d = np.array(gravity(t, s), dtype=float)
                for vec in _acc:
                    d[3:] += _st_to_eci(s, vec)
                return d

            sol = solve_ivp(rhs, (a, b), y.copy(), method="DOP853", rtol=1e-12, atol=1e-14)
            if not sol.success:
                raise RuntimeError(f"reference integration failed: {sol.message}")
            y = sol.y[:, -1]
        if b in out_times:
            out[b] = np.array(y, dtype=float)
    return out


def _run_stale_schedule(res, item):
    _, kind, method, T, t0, jd, seed, orb, names = item
    T, t0, jd = float(T), float(t0), float(jd)
    scen.fresh()
    setDBPath("sqlite://")
    ctx = _Ctx(res, item, kind, method, T, t0)
    dyn, dyn_ref = _dynamics(kind, method, jd), _dynamics(kind, method, jd)
    x0 = _state(orb)
    a, e = orb[0], orb[1]
    tp0 = ctx.tp(a, e)
    # every state of this family went through event stops, where scipy hands back the dense-output interpolant at the event
    # time (not a step end): the dense-output allowance of the output-grid subcheck applies to all of them (module docstring)
    tp, tv = DENSE_FACTOR * tp0, DENSE_FACTOR * ctx.tv(a, e)
    t2 = t0 + T
    grid = [t0 + f * T for f in ST_BULK_GRID]
    plain = _call(dyn_ref.propagate, t0, t2, x0.copy())
    model = _st_model(kind, dyn_ref)
    variants = ST_VARIANTS if (kind == "twobody" or len(names) == len(ST_SCHEDULES)) else ST_VARIANTS_LEAN

    def records(case, events, ta, tb, entry, variant, *, nontrivial):
        """One EventStack record per event applied in the call that just returned: the number of state changes is observed
        independently of the states."""
        got, other = _st_records()
        want = _st_expected_records(events, ta, tb)
        ok = got == want and not other
        kinds = [k for k in want if got[k] != want[k]]
        res.case("stale_records", case, ok, nontrivial=nontrivial,
                 signature=f"C03/stale_schedule/{kind}/{method}/{entry}/{variant}/events_applied" + ("" if ok else "/" + "+".join(kinds or ["other"])),
                 observed={"records": got, "other": other[:5]}, expected=want, outcome="+".join(f"{k}={v}" for k, v in got.items() if v), item=item)
        return ok

    for name in names:
        specs = list(ST_SCHEDULES[name])
        if t0 + ST_PAST_EVENT[1] * T > 8.0:  # scenario times are >= 0; impulse times below 8 s are the fixed finding F-C03-1's region
            specs = [ST_PAST_EVENT] + specs
        events = [_st_abs(s, t0, T) for s in specs]
        extra = {"schedule": name, "events": [[ev[0]] + [round(float(x) - t0, 6) for x in (ev[1:3] if ev[0] == "burn" else ev[1:2])] for ev in events]}
        _sk_drain()
        ref = _call(_st_reference, model, x0, t0, events, grid)
        if _bad(ref):
            raise RuntimeError(f"harness: reference failed for {name}: {ref!r}")
        want = ref[t2]
        # the events really act: otherwise every comparison below says nothing
        acts = (not _bad(plain)) and fw.maxabs(want[:3], np.asarray(plain)[:3]) > 1000.0 * tp0
        # -- the direct call with the whole schedule against the reference
        direct = _call(dyn.propagate, t0, t2, x0.copy(), scheduled_events=_st_objects(events))
        case = dict(extra, entry="propagate", decomposition="direct")
        ok_rec = records(ctx.base(orb, **case), events, t0, t2, "propagate", "direct", nontrivial=True)
        ctx.compare("stale_schedule", orb, direct, want, tp, tv, nontrivial=bool(acts), detail="propagate/direct/vs_reference" + ("" if ok_rec else "/events_applied_differ"), extra=case)
        if not _bad(direct):
            res.observe(direct)
        # -- propagate: every split, every leg handed the full schedule (fresh / the same objects) or the pruned one
        for split, fracs in ST_SPLITS.items():
            cuts = [t0] + [t0 + f * T for f in fracs] + [t2]
            for variant in variants:
                shared = _st_objects(events)
                state, ok_rec, stale_live = x0.copy(), True, 0
                for ta, tb in zip(cuts, cuts[1:]):
                    leg_events = [ev for ev in events if _st_end(ev) > ta] if variant == "pruned" else events
                    objs = shared if variant == "full_shared" else _st_objects(leg_events)
                    stale = sum(1 for ev in leg_events if _st_end(ev) < ta)
                    live = sum(1 for ev in leg_events if ta < ev[1] < tb or (ev[0] == "burn" and ta < ev[2] < tb))
                    stale_live += int(stale > 0 and live > 0)
                    state = state if _bad(state) else _call(dyn.propagate, ta, tb, np.array(state, dtype=float), scheduled_events=objs)
                    case = dict(extra, entry="propagate", decomposition=split, variant=variant, leg=[ta - t0, tb - t0], stale_events=stale, live_events=live)
                    if _bad(state):
                        _sk_drain()
                    else:
                        ok_rec = records(ctx.base(orb, **case), leg_events, ta, tb, "propagate", variant, nontrivial=stale > 0 and live > 0) and ok_rec
                case = dict(extra, entry="propagate", decomposition=split, variant=variant, legs_with_stale_and_live_events=stale_live)
                nontrivial = bool(acts) and (variant == "pruned" or stale_live > 0)
                sfx = "" if ok_rec else "/events_applied_differ"
                if not _bad(direct):
                    ctx.compare("stale_schedule", orb, state, direct, tp, tv, nontrivial=nontrivial, detail=f"propagate/{variant}/vs_direct{sfx}", extra=case)
                ctx.compare("stale_schedule", orb, state, want, tp, tv, nontrivial=nontrivial, detail=f"propagate/{variant}/vs_reference{sfx}", extra=case)
        # -- propagateBulk ((6, 1) layout): the whole span in one call, and two calls split at 0.5, full and pruned schedules
        n1 = ST_BULK_GRID.index(0.5) + 1
        for variant, plan in (("direct", [[t0] + grid]), ("full_fresh", [[t0] + grid[:n1], grid[n1 - 1:]]), ("pruned", [[t0] + grid[:n1], grid[n1 - 1:]])):
            state, outs, ok_rec, stale_live = x0.copy(), {}, True, 0
            for times in plan:
                ta, tb = times[0], times[-1]
                leg_events = [ev for ev in events if _st_end(ev) > ta] if variant == "pruned" else events
                stale = sum(1 for ev in leg_events if _st_end(ev) < ta)
                live = sum(1 for ev in leg_events if ta < ev[1] < tb or (ev[0] == "burn" and ta < ev[2] < tb))
                stale_live += int(stale > 0 and live > 0)
                got = state if _bad(state) else _call(dyn.propagateBulk, [float(t) for t in times], np.array(state, dtype=float).reshape(6, 1), scheduled_events=_st_objects(leg_events))
                case = dict(extra, entry="propagateBulk", decomposition="direct" if len(plan) == 1 else "two_legs", variant=variant, leg=[ta - t0, tb - t0], stale_events=stale, live_events=live)
                if _bad(got) or np.asarray(got).shape != (6, 1, len(times) - 1):
                    _sk_drain()
                    ctx.compare("stale_schedule", orb, got, x0, tp, tv, nontrivial=True, detail=f"propagateBulk/{variant}/layout", extra=case, shape=(6, 1, len(times) - 1))
                    state = got if _bad(got) else ValueError("propagateBulk layout")
                    continue
                ok_rec = records(ctx.base(orb, **case), leg_events, ta, tb, "propagateBulk", variant, nontrivial=len(plan) == 1 or (stale > 0 and live > 0)) and ok_rec
                got = np.asarray(got, dtype=float)
                res.observe(got)
                for j, t in enumerate(times[1:]):
                    outs[t] = got[:, 0, j]
                state = got[:, 0, -1]
            sfx = "" if ok_rec else "/events_applied_differ"
            for t, got in outs.items():
                case = dict(extra, entry="propagateBulk", decomposition="direct" if len(plan) == 1 else "two_legs", variant=variant, output_frac=round((t - t0) / T, 6),
                            legs_with_stale_and_live_events=stale_live)
                nontrivial = bool(acts) and (variant != "full_fresh" or (stale_live > 0 and t > plan[-1][0]))
                ctx.compare("stale_schedule", orb, got, ref[t], tp, tv, nontrivial=nontrivial,
                            detail=f"propagateBulk/{variant}/vs_reference{sfx}", extra=case)
    res.case("input_unchanged", ctx.base(orb, family="stale_schedule"), bool(np.array_equal(x0, _state(orb))), signature=f"C03/input_mutated/{kind}/{method}", item=item)
    return ctx.ratios


# ------------------------------------------------------------------------------------------------ closed-form solver
def _tol_universal(x0, state_ref, mu):
    """Error budget of solveKeplerProblemUniversal, derived from its stopping rule.

    The loop stops when the universal anomaly moved by d < _ATOL = 1.48e-8 sqrt(km) and then evaluates f, g with the NEW
    chi but the Stumpff terms c2, c3 and r of the PREVIOUS iterate.  Three contributions, each <= d times a sensitivity:
    * a pure time shift dt = d r / sqrt(mu):           |dr| <= d r v / sqrt(mu) <= d sqrt(2 r);
    * f = 1 - chi^2/r0 c2(psi_old): |c2'(psi)| <= 1/(2 psi^1.5) and dpsi = 2 chi alpha d give r0 |df| <= d sqrt(|a|);
    * g = tof - chi^3/sqrt(mu) c3(psi_old): |c3'| <= 1/psi^2 gives v0 |dg| <= 2 d |a| v0 / sqrt(mu).
    (measured worst over 8 seeds of the bound-orbit lattice: 0.23 of the sum, a=26560/e=0.7 over two revolutions.)
    |a| is capped at 1e5 km: for the near-parabolic branch cases psi stays small and the large-psi bounds above are not
    attained.  x2 margin; + rounding of the f/g arithmetic (chi up to ~1e3 => ~1e3 eps relative): 1e-11 |r|, 1e-9 |v|;
    + accuracy of the reference 1e-8 km.  Velocity: position budget times the larger angular rate of the two ends."""
    r0, v0 = kr.vnorm(x0[:3]), kr.vnorm(x0[3:])
    r, v = kr.vnorm(state_ref[:3]), kr.vnorm(state_ref[3:])
    alpha = 2.0 / r0 - v0 * v0 / mu
    unit = 1.0 if mu == MU else r0  # canonical-unit cases: scale the absolute floors with the problem size
    a_eff = min(1.0 / max(abs(alpha), 1e-300), 1e5 * unit)
    sens = math.sqrt(2.0 * r) + math.sqrt(a_eff) + 2.0 * a_eff * v0 / math.sqrt(mu)
    tp = 2.0 * CHI_ATOL * sens + 1e-8 * unit + 1e-11 * r
    tv = 2.0 * tp * max(v0 / r0, v / r) + 1e-11 * (1.0 if mu == MU else v) + 1e-9 * v
    return tp, tv


def _universal_case(res, item, x0, tof, mu, case, detail, loose=1.0):
    ref = kr.propagate(x0, tof, mu)
    try:
        got = rkep.solveKeplerProblemUniversal(x0.copy(), tof, mu=mu) if mu != MU else rkep.solveKeplerProblemUniversal(x0.copy(), tof)
    except Exception as exc:  # noqa: BLE001
        res.case("kepler_universal", case, False, nontrivial=True, signature=f"C03/kepler_universal/{detail}/exception/{type(exc).__name__}",
                 observed=repr(exc)[:200], expected=ref, item=item)
        return None
    tp, tv = _tol_universal(x0, ref, mu)
    tp, tv = tp * loose, tv * loose
    got = np.asarray(got, dtype=float)
    okshape = got.shape == (6,) and bool(np.all(np.isfinite(got)))
    ep = fw.maxabs(got[:3], ref[:3]) if okshape else math.inf
    ev = fw.maxabs(got[3:], ref[3:]) if okshape else math.inf
    lin = fw.maxabs(ref[:3] - x0[:3] - x0[3:] * tof)
    res.case("kepler_universal", case, okshape and ep <= tp and ev <= tv, nontrivial=lin > 1000.0 * tp,
             signature=f"C03/kepler_universal/{detail}", observed={"pos_err": ep, "vel_err": ev, "state": got},
             expected={"tol_pos": tp, "tol_vel": tv, "state": ref}, outcome="within" if ep <= tp and ev <= tv else "outside", item=item)
    res.observe(got)
    return max(ep / tp, ev / tv)


def _run_universal(res, item):
    worst = 0.0
    for orb in item[1]:
        x0 = _state(orb)
        for tof in (0.5, 1.0, 10.0, 300.0, 3600.0, 43200.0, 86400.0):
            case = {"a": orb[0], "e": orb[1], "inc": orb[2], "raan": round(orb[3], 6), "argp": round(orb[4], 6), "nu": round(orb[5], 6), "tof": tof}
            r = _universal_case(res, item, x0, tof, MU, case, "bound")
            worst = max(worst, r or 0.0)
    return {"kepler_universal": worst}


def _run_universal_branches(res, item):
    """Branches of the solver the bound-orbit lattice does not reach: |alpha| < 1e-6 (parabolic start), alpha < -1e-6
    (hyperbolic start), a caller-supplied mu, the iteration cap. Beyond the property's quantifier (bound orbits), kept
    under their own signatures."""
    seed = item[1]
    p_raan, p_argp, _ = _phase(seed)
    worst = 0.0
    rp = 7000.0
    conics = []
    for alpha in (5e-7, 2e-6, -5e-7, -2e-6, -1e-4):
        # perigee radius rp, 1/a = alpha  =>  e = 1 - rp alpha
        conics.append((f"alpha={alpha:g}", 1.0 / alpha, 1.0 - rp * alpha))
    conics.append(("parabola", 2.0 * rp, 1.0))
    for name, a, e in conics:
        for inc in (0.0, 63.4, 180.0):
            for nu in (0.0, 90.0, -60.0):
                x0 = kr.state_from_elements(a, e, math.radians(inc), math.radians(40.0 + p_raan), math.radians(70.0 + p_argp), math.radians(nu))
                alpha_real = 2.0 / kr.vnorm(x0[:3]) - kr.dot(x0[3:], x0[3:]) / MU
                for tof in (1.0, 300.0, 3600.0, 43200.0):
                    case = {"conic": name, "alpha": alpha_real, "e": e, "inc": inc, "nu": nu, "tof": tof}
                    # parabola: the reference itself is conditioned to ~5e-7 km (Barker with e known to 1e-16)
                    r = _universal_case(res, item, x0, tof, MU, case, f"branch/{name}", loose=3.0 if name == "parabola" else 1.0)
                    worst = max(worst, r or 0.0)
    # caller-supplied mu (canonical units): a stale Earth.mu anywhere in the solver shows here
    for mu in (1.0, 4902.8):
        for e in (0.0, 0.3, 0.7):
            for nu in (0.0, 90.0, 200.0):
                a = 1.0 if mu == 1.0 else 5000.0
                x0 = kr.state_from_elements(a, e, math.radians(40.0), 0.3, 0.9, math.radians(nu), mu=mu)
                per = kr.TWO_PI * math.sqrt(a**3 / mu)
                for fr in (0.01, 0.3, 1.7):
                    case = {"mu": mu, "a": a, "e": e, "nu": nu, "tof": fr * per}
                    r = _universal_case(res, item, x0, fr * per, mu, case, "custom_mu")
                    worst = max(worst, r or 0.0)
    # iteration cap: the documented KeplerProblemError
    x0 = _state(_orbit(17, seed))
    for maxiter, want_raise in ((1, True), (100, False)):
        try:
            rkep.solveKeplerProblemUniversal(x0.copy(), 3600.0, maxiter=maxiter)
            raised = None
        except Exception as exc:  # noqa: BLE001
            raised = type(exc).__name__
        ok = (raised == "KeplerProblemError") if want_raise else raised is None
        res.case("kepler_universal", {"maxiter": maxiter}, ok, nontrivial=True, signature="C03/kepler_universal/iteration_cap",
                 observed=raised, expected="KeplerProblemError" if want_raise else None, item=item)
    return {"kepler_universal": worst}


# ------------------------------------------------------------------------------------------------ helpers of utils.py
def _angdiff(a, b):
    return abs(math.remainder(a - b, kr.TWO_PI))


def _run_helpers(res, item):
    seed = item[1]

    def rec(name, case, got, want, tol, nontrivial=True, rel=True):
        try:
            got_f = np.asarray(got, dtype=float)
            want_f = np.asarray(want, dtype=float)
            err = float(np.max(np.abs(got_f - want_f))) if got_f.shape == want_f.shape else math.inf
        except Exception:  # noqa: BLE001
            err = math.inf
            got_f = None
        scale = float(np.max(np.abs(np.asarray(want, dtype=float)))) if rel is True else float(rel)
        ok = err <= tol * max(scale, 1e-300)
        res.case(f"helpers/{name}", case, ok, nontrivial=nontrivial, signature=f"C03/helpers/{name}", observed=got, expected=want, item=item)
        res.observe(name, got_f)

    res.case("helpers/constants", {"name": "Earth.mu"}, Earth.mu == MU, nontrivial=True, signature="C03/helpers/constants/Earth.mu",
             observed=Earth.mu, expected=MU, item=item)
    res.case("helpers/constants", {"name": "integrator tolerances"}, Dynamics.RELATIVE_TOL == RTOL and Dynamics.ABSOLUTE_TOL == ATOL,
             nontrivial=True, signature="C03/helpers/constants/integrator_tolerances_differ_from_calibration",
             observed=[Dynamics.RELATIVE_TOL, Dynamics.ABSOLUTE_TOL], expected=[RTOL, ATOL], item=item)
    # documented argument contracts of the two propagation entry points (both integrators)
    x0 = _state(_orbit(31, seed))
    for method in METHODS:
        dyn = TwoBody(method=method)
        for name, fn in (
            ("propagate/final_equals_initial", lambda d=dyn: d.propagate(300.0, 300.0, x0.copy())),
            ("propagate/final_before_initial", lambda d=dyn: d.propagate(300.0, 299.0, x0.copy())),
            ("propagateBulk/one_time", lambda d=dyn: d.propagateBulk([300.0], x0.copy())),
            ("propagateBulk/final_before_initial", lambda d=dyn: d.propagateBulk([300.0, 200.0, 100.0], x0.copy())),
        ):
            out = _call(fn)
            res.case("contract", {"call": name, "method": method}, isinstance(out, ValueError), nontrivial=True,
                     signature=f"C03/contract/{name}", observed=repr(out)[:120], expected="ValueError", item=item)
    states = [(_orbit(i, seed), None) for i in range(90)]
    p_raan, p_argp, _ = _phase(seed)
    for name, a, e in (("hyperbola", -20000.0, 1.5), ("near_parabola", 2.0e6, 0.9965)):
        for nu in (0.0, 90.0, 250.0):
            states.append(([a, e, 63.4, 40.0 + p_raan, 70.0 + p_argp, nu], name))
    for orb, _tag in states:
        a, e, inc, raan, argp, nu = orb
        x = _state(orb)
        r, v = x[:3], x[3:]
        rn, vn = kr.vnorm(r), kr.vnorm(v)
        case = {"a": a, "e": e, "inc": inc, "raan": round(raan, 6), "argp": round(argp, 6), "nu": round(nu, 6)}
        h = kr.cross(r, v)
        rec("getAngularMomentum", case, rut.getAngularMomentum(r.copy(), v.copy()), h, 1e-13)
        rec("getLineOfNodes", case, rut.getLineOfNodes(np.array(h)), (-h[1], h[0], 0.0), 1e-13, rel=kr.vnorm(h))
        en = 0.5 * vn * vn - MU / rn
        rec("getOrbitalEnergy", case, rut.getOrbitalEnergy(rn, vn), en, 1e-13)
        # own a from the lattice (not from the state): energy = -mu / 2a; cancellation in v^2/2 - mu/r costs ~1e-15 a / r
        rec("getSemiMajorAxis", case, rut.getSemiMajorAxis(rn, vn), a, 1e-11 * max(1.0, abs(a) / rn))
        rec("getSemiMajorAxis_mu", case, rut.getSemiMajorAxis(rn, vn * math.sqrt(2.0), mu=2.0 * MU), a, 1e-11 * max(1.0, abs(a) / rn))
        ecc, e_unit = rut.getEccentricity(r.copy(), v.copy())
        ev = kr.ecc_vector(x)
        rec("getEccentricity/magnitude", case, ecc, e, 1e-12 * max(1.0, abs(a) / rn), rel=1.0)
        if e > 1e-3:
            rec("getEccentricity/direction", case, e_unit, [c / kr.vnorm(ev) for c in ev], 1e-10, rel=1.0)
            nu_r = math.radians(nu) % kr.TWO_PI
            # arccos loses half the digits at 0 and pi (1.5e-8 rad); elsewhere 1e-16 / sin
            tol_nu = 1e-6 if abs(math.sin(nu_r)) < 1e-3 else 1e-9
            got = rut.getTrueAnomaly(r.copy(), v.copy(), np.asarray(e_unit))
            res.case("helpers/getTrueAnomaly", case, _angdiff(got, nu_r) <= tol_nu and -1e-12 <= got < kr.TWO_PI + 1e-12, nontrivial=True,
                     signature="C03/helpers/getTrueAnomaly", observed=got, expected=nu_r, item=item)
            got = rut.getTrueAnomalyFromRV(x.copy())
            res.case("helpers/getTrueAnomalyFromRV", case, _angdiff(got, nu_r) <= tol_nu and 0.0 <= got < kr.TWO_PI, nontrivial=True,
                     signature="C03/helpers/getTrueAnomalyFromRV", observed=got, expected=nu_r, item=item)
            # flight path angle from the state itself: sin(fpa) = r.v / (|r||v|)
            fpa = math.asin(max(-1.0, min(1.0, kr.dot(r, v) / (rn * vn)))) % kr.TWO_PI
            got = rut.getFlightPathAngle(e, nu_r)
            res.case("helpers/getFlightPathAngle", case, _angdiff(got, fpa) <= 1e-9 and 0.0 <= got < kr.TWO_PI, nontrivial=True,
                     signature="C03/helpers/getFlightPathAngle", observed=got, expected=fpa, item=item)
        else:
            # circular lattice points: |e| ~ 1e-16 sits on fpe_equals' own threshold (1e-15): unit or raw vector both accepted
            nrm = kr.vnorm(e_unit)
            res.either_way += 1
            res.case("helpers/getEccentricity/circular", case, abs(nrm - 1.0) < 1e-9 or abs(nrm - ecc) <= 1e-15, nontrivial=False,
                     signature="C03/helpers/getEccentricity/circular", observed=[ecc, nrm], expected="unit vector or raw vector", item=item)
        if 0.0 < e < 1.0 or (e == 0.0):
            per = kr.TWO_PI * math.sqrt(a**3 / MU)
            rec("getPeriod", case, rut.getPeriod(a), per, 1e-13)
            rec("getMeanMotion", case, rut.getMeanMotion(a), kr.TWO_PI / per, 1e-13)
            rec("getPeriod_mu", case, rut.getPeriod(a, mu=4.0 * MU), per / 2.0, 1e-13)
            rec("getMeanMotion_mu", case, rut.getMeanMotion(a, mu=4.0 * MU), 2.0 * kr.TWO_PI / per, 1e-13)
            rec("getSmaFromMeanMotion", case, rut.getSmaFromMeanMotion(kr.TWO_PI / per), a, 1e-13)
            rec("getSmaFromMeanMotion_mu", case, rut.getSmaFromMeanMotion(2.0 * kr.TWO_PI / per, mu=4.0 * MU), a, 1e-13)
            # keplerThirdLaw: documented circular first approximation built on g = 9.81 m/s^2 and the Earth radius:
            # exactly 2 pi sqrt(r^3 / (g R^2)), and within 1e-3 of the two-body period (g R^2 / mu - 1 = 1.2e-3 => 6e-4)
            own = kr.TWO_PI * math.sqrt(rn**3 / (9.81e-3 * 6378.1363**2))
            rec("keplerThirdLaw", case, rkep.keplerThirdLaw(r.copy()), own, 1e-12)
            rec("keplerThirdLaw_vs_two_body", case, rkep.keplerThirdLaw(r.copy()), kr.TWO_PI * math.sqrt(rn**3 / MU), 1e-3, nontrivial=False)
        # angle extractors on regular (inclined, eccentric) geometry only; singular geometry belongs to C12
        if inc not in (0.0, 180.0) and e > 1e-3:
            W = tuple(c / kr.vnorm(h) for c in h)
            nvec = (-W[1], W[0], 0.0)
            nn = kr.vnorm(nvec)
            n_unit = np.array([c / nn for c in nvec])
            e_u = np.array([c / kr.vnorm(ev) for c in ev])
            for fname, got, want in (
                ("getRightAscension", rut.getRightAscension(n_unit), math.radians(raan) % kr.TWO_PI),
                ("getArgumentPerigee", rut.getArgumentPerigee(e_u, n_unit), math.radians(argp) % kr.TWO_PI),
                ("getArgumentLatitude", rut.getArgumentLatitude(r.copy(), n_unit), math.radians(argp + nu) % kr.TWO_PI),
            ):
                tol_a = 1e-6 if abs(math.sin(want)) < 1e-3 else 1e-9
                res.case(f"helpers/{fname}", case, _angdiff(got, want) <= tol_a, nontrivial=True, signature=f"C03/helpers/{fname}",
                         observed=got, expected=want, item=item)
        if inc == 0.0 and e > 1e-3:
            want = math.radians(raan + argp) % kr.TWO_PI
            tol_a = 1e-6 if abs(math.sin(want)) < 1e-3 else 1e-9
            got = rut.getTrueLongitudePeriapsis(np.array([c / kr.vnorm(ev) for c in ev]))
            res.case("helpers/getTrueLongitudePeriapsis", case, _angdiff(got, want) <= tol_a, nontrivial=True,
                     signature="C03/helpers/getTrueLongitudePeriapsis", observed=got, expected=want, item=item)
        if inc == 0.0:
            want = math.radians(raan + argp + nu) % kr.TWO_PI
            tol_a = 1e-6 if abs(math.sin(want)) < 1e-3 else 1e-9
            got = rut.getTrueLongitude(r.copy())
            res.case("helpers/getTrueLongitude", case, _angdiff(got, want) <= tol_a, nontrivial=True,
                     signature="C03/helpers/getTrueLongitude", observed=got, expected=want, item=item)
    return {}


def _run_stumpff(res, item):
    """universalC2C3 on a lattice around its two thresholds (+-1e-6) and over both closed-form branches.

    Tolerance 2e-7 relative: inside |psi| <= 1e-6 the function returns the constants 1/2, 1/6 (designed truncation
    error psi/12 <= 8.4e-8 and psi/20); just outside, (1 - cos)/psi cancels to ~eps/psi <= 2e-9. A threshold moved to
    1e-5 already costs 7.5e-7 at psi = 9e-6."""
    mags = [1e-7, 9.9e-7, 1e-6, 1.01e-6, 2e-6, 5e-6, 9e-6, 1e-5, 1e-4, 1e-3, 1e-2, 0.1, 0.5, 1.0, math.pi**2, 10.0, 30.0, (2 * math.pi) ** 2 * 0.99, 50.0, 100.0, 400.0]
    psis = [0.0] + [s * m for m in mags for s in (1.0, -1.0)]
    for psi in psis:
        c2, c3 = rut.universalC2C3(psi)
        r2, r3 = kr.stumpff(psi)
        ok = abs(c2 - r2) <= 2e-7 * abs(r2) + 1e-15 and abs(c3 - r3) <= 2e-7 * abs(r3) + 1e-15
        branch = "series" if abs(psi) <= 1e-6 else ("elliptic" if psi > 0 else "hyperbolic")
        res.case("helpers/universalC2C3", {"psi": psi}, ok, nontrivial=psi != 0.0, signature=f"C03/helpers/universalC2C3/{branch}",
                 observed=[float(c2), float(c3)], expected=[r2, r3], outcome=branch, item=item)
        res.observe(float(c2), float(c3))
    return {}


# ------------------------------------------------------------------------------------------------ driver
def _run_force_batch(res, item):
    """The function solve_ivp integrates, on the stacked vector of a (6,K) batch (``X.ravel()``, the layout ``propagate`` hands
    over) against the same function on every member alone. Every term of the per-member loop (gravity field, third bodies, SRP,
    general relativity, finite thrust) must be formed from the member's OWN position and velocity.

    Tolerance: both evaluations perform the same operations on the same numbers; only the memory stride of the operands differs
    (BLAS may sum a strided 3-vector in another order): a few ulp (2.2e-16) of the largest term mu/r^2, times <= ~10 through
    the rotation ECI -> ECEF -> gradient -> ECI, i.e. <= ~2e-15 mu/r^2 (measured on this tree: bit-identical, error 0). 1e-13 mu/r^2
    is 2 orders above that. The smallest per-member term is general relativity, (v/c)^2 ~ 1e-10 (GEO) .. 6e-10 (LEO) of mu/r^2
    and of the order of itself wrong when taken with another orbit's velocity: >= 3 orders above the tolerance (SRP: 3e-8 .. 1e-6,
    thrust 1e-7 km/s^2: >= 1e-5 of mu/r^2)."""
    from functools import partial  # noqa: PLC0415

    from resonaate.dynamics.integration_events import finite_thrust as ft  # noqa: PLC0415

    _, kind, thrust, jd, seed, orbs = item
    ctx = _Ctx(res, item, kind, "derivative", 0.0, 0.0)
    dyn = _dynamics(kind, "RK45", float(jd))
    spec = FB_THRUST[thrust]
    callback = None
    if spec is not None:
        fn = getattr(ft, spec[0])
        callback = partial(fn, acc_vector=np.array(spec[1])) if spec[0] == "ntwBurn" else partial(fn, magnitude=spec[1])
    x0s = [_state(o) for o in orbs]
    n = len(orbs)
    for t_el in FB_TIMES:
        dyn.finite_thrust = callback
        alone = [_derivative(dyn, t_el, x) for x in x0s]
        for K in FB_K:
            for rot in range(n):
                members = [(rot + c) % n for c in range(K)]
                X = np.stack([x0s[m] for m in members], axis=1)  # (6, K)
                got = _call(dyn._differentialEquation, float(t_el), X.ravel().copy())  # noqa: SLF001
                sig = f"C03/force_batch/{kind}/thrust_{thrust}"
                base = {"t_elapsed": t_el, "K": K, "window_start": rot, "thrust": thrust}
                if _bad(got) or np.asarray(got).shape != (6 * K,) or not np.all(np.isfinite(got)) or any(_bad(alone[m]) for m in members):
                    res.case("force_batch", ctx.base(orbs[rot], **base), False, nontrivial=True, signature=f"{sig}/exception_or_shape",
                             observed=repr(got)[:200], expected=f"a ({6 * K},) derivative", item=item)
                    continue
                res.observe(got)
                G = np.asarray(got, dtype=float).reshape(6, K)
                for c, m in enumerate(members):
                    r = float(np.linalg.norm(x0s[m][:3]))
                    tol = FB_REL_TOL * MU / (r * r)
                    err = fw.maxabs(G[3:, c], alone[m][3:])
                    vel_ok = bool(np.array_equal(G[:3, c], x0s[m][3:]))
                    ctx.ratio("force_batch", err / tol)
                    detail = "column" if vel_ok else "velocity_part"
                    res.case("force_batch", ctx.base(orbs[m], col=c, **base), err <= tol and vel_ok, nontrivial=True,
                             signature=f"{sig}/{detail}", observed={"acc_err_kms2": err, "acc_err_over_mu_r2": err * r * r / MU, "in_batch": G[:, c]},
                             expected={"tol_kms2": tol, "alone": alone[m]}, outcome="within" if err <= tol and vel_ok else "outside", item=item)
    dyn.finite_thrust = None
    return ctx.ratios


def run_item(item):
    res = fw.Result()
    cpu0 = time.process_time()
    _HUNG["flag"] = False
    kind = item[0]
    if kind == "prop":
        ratios = _run_prop(res, item).ratios
    elif kind == "epoch_split":
        ratios = _run_epoch_split(res, item)
    elif kind == "epoch_twin":
        ratios = _run_epoch_twin(res, item)
    elif kind == "station_keeping":
        ratios = _run_station_keeping(res, item)
    elif kind == "station_keeping_scenario":
        ratios = _run_sk_scenario(res, item)
    elif kind == "stale_schedule":
        ratios = _run_stale_schedule(res, item)
    elif kind == "force_batch":
        ratios = _run_force_batch(res, item)
    elif kind == "universal":
        ratios = _run_universal(res, item)
    elif kind == "universal_branches":
        ratios = _run_universal_branches(res, item)
    elif kind == "helpers":
        ratios = _run_helpers(res, item)
    elif kind == "stumpff":
        ratios = _run_stumpff(res, item)
    else:
        raise ValueError(kind)
    res.ratios = {k: float(v) for k, v in ratios.items()}
    res.cpu_s = time.process_time() - cpu0
    if kind == "prop":
        res.ratio_group = f"{item[1]}/{item[2]}/T={item[3]:g}"
    elif kind == "epoch_split":
        res.ratio_group = f"epoch_split/{item[1]}/span={item[2]:g}/a={item[7][0]:g}" + ("/ms_start" if len(item) > 8 and item[8] else "")
    elif kind == "station_keeping":
        res.ratio_group = f"station_keeping/{item[1]}/{item[2]}/{item[3]}/t0={item[4]:g}"
    elif kind == "station_keeping_scenario":
        res.ratio_group = f"station_keeping_scenario/{item[1]}/{item[2]}"
    elif kind == "stale_schedule":
        res.ratio_group = f"stale_schedule/{item[1]}/{item[2]}/T={item[3]:g}"
    elif kind == "force_batch":
        res.ratio_group = f"force_batch/{item[1]}/thrust_{item[2]}"
    return res


def finalize(tier, seed, results):
    """Report the measured worst error/tolerance ratio per subcheck (margin evidence; 1.0 = at tolerance)."""
    worst, where = {}, {}
    for r in results:
        for k, v in getattr(r, "ratios", {}).items():
            if v > worst.get(k, -1.0):
                worst[k] = v
                where[k] = getattr(r, "ratio_group", "")
    out = fw.Result()
    cpu = [getattr(r, "cpu_s", 0.0) for r in results]
    out.extra["cpu_seconds_total"] = round(sum(cpu), 1)
    out.extra["cpu_seconds_longest_item"] = round(max(cpu), 1)
    out.extra["worst_error_over_tolerance"] = {k: {"ratio": round(v, 5), "at": where[k]} for k, v in sorted(worst.items())}
    if os.environ.get("VERIF_C03_CALIB"):
        print(f"  calib cpu total {sum(cpu):.1f} s, longest item {max(cpu):.1f} s", flush=True)
        groups = {}
        for r in results:
            g = getattr(r, "ratio_group", "other")
            groups.setdefault(g, []).append(getattr(r, "cpu_s", 0.0))
        for g, v in sorted(groups.items(), key=lambda kv: -sum(kv[1]))[:14]:
            print(f"  calib cpu {g}: items {len(v)} total {sum(v):.1f} max {max(v):.1f}", flush=True)
        for k, v in sorted(worst.items()):
            print(f"  calib {k}: worst err/tol = {v:.4g} at {where[k]}", flush=True)
    return out
