"""C04 - reference-frame conversions are exact inverses, rigid, and continuous in time.

Lattice explorer: every conversion pair of physics/transforms/methods.py, the FK5 reduction, the EOP loader, the
sidereal/calendar helpers and the rotation helpers are driven over announced lattices and compared with the independent
reference model in verif/oracles/frames_ref.py.
"""
from __future__ import annotations

import math
from datetime import date, datetime, timedelta
from fractions import Fraction
from types import SimpleNamespace

import numpy as np

from verif import framework as fw
from verif import scen  # installs the in-process fake ray before resonaate is imported
from verif.oracles import frames_ref as fr

from resonaate.physics import maths as rmaths  # noqa: E402
from resonaate.physics.bodies import Earth  # noqa: E402
from resonaate.physics.time import conversions as tconv  # noqa: E402
from resonaate.physics.time.stardate import JulianDate, datetimeToJulianDate  # noqa: E402
from resonaate.physics.transforms import methods as M  # noqa: E402
from resonaate.physics.transforms import reductions as red  # noqa: E402
from resonaate.common.behavioral_config import BehavioralConfig  # noqa: E402
from resonaate.physics.transforms.eops import MissingEOP, getEarthOrientationParameters  # noqa: E402
from resonaate.physics.transforms.eops import setEarthOrientationParameters  # noqa: E402
from resonaate.physics.transforms.eops import getter as eopgetter  # noqa: E402  (set-up / tear-down of the store only)
from resonaate.physics.transforms.eops import loaders as eoploaders  # noqa: E402
from resonaate.physics.transforms.nutation import get1980NutationSeries  # noqa: E402

PROPERTY = "C04"
LEVEL = "model_checking"
RULE = (
    "complete enumeration of announced lattices: (a) every day of EOPdata.dat: loader row vs own parse, reduction "
    "matrices vs an independent IAU-76/FK5 model at 00:00:00 and 23:59:59, rotation angle across every day boundary "
    "vs omega*(1 s + dUT1 step read from the table), TT conversion at 4 instants; (b) one VERIF_SEED-chosen day swept "
    "every minute, one hour and the last/first minutes of a day swept every second, half-second pairs; (c) ECI<->ECEF "
    "on radius x lat x lon x velocity x corner dates; (d) geodetic, SEZ, az/el<->ra/dec, RSW/NTW lattices; (d2) every "
    "function taking an observer state (razel2radec, radec2razel, eci2razel, eci2radec, getSlantRangeVector, "
    "radarObs2eciPosition, eci2sez/sez2eci with full states) for observers that MOVE in the Earth-fixed frame: orbit "
    "radius x inclination x argument of latitude with the true inertial velocity, one eccentric leg per radius x "
    "inclination, surface/air movers with an ECEF velocity; x elevation (incl. looking down) x azimuth x range x rates, "
    "and fixed inertial targets, against an own composition including the rate terms; (e) "
    "dayOfYear for every day 1896..2104, seconds2hms for every TT value s+dAT+32.184 and s+dAT+33 (s = every whole "
    "second of the day, dAT = every TAI offset of the table), utc2TerrestrialTime at every such whole-minute TT +-1 s, "
    "every 10th second and every anomaly, GMST/GAST lattices; (f) rot1/2/3, skewSymmetric, dotRot identities; an "
    "exception raised inside the implementation on a lattice input is a violation; (g) every state-vector transform "
    "on the same numbers given as int64 / int32 / float32 / strided / read-only ndarrays must return the float64 result "
    "and leave its input unmodified; (h) reduction matrices, ECI<->ECEF states, Julian date and TT under four host time "
    "zones (POSIX TZ strings with daylight saving rules) at the corner dates and hour by hour through the switch-over "
    "days must be bit-identical to the UTC host's; (i) Earth-orientation data installed at RUN TIME with the public "
    "setter: a reference store (day -> row) is driven through every word of length 1..3 (thorough: 4) over the "
    "operations {use day D, use day D+1, install series a on D, series b on D, series a on D+1, re-install D's published "
    "row, reduction of D with explicitly passed data}, each word on its own day pair of the table; after the word (and "
    "inside every 'use') every reader of the store - look-up in three call forms, reduction matrices and fields, "
    "eci2ecef/ecef2eci, teme2ecef at 4 instants per day (two in one minute), rotation across the midnight D->D+1 - is "
    "compared with the independent FK5 model on the row the reference store holds; plus one published field replaced "
    "at a time (7 fields x 2 magnitudes) x 4 setter call forms (date/datetime key, default/explicit loader) after "
    "ordinary use, the turn omega*d(UT1-UTC), the original row re-installed (bit-identical again); plus dates outside "
    "the table that raise MissingEOP, then get rows day by day; plus the setter as the FIRST Earth-orientation call on a "
    "loader whose file is not in memory (default loader and a LocalDotDatEOPLoader with explicit loader arguments) for 4 "
    "days inside and 2 outside the file x date/datetime key, then the same readers. non-trivial = date is a "
    "day/month/year/leap boundary (or the instant crosses a minute/hour/day roll-over in UT1 or TT), or the "
    "position/site lies on an axis, pole, equator or antimeridian, or (helpers) the argument sits on a branch point, or "
    "(d2) the observer's Earth-fixed speed is >= 0.01 km/s, or (i) the observed day carries a row installed earlier in "
    "the word; "
    "distinct by construction (lattice points). VERIF_SEED only shifts the swept day/hour and the phase of the "
    "secondary grids."
)
ASSUMPTIONS = [
    "the published IAU-76/FK5 formulae (Vallado 4th ed. eq 3-47, 3-68, 3-77..3-89, alg. 13/16/27/51) are the reference; "
    "the reference model reproduces Vallado example 3-15 to 7e-6 km (the published value's own JD rounding)",
    "EOPdata.dat and nut80.dat contents are trusted as data (own parser); python date ordinals are the calendar",
    "GAST built from GMST(1 Jan) + frozen rate (designed approximation) may differ from the exact IAU-82 polynomial "
    "by <= 7e-10 rad at day 366: tolerance 2e-9 rad on absolute sidereal angle and on year-boundary continuity",
    "ecef2lla closed form (Vallado alg. 13) carries rounding amplification up to 1.4e-10 rad / 1.4e-10 relative "
    "near pole/equator at 10 Earth radii (measured): tolerances 2e-9 rad, 5e-9 relative",
    "julianDateToDatetime/datetimeToJulianDate are the subject of C05 (used only for whole-second instants)",
    "teme2ecef evaluates GMST at the UTC Julian date (dUT1 neglected, float JD resolution 3e-9 rad): taken as designed",
    "positions inside the Earth (r < 43 km, ecef2lla branch D<0) are outside the property's quantifier and not driven",
    "for an observer that moves in the Earth-fixed frame the topocentric-horizon (SEZ) axes are those of the observer's "
    "instantaneous geodetic sub-point, held fixed in ECEF (relative ECEF position and velocity rotated by one constant "
    "matrix, no basis-rate term), as getSlantRangeVector / razel2radec are written (Vallado eq 4-6): taken as designed; "
    "the sub-point comes from the check's own iterative geodetic inverse",
    "(i) CachedReductionParams keeps polar motion per day in the key-value store by design and is not driven with "
    "changing rows. The store's dict and the loader registry are touched directly only for set-up / tear-down (snapshot "
    "and restore of the entries a word may change; taking the loader out of the registry so that the set-before-load "
    "history meets an unread loader), never as an operation under test",
]
EXPECT_MIN_NONTRIVIAL = 5000

DEG = math.pi / 180.0
RE = fr.R_EARTH

# ---------------------------------------------------------------------------------------------- tolerances (derived)
TOL_PN = 1e-11  # rot_pn entries: six chained rotations in double precision, measured 1.7e-13; smallest defect ~1e-8
TOL_PNR = 2e-9  # rot_pnr entries: frozen sidereal rate from 1 Jan (<= 7e-10 rad at day 366), smallest defect: 1 ms of
#                 UT1 = 7.3e-8 rad
TOL_W = 1e-14  # polar motion matrix: closed form of two rotations
TOL_EQE = 1e-12  # equation of the equinoxes (measured 7e-14)
TOL_JUMP = 2e-10  # rad, 1-second rotation angle away from 1 Jan: measured 2.6e-12 (second-order polar-motion step);
#                   a stale/duplicated EOP row changes it by omega*second difference of dUT1 (typically 5e-9..7e-8)
TOL_JUMP_YEAR = 2e-9  # rad, across 31 Dec -> 1 Jan: the frozen-rate GMST is re-anchored (measured 6.9e-10)
TOL_TTT = 1e-12  # Julian centuries: float JD resolution 4.7e-10 day / 36525 = 1.3e-14; 1 s error = 3.2e-10
TOL_GMST = 5e-10  # rad: 6e8 s * 2^-53 -> 5e-12 rad rounding (measured 2e-11)
TOL_GAST = 2e-9  # rad: frozen rate (see assumptions)
TOL_LAT = 2e-9  # rad (see assumptions)
REL_GEO = 5e-9  # relative position closure of ecef2lla (see assumptions)


def worker_init():
    scen.fresh()


# ---------------------------------------------------------------------------------------------- lattices
def _table_days():
    return fr.eop_table()[1]


def _seed_day(seed: int, k: int = 0) -> date:
    days = _table_days()
    return days[(seed * 7919 + k * 104729 + 1234) % (len(days) - 2)]


CORNER_DATES = [
    datetime(2014, 1, 1, 0, 0, 0),
    datetime(2014, 12, 31, 23, 59, 59),
    datetime(2015, 6, 30, 23, 59, 59),
    datetime(2015, 7, 1, 0, 0, 0),
    datetime(2016, 2, 28, 23, 59, 59),
    datetime(2016, 2, 29, 12, 0, 0),
    datetime(2016, 3, 1, 0, 0, 0),
    datetime(2016, 12, 31, 23, 59, 59),
    datetime(2017, 1, 1, 0, 0, 0),
    datetime(2018, 7, 15, 7, 8, 9, 250000),
    datetime(2020, 2, 29, 23, 59, 59),
    datetime(2020, 3, 1, 0, 0, 0),
    datetime(2020, 12, 31, 23, 59, 59),
    datetime(2021, 1, 1, 0, 0, 0),
    datetime(2022, 10, 3, 23, 59, 59),
    datetime(2022, 10, 4, 12, 0, 0),
]


def _dates(tier, seed):
    d = _seed_day(seed, 1)
    out = list(CORNER_DATES) + [datetime(d.year, d.month, d.day, 17, 43, 21)]
    if tier == "thorough":
        for k in range(2, 60):
            d = _seed_day(seed, k)
            out.append(datetime(d.year, d.month, d.day, (k * 5) % 24, (k * 17) % 60, (k * 29) % 60))
        out += [datetime(y, 12, 31, 23, 59, 59) for y in range(2015, 2022)] + [datetime(y, 1, 1) for y in range(2015, 2023)]
    seen, res = set(), []
    for t in out:
        if t not in seen:
            seen.add(t)
            res.append(t)
    return res


RADII = [RE, RE + 0.4, 7000.0, 42164.0, 10 * RE]
LATS = [90.0, -90.0, 89.999, -89.999, 45.0, -45.0, 0.0]
LONS = [0.0, 90.0, 179.999, -180.0, -90.0]
VELS = [(0.0, 0.0, 0.0), (7.5, 0.0, 0.0), (0.0, 7.5, 0.0), (0.0, 0.0, 7.5), (1.1, -6.9, 2.3)]


def _iso(t: datetime) -> str:
    return t.isoformat()


def _dt(s) -> datetime:
    return datetime.fromisoformat(s)


def items(tier, seed):
    out = [("maths", seed), ("anchor", seed), ("loader_api", seed), ("rswntw", seed, tier), ("repr", seed), ("hosttz", seed)]
    for y0 in range(1896, 2105, 19):
        out.append(("dayofyear", y0, min(y0 + 18, 2104)))
    for dat in sorted({row["dat"] for row in fr.eop_table()[0].values()}):
        for h0 in range(0, 24, 4):
            out.append(("seconds2hms", dat, h0, 4))
    out.append(("sidereal", seed, tier))
    n = len(_table_days())
    step = 80
    for i0 in range(0, n, step):
        out.append(("days", i0, min(i0 + step, n)))
    # sweeps: minute sweep of a seed day, second sweep of a seed hour and of the day's end
    d = _seed_day(seed, 0)
    for h0 in range(0, 24, 3):
        out.append(("sweep_min", d.isoformat(), h0, 3))
    hour = (seed * 5 + 7) % 24
    for m0 in range(0, 60, 10):
        out.append(("sweep_sec", d.isoformat(), hour * 3600 + m0 * 60, 600))
    out.append(("sweep_sec", d.isoformat(), 86400 - 180, 240))
    if tier == "thorough":
        for k in range(30, 34):
            d2 = _seed_day(seed, k)
            for h0 in range(0, 24, 3):
                out.append(("sweep_min", d2.isoformat(), h0, 3))
            out.append(("sweep_sec", d2.isoformat(), 86400 - 180, 240))
        for h in range(24):
            if h != hour:
                for m0 in range(0, 60, 20):
                    out.append(("sweep_sec", d.isoformat(), h * 3600 + m0 * 60, 1200))
    for t in _dates(tier, seed):
        out.append(("eci_ecef", _iso(t)))
    out.append(("geodetic", seed, tier, 0))
    out.append(("geodetic", seed, tier, 1))
    out.append(("sez", seed, tier))
    rz_dates = [CORNER_DATES[2], CORNER_DATES[5], CORNER_DATES[12]]
    if tier == "thorough":
        rz_dates = _dates("quick", seed)
    sites = _sites(tier, seed)
    for t in rz_dates:
        for chunk in fw.chunked(sites, 3):
            out.append(("razel", _iso(t), chunk, seed))
    # observers that move in the Earth-fixed frame: quick = every observer at one of the three dates (cyclic over the
    # chunks, so every date meets every radius and every inclination); thorough = every observer at every date
    mv_dates = [CORNER_DATES[2], CORNER_DATES[5], CORNER_DATES[12]]
    if tier == "thorough":
        mv_dates.append(_dates("quick", seed)[-1])
    for i, chunk in enumerate(fw.chunked(_observers(tier, seed), 3)):
        for k, t in enumerate(mv_dates):
            if tier == "thorough" or k == i % len(mv_dates):
                out.append(("razel_moving", _iso(t), chunk, seed))
    # Earth-orientation data installed at run time: every word over EOP_OPS up to the tier's depth, one field at a time,
    # and dates that have no data until they are given some
    for part in range(EOP_PARTS):
        out.append(("eop_seq", seed, EOP_DEPTH[tier], part))
    out.append(("eop_fields", seed))
    out.append(("eop_missing", seed))
    out.append(("eop_set_before_load", seed))
    return out


def _sites(tier, seed):
    sites = [(la, lo) for la in LATS for lo in LONS]
    ph = (seed * 37) % 89
    sites += [(-88.0 + ph * 1.9 % 176.0, -179.0 + (ph * 7.3) % 358.0), (ph - 44.5, 180.0 - ph * 0.01)]
    if tier == "quick":
        # every latitude with every longitude at least once (Latin-square style thinning), plus the seed-phase sites
        keep = [(la, LONS[(i + j) % len(LONS)]) for i, la in enumerate(LATS) for j in (0, 2)]
        sites = keep + sites[-2:]
    return [list(s) for s in sites]


def bounds(tier, seed):
    return {
        "eop_days": [_table_days()[0].isoformat(), _table_days()[-1].isoformat(), len(_table_days())],
        "day_boundaries": len(_table_days()) - 1,
        "swept_day": _seed_day(seed, 0).isoformat(),
        "swept_hour": (seed * 5 + 7) % 24,
        "conversion_dates": [_iso(t) for t in _dates(tier, seed)],
        "radii_km": RADII,
        "lats_deg": LATS,
        "lons_deg": LONS,
        "velocities": VELS,
        "sites": _sites(tier, seed),
        "moving_observers": {
            "orbit_radii_km": ORB_RADII, "inclinations_deg": ORB_INCS, "arguments_of_latitude_deg": ORB_ARGLATS,
            "eccentric_leg_speed_factor_and_flight_path_deg": list(ORB_ECC_SHAPE), "surface_air_movers": [list(m) for m in MOVERS],
            "count": len(_observers(tier, seed)), "elevations_deg": ELS_SPACE, "azimuths_deg": AZS_MOVING + [(seed * 53.7 + 11.0) % 360.0],
            "ranges_km": RNGS, "rates": [list(r) for r in RATES], "inertial_targets": [n for n, _ in TARGETS_ECI],
            "dates_per_observer": 1 if tier == "quick" else 4,
        },
        "dayOfYear_years": [1896, 2104],
        "eop_histories": {
            "operations": EOP_OPS, "max_word_length": EOP_DEPTH[tier], "words": len(_eop_words(EOP_DEPTH[tier])),
            "day_pair_of_first_word": _eop_word_day(seed, 0, len(_eop_words(EOP_DEPTH[tier]))).isoformat(),
            "distinct_first_days": len({_eop_word_day(seed, k, len(_eop_words(EOP_DEPTH[tier]))) for k in range(len(_eop_words(EOP_DEPTH[tier])))}),
            "day_pairs_disjoint": len(_eop_eligible()) // len(_eop_words(EOP_DEPTH[tier])) >= 2,
            "series": {n: list(_eop_series(n, 0)) for n in "abc"}, "series_fields": list(EOP_FIELDS),
            "instants_in_U": [list(h) for h in EOP_T_USE], "instants_after_word": [list(h) for h in EOP_T_FINAL],
            "single_field_variants": [list(v) for v in EOP_FIELD_VARIANTS], "setter_call_forms": EOP_SET_FORMS,
            "getter_call_forms": ["default", "keywords", "positional"],
            "dates_without_data": ["first-2, first-1", "last+1, last+2", "last+10, last+11 (never looked up before)"],
            "set_before_load": {
                "history": "setter is the first Earth-orientation call on a loader whose file is not in memory, then look-ups, reduction, conversions, midnight step",
                "loaders": ["default loader (fresh instance)", "LocalDotDatEOPLoader on EOPdata.dat via explicit loader arguments"],
                "days": ["2 seed-phased table days", "first table day", "day before the last table day", "last+5 (outside the file)", "first-3 (outside the file)"],
                "setter_key_forms": EOP_SET_FORMS[:2], "series": "a / b alternating",
            },
            "words_start": "with the loader's file in memory (look-up of the first table day); the unread-loader start is the set_before_load family",
        },
    }


# ---------------------------------------------------------------------------------------------- small helpers
def _maxabs(a, b):
    return float(np.max(np.abs(np.asarray(a, dtype=float) - np.asarray(b, dtype=float))))


def _finite(a):
    return bool(np.all(np.isfinite(np.asarray(a, dtype=float))))


def _sph(radius, lat_deg, lon_deg):
    la, lo = lat_deg * DEG, lon_deg * DEG
    return [radius * math.cos(la) * math.cos(lo), radius * math.cos(la) * math.sin(lo), radius * math.sin(la)]


def _date_kind(t: datetime) -> str:
    nxt = t + timedelta(seconds=1)
    if (t.month, t.day) in ((6, 30), (12, 31)) and t.year in (2015, 2016) and nxt.day == 1:
        row0, row1 = fr.eop_table()[0].get(t.date()), fr.eop_table()[0].get(nxt.date())
        if row0 and row1 and row0["dat"] != row1["dat"]:
            return "leap_second"
    if nxt.year != t.year or (t.month == 1 and t.day == 1 and t.hour == 0 and t.minute == 0 and t.second == 0):
        return "year_boundary"
    if (t.month, t.day) in ((2, 28), (2, 29), (3, 1)):
        return "leap_day"
    if nxt.month != t.month or (t.day == 1 and t.hour == 0 and t.minute == 0 and t.second == 0):
        return "month_boundary"
    if nxt.day != t.day or (t.hour == 0 and t.minute == 0 and t.second == 0):
        return "day_boundary"
    return "plain"


def _impl_mats(t: datetime):
    rp = red.ReductionParams.build(t)
    return rp, np.asarray(rp.rot_pnr, dtype=float), np.asarray(rp.rot_w, dtype=float)


def _own_omega(t: datetime):
    lod = fr.eop_table()[0][t.date()]["lod"]
    return [0.0, 0.0, fr.OMEGA_EARTH * (1.0 - lod / 86400.0)]


def _compose_ecef2eci(x, pnr, w, omega):
    """Own composition of the ECEF->ECI state transform from given rotation matrices (velocity transport incl.)."""
    x = np.asarray(x, dtype=float)
    r_pef = w @ x[:3]
    v_pef = w @ x[3:] + np.array(fr.cross(omega, r_pef))
    return np.concatenate((pnr @ r_pef, pnr @ v_pef))


def _compose_eci2ecef(x, pnr, w, omega):
    x = np.asarray(x, dtype=float)
    r_pef = pnr.T @ x[:3]
    v_pef = pnr.T @ x[3:] - np.array(fr.cross(omega, r_pef))
    return np.concatenate((w.T @ r_pef, w.T @ v_pef))


# ---------------------------------------------------------------------------------------------- maths helpers
ANGLES = [0.0, math.pi / 6, -math.pi / 6, math.pi / 2, -math.pi / 2, math.pi, 1e-8, -1e-8, 2.5, -4.0, 2 * math.pi, 0.7]
VECS = [(1, 0, 0), (-1, 0, 0), (0, 1, 0), (0, -1, 0), (0, 0, 1), (0, 0, -1), (1, 2, 3), (-4, 5, -6), (0.3, -0.7, 0.2)]


def _run_maths(res, item):
    seed = item[1]
    angles = ANGLES + [((seed * 0.61803398875) % 1.0) * 2 * math.pi - math.pi]
    fns = (rmaths.rot1, rmaths.rot2, rmaths.rot3)
    dots = (rmaths.dotRot1, rmaths.dotRot2, rmaths.dotRot3)
    for ax in range(3):
        for a in angles:
            got = np.asarray(fns[ax](a), dtype=float)
            ref = fr.rot_axis(ax, a)
            case = {"fn": f"rot{ax + 1}", "angle": a}
            nt = a != 0.0
            res.case("maths/rot/reference", case, got.shape == (3, 3) and _maxabs(got, ref) <= 1e-15, nontrivial=nt,
                     signature=f"C04/maths/rot{ax + 1}/reference", observed=got, expected=ref, item=item)
            res.case("maths/rot/orthonormal", case,
                     _maxabs(got @ got.T, np.eye(3)) <= 1e-15 and abs(float(np.linalg.det(got)) - 1.0) <= 1e-15,
                     nontrivial=nt, signature=f"C04/maths/rot{ax + 1}/orthonormal", observed=got, item=item)
            res.case("maths/rot/transpose_is_inverse", case, _maxabs(got.T, fns[ax](-a)) <= 1e-15, nontrivial=nt,
                     signature=f"C04/maths/rot{ax + 1}/transpose", observed=got, item=item)
            for b in angles[:8]:
                res.case("maths/rot/composition", {"fn": f"rot{ax + 1}", "a": a, "b": b},
                         _maxabs(got @ np.asarray(fns[ax](b)), fns[ax](a + b)) <= 5e-15, nontrivial=nt and b != 0.0,
                         signature=f"C04/maths/rot{ax + 1}/composition", item=item)
            res.observe(got)
    for w in VECS:
        got = np.asarray(rmaths.skewSymmetric(np.array(w, dtype=float)), dtype=float)
        ref = np.array(fr.cross_matrix(w), dtype=float)
        # a failure is attributed to the row-3/col-2 element iff repairing that single element makes the case pass
        fixed = got.copy()
        fixed[2, 1] = ref[2, 1]
        only_r3c2 = _maxabs(fixed, ref) <= 1e-15

        def sig(kind, only=only_r3c2):
            return f"C04/maths/skew_row3col2/{kind}" if only else f"C04/maths/skew/{kind}/other"

        for i in range(3):
            for j in range(3):
                ok = abs(got[i, j] - ref[i, j]) <= 1e-15
                res.case("maths/skew/element", {"w": list(w), "i": i, "j": j}, ok, nontrivial=i != j,
                         signature=f"C04/maths/skew_row3col2/element" if (i, j) == (2, 1) else f"C04/maths/skew/element/{i},{j}",
                         observed=got[i, j], expected=ref[i, j], item=item)
        res.case("maths/skew/antisymmetric", {"w": list(w)}, _maxabs(got + got.T, np.zeros((3, 3))) <= 1e-15,
                 nontrivial=True, signature=sig("antisymmetric"), observed=got, expected=ref, item=item)
        for v in VECS:
            exp = fr.cross(w, v)
            res.case("maths/skew/cross_product", {"w": list(w), "v": list(v)},
                     _maxabs(got @ np.array(v, dtype=float), exp) <= 1e-14, nontrivial=True,
                     signature=sig("cross_product"), observed=got @ np.array(v, dtype=float), expected=exp, item=item)
        res.observe(got)
        bug = ref.copy()
        bug[2, 1] = w[1]  # the value the known finding puts there
        for ax in range(3):
            for a in (0.0, 0.4, -2.0):
                gotd = np.asarray(dots[ax](a, np.array(w, dtype=float)), dtype=float)
                exp = fr.rot_axis(ax, a) @ ref
                ok = _maxabs(gotd, exp) <= 1e-14
                known = (not ok) and _maxabs(gotd, fr.rot_axis(ax, a) @ bug) <= 1e-14
                res.case("maths/dotRot", {"fn": f"dotRot{ax + 1}", "angle": a, "w": list(w)}, ok, nontrivial=True,
                         signature="C04/maths/skew_row3col2/dotRot" if known else f"C04/maths/dotRot{ax + 1}",
                         observed=gotd, expected=exp, item=item)
    for k in range(-3, 4):
        for off in (0.0, 1e-12, -1e-12, 1.0, 3.0, 6.0):
            a = k * 2 * math.pi + off
            got = float(rmaths.wrapAngle2Pi(a))
            near_seam = abs(fr.angle_diff(a, 0.0)) < 1e-9
            ok = 0.0 <= got < 2 * math.pi + 1e-15 and abs(fr.angle_diff(got, a)) <= 1e-12 * max(1.0, abs(a))
            res.case("maths/wrapAngle2Pi", {"angle": a}, ok, nontrivial=k != 0 or near_seam,
                     signature="C04/maths/wrapAngle2Pi", observed=got, expected=a % (2 * math.pi), item=item)
            res.observe(got)


# ---------------------------------------------------------------------------------------------- published anchor
def _eops_obj(t, xp_as, yp_as, dut1, lod, dpsi_as, deps_as, dat):
    from resonaate.physics.transforms.eops import EarthOrientationParameter  # noqa: PLC0415

    return EarthOrientationParameter(t.date(), xp_as * fr.ARCSEC, yp_as * fr.ARCSEC, dpsi_as * fr.ARCSEC,
                                     deps_as * fr.ARCSEC, dut1, lod, dat)


def _cmp_reduction(res, sub, rp, ref: fr.FK5, case, nontrivial, item, sigroot="C04/reduction"):
    """Compare implementation reduction parameters with the reference model, one case per quantity."""
    checks = (
        ("rot_pn", rp.rot_pn, ref.pn, TOL_PN),
        ("rot_pnr", rp.rot_pnr, ref.pnr, TOL_PNR),
        ("rot_rnp", rp.rot_rnp, ref.pnr.T, TOL_PNR),
        ("rot_w", rp.rot_w, ref.polar, TOL_W),
        ("rot_wt", rp.rot_wt, ref.polar.T, TOL_W),
    )
    for name, got, exp, tol in checks:
        got = np.asarray(got, dtype=float)
        err = _maxabs(got, exp) if got.shape == (3, 3) else float("inf")
        res.case(f"{sub}/{name}", case, err <= tol, nontrivial=nontrivial, signature=f"{sigroot}/{name}",
                 observed=got, expected=exp, item=item)
    # the sidereal angle itself, extracted from R = (PN)^T PNR, sharper than entries for quadrant faults
    rmat = np.asarray(rp.rot_pn, dtype=float).T @ np.asarray(rp.rot_pnr, dtype=float)
    gast = math.atan2(rmat[1, 0], rmat[0, 0])  # R = rot3(-gast) => R[1,0] = sin(gast)
    res.case(f"{sub}/gast", case, abs(fr.angle_diff(gast, ref.gast)) <= TOL_GAST, nontrivial=nontrivial,
             signature=f"{sigroot}/gast", observed=gast, expected=ref.gast, item=item)
    res.case(f"{sub}/eq_equinox", case, abs(rp.eq_equinox - ref.eq_equinox) <= TOL_EQE, nontrivial=nontrivial,
             signature=f"{sigroot}/eq_equinox", observed=rp.eq_equinox, expected=ref.eq_equinox, item=item)
    res.case(f"{sub}/fields", case, rp.lod == ref.lod and rp.dut1 == ref.dut1 and rp.date_time == ref.dt,
             nontrivial=nontrivial, signature=f"{sigroot}/fields",
             observed=[rp.lod, rp.dut1, str(rp.date_time)], expected=[ref.lod, ref.dut1, str(ref.dt)], item=item)
    res.observe(np.asarray(rp.rot_pnr), np.asarray(rp.rot_w), rp.eq_equinox)


def _run_anchor(res, item):
    # Vallado example 3-15 (published numbers): validates the reference model and the implementation with explicit EOPs
    t = datetime(2004, 4, 6, 7, 51, 28, 386009)
    vals = (-0.140682, 0.333309, -0.4399619, 0.0015563, -0.052195, -0.003875, 32)
    ref = fr.FK5(t, vals[0] * fr.ARCSEC, vals[1] * fr.ARCSEC, vals[2], vals[3], vals[4] * fr.ARCSEC, vals[5] * fr.ARCSEC, vals[6])
    itrf = [-1033.4793830, 7901.2952754, 6380.3565958, -3.225636520, -2.872451450, 5.531924446]
    gcrf = [5102.5089579, 6123.0114007, 6378.1369282, -4.743220157, 0.790536497, 5.533755727]
    got = ref.ecef_to_eci(itrf)
    # published to 1e-7 km but computed from a double-precision JD (4e-5 s = 3e-9 rad = 3e-5 km at 1e4 km)
    res.case("anchor/reference_model_vs_published", {"example": "Vallado 3-15"},
             _maxabs(got[:3], gcrf[:3]) <= 5e-5 and _maxabs(got[3:], gcrf[3:]) <= 5e-8, nontrivial=True,
             signature="C04/anchor/reference_model", observed=got, expected=gcrf, item=item)
    rp = red.ReductionParams.build(t, eops=_eops_obj(t, *vals))
    _cmp_reduction(res, "anchor/vallado_3_15", rp, ref, {"t": _iso(t)}, True, item, sigroot="C04/anchor/reduction")
    got_i = _compose_ecef2eci(itrf, np.asarray(rp.rot_pnr), np.asarray(rp.rot_w), [0, 0, fr.OMEGA_EARTH * (1 - vals[3] / 86400)])
    res.case("anchor/impl_vs_published", {"example": "Vallado 3-15"},
             _maxabs(got_i[:3], gcrf[:3]) <= 5e-5 and _maxabs(got_i[3:], gcrf[3:]) <= 5e-8, nontrivial=True,
             signature="C04/anchor/impl_published", observed=got_i, expected=gcrf, item=item)
    # equation-of-the-equinoxes date switch (extra terms only after 1997-02-27 TT) and other epochs, explicit EOPs
    for t2 in (datetime(1996, 6, 1, 3, 4, 5), datetime(1997, 2, 26, 12, 0, 0), datetime(1997, 2, 27, 12, 0, 0),
               datetime(1999, 12, 31, 23, 59, 59), datetime(2000, 1, 1, 12, 0, 0), datetime(2000, 2, 29, 6, 0, 0),
               datetime(2030, 7, 1, 0, 0, 1)):
        v2 = (0.11, 0.29, 0.31234 if t2.year < 2010 else -0.2, 0.0012, -0.04, -0.006, 30 if t2.year < 1999 else 32)
        ref2 = fr.FK5(t2, v2[0] * fr.ARCSEC, v2[1] * fr.ARCSEC, v2[2], v2[3], v2[4] * fr.ARCSEC, v2[5] * fr.ARCSEC, v2[6])
        rp2 = red.ReductionParams.build(t2, eops=_eops_obj(t2, *v2))
        _cmp_reduction(res, "anchor/explicit_eops", rp2, ref2, {"t": _iso(t2)}, True, item, sigroot="C04/anchor/reduction")
    # num=0 switch of the private helper: no extra terms
    ttt = 0.15
    dpsi, teps, meps, eqe = red._getNutationParameters(ttt, 1e-7, -2e-7, num=0)  # noqa: SLF001
    res.case("anchor/eq_equinox_num0", {"ttt": ttt}, abs(eqe - dpsi * math.cos(meps)) <= 1e-18, nontrivial=True,
             signature="C04/anchor/num0", observed=eqe, expected=dpsi * math.cos(meps), item=item)
    # nutation series loader vs own parse and the five largest published IAU-1980 terms
    reals, ints = get1980NutationSeries()
    own = fr.nut80_table()
    ok_shape = np.asarray(reals).shape == (len(own), 4) and np.asarray(ints).shape == (len(own), 5) and len(own) == 106
    res.case("nutation/shape", {}, ok_shape, nontrivial=True, signature="C04/nutation/shape",
             observed=[list(np.asarray(reals).shape), list(np.asarray(ints).shape)], item=item)
    published = [(0, 0, 0, 0, 1, -171996, -174.2, 92025, 8.9), (0, 0, 2, -2, 2, -13187, -1.6, 5736, -3.1),
                 (0, 0, 2, 0, 2, -2274, -0.2, 977, -0.5), (0, 0, 0, 0, 2, 2062, 0.2, -895, 0.5),
                 (0, 1, 0, 0, 0, 1426, -3.4, 54, -0.1)]
    if ok_shape:
        for k, row in enumerate(own):
            exp_r = [c * 1e-4 * fr.ARCSEC for c in row[5:9]]
            ok = list(np.asarray(ints)[k]) == list(row[:5]) and _maxabs(np.asarray(reals)[k], exp_r) <= 1e-22
            if k < 5:
                ok = ok and tuple(row) == tuple(float(v) if i >= 5 else v for i, v in enumerate(published[k]))
            res.case("nutation/row", {"row": k}, ok, nontrivial=True, signature="C04/nutation/row",
                     observed=[list(np.asarray(ints)[k]), list(np.asarray(reals)[k])], expected=list(row), item=item)
    # cached variant (documented mid-minute approximation of precession/nutation: <= 30 s * 1.3e-11 rad/s = 4e-10)
    for t3 in (datetime(2019, 3, 4, 5, 6, 7), datetime(2019, 3, 4, 5, 6, 47), datetime(2016, 12, 31, 23, 59, 59), datetime(2017, 1, 1, 0, 0, 0)):
        a = red.CachedReductionParams.build(t3)
        b = red.ReductionParams.build(t3)
        ok = (_maxabs(a.rot_pnr, b.rot_pnr) <= 2e-9 and _maxabs(a.rot_pn, b.rot_pn) <= 2e-9 and _maxabs(a.rot_w, b.rot_w) == 0.0
              and _maxabs(a.rot_rnp, np.asarray(a.rot_pnr).T) == 0.0 and a.lod == b.lod and a.dut1 == b.dut1)
        res.case("cached_reduction", {"t": _iso(t3)}, ok, nontrivial=True, signature="C04/cached_reduction",
                 observed=_maxabs(a.rot_pnr, b.rot_pnr), item=item)
    # constants the reference model relies on
    res.case("constants", {}, Earth.radius == fr.R_EARTH and Earth.eccentricity == fr.ECC_EARTH and Earth.spin_rate == fr.OMEGA_EARTH,
             signature="C04/constants", observed=[Earth.radius, Earth.eccentricity, Earth.spin_rate], item=item)


# ---------------------------------------------------------------------------------------------- EOP loader API
def _run_loader_api(res, item):
    tab, order = fr.eop_table()
    path = fr._data_path("eop", "EOPdata.dat")  # noqa: SLF001
    ld = eoploaders.LocalDotDatEOPLoader(path)
    first, last = order[0], order[-1]
    for d, want in ((first, True), (last, True), (first - timedelta(days=1), False), (last + timedelta(days=1), False),
                    (date(2016, 2, 29), True), (date(2020, 2, 29), True), (date(2000, 1, 1), False)):
        got = ld.validEOP(d)
        res.case("loader/validEOP", {"date": d.isoformat()}, got is want, nontrivial=True, signature="C04/loader/validEOP",
                 observed=got, expected=want, item=item)
        raised = False
        try:
            getEarthOrientationParameters(d)
        except MissingEOP:
            raised = True
        res.case("loader/missing_raises", {"date": d.isoformat()}, raised is (not want), nontrivial=True,
                 signature="C04/loader/missing", observed=raised, expected=not want, item=item)
    res.case("loader/earliest_latest", {}, ld.earliestEOPDate() == first and ld.latestEOPDate() == last, nontrivial=True,
             signature="C04/loader/earliest_latest", observed=[str(ld.earliestEOPDate()), str(ld.latestEOPDate())],
             expected=[str(first), str(last)], item=item)
    res.case("loader/row_count", {}, len(ld._eop_data) == len(order), nontrivial=True,  # noqa: SLF001
             signature="C04/loader/row_count", observed=len(ld._eop_data), expected=len(order), item=item)  # noqa: SLF001
    # setEOPData on a private loader instance: date and datetime keys land on the calendar day
    probe = _eops_obj(datetime(2031, 5, 6), 0.1, 0.2, 0.3, 0.001, 0.0, 0.0, 37)
    ld.setEOPData(date(2031, 5, 6), probe)
    ld.setEOPData(datetime(2031, 5, 7, 23, 59, 59), probe)
    ok = ld.getEarthOrientationParameters(date(2031, 5, 6)) is probe and ld.getEarthOrientationParameters(date(2031, 5, 7)) is probe
    ok = ok and not ld.validEOP(date(2031, 5, 8)) and ld.getEarthOrientationParameters(last).delta_ut1 == tab[last]["dut1"]
    res.case("loader/setEOPData", {}, ok, nontrivial=True, signature="C04/loader/setEOPData", item=item)
    # table self-consistency: UT1 steps of ~1 s coincide with TAI-UTC increments (inserted leap seconds), nowhere else
    steps = [d for a, d in zip(order, order[1:]) if abs(tab[d]["dut1"] - tab[a]["dut1"]) > 0.5]
    dats = [d for a, d in zip(order, order[1:]) if tab[d]["dat"] != tab[a]["dat"]]
    res.case("loader/leap_seconds_in_table", {}, steps == dats == [date(2015, 7, 1), date(2017, 1, 1)], nontrivial=True,
             signature="C04/loader/leap_table", observed=[str(d) for d in steps], expected=[str(d) for d in dats], item=item)
    res.observe(len(order))


# ---------------------------------------------------------------------------------------------- calendar helpers
HMS = [(0, 0, 0.0), (23, 59, 59.0), (12, 0, 0.0), (6, 30, 15.5), (23, 59, 59.999)]


def _run_dayofyear(res, item):
    _, y0, y1 = item
    d = date(y0, 1, 1)
    end = date(y1, 12, 31)
    jan1 = d.toordinal()
    year = y0
    while d <= end:
        if d.year != year:
            year = d.year
            jan1 = d.toordinal()
        doy = d.toordinal() - jan1 + 1
        leap = fr.is_leap(year)
        boundary = d.day == 1 or (d + timedelta(days=1)).day == 1 or (d.month == 2 and d.day >= 28)
        hms = HMS if boundary else HMS[:1]
        for h, mi, s in hms:
            got = float(tconv.dayOfYear(d.year, d.month, d.day, h, mi, s))
            exp = doy + (h * 3600 + mi * 60 + s) / 86400.0
            region = "century" if year % 100 == 0 else ("leap" if leap else "common")
            res.case("time/dayOfYear", {"date": d.isoformat(), "h": h, "m": mi, "s": s}, abs(got - exp) <= 1e-9,
                     nontrivial=boundary or (leap and d.month > 2) or year % 100 == 0,
                     signature=f"C04/time/dayOfYear/{region}/{'after_feb' if d.month > 2 else 'jan_feb'}",
                     observed=got, expected=exp, item=item)
        res.observe(got)
        d += timedelta(days=1)


def _run_seconds2hms(res, item):
    _, dat, h0, nh = item
    for s in range(h0 * 3600, (h0 + nh) * 3600):
        tt = s + dat + 32.184
        h, mi, sec = (float(v) for v in tconv.seconds2hms(tt))
        # exact decomposition: integer hour/minute, fields in range, and they add up (rounding 86400*2^-52 = 2e-11)
        ok = h == math.floor(h) and mi == math.floor(mi) and 0 <= mi <= 59 and 0.0 <= sec <= 60.0 and 0 <= h <= 24
        ok = ok and abs(h * 3600 + mi * 60 + sec - tt) <= 1e-9
        # tt = whole second + 0.184: never within rounding of a minute/hour edge, so the fields are decided exactly
        ok = ok and h == math.floor(tt / 3600) and mi == math.floor((tt % 3600) / 60) and abs(sec - tt % 60.0) <= 1e-9
        near = (tt % 60.0) < 1.0 or (tt % 60.0) > 59.0
        res.case("time/seconds2hms", {"tt_seconds": tt, "dat": dat}, ok, nontrivial=near or tt >= 86400.0,
                 signature="C04/time/seconds2hms", observed=[h, mi, sec], expected=tt, item=item)
    res.observe(h, mi, sec)
    # whole-second TT (UTC instants hh:mm:ss.816 for the table's TAI offsets): fields must stay in range, and the
    # TT conversion / the reduction must accept the instant
    day = {35: date(2014, 5, 5), 36: date(2016, 5, 5), 37: date(2019, 5, 5)}.get(dat, _table_days()[0])
    day0 = float(fr.days_since_j2000(datetime(day.year, day.month, day.day)))
    for s in range(h0 * 3600, (h0 + nh) * 3600):
        tt = float(s + dat + 33)
        h, mi, sec = (float(v) for v in tconv.seconds2hms(tt))
        neg = sec < 0.0
        ok = h == math.floor(h) and mi == math.floor(mi) and 0 <= mi <= 59 and 0.0 <= sec < 60.0 and abs(h * 3600 + mi * 60 + sec - tt) <= 1e-9
        minute_edge = tt % 60.0 == 0.0
        res.case("time/seconds2hms_whole_second", {"tt_seconds": tt, "dat": dat, "neg_second": neg}, ok, nontrivial=minute_edge,
                 signature="C04/tt_negative_second/seconds2hms" if neg else "C04/time/seconds2hms/whole_second",
                 observed=[h, mi, sec], expected=[tt // 3600, (tt % 3600) // 60, tt % 60], item=item)
        if not (neg or not ok or minute_edge or tt % 60.0 in (1.0, 59.0) or s % 10 == 0 or tt >= 86399.0):
            continue  # the TT conversion is driven at every minute edge +-1 s, every 10th second and every anomaly
        t = datetime(day.year, day.month, day.day) + timedelta(seconds=s, microseconds=816000)
        try:
            tt_s, ttt = tconv.utc2TerrestrialTime(t.year, t.month, t.day, t.hour, t.minute, t.second + 0.816, dat)
            err = None
        except Exception as exc:  # noqa: BLE001
            tt_s, ttt, err = float("nan"), float("nan"), type(exc).__name__
        exp_t = (day0 + tt / 86400.0) / 36525.0  # float is ample here: 1e-12 day / 36525 = 3e-17 century
        ok = err is None and abs(float(tt_s) - tt) <= 1e-9 and abs(float(ttt) - exp_t) <= TOL_TTT
        res.case("time/utc2TerrestrialTime_whole_second_tt", {"t": _iso(t), "dat": dat, "neg_second": neg}, ok, nontrivial=minute_edge,
                 signature="C04/tt_negative_second/utc2TerrestrialTime" if (neg and err) else "C04/time/utc2TerrestrialTime/whole_second_tt",
                 observed=[float(tt_s), float(ttt), err], expected=[tt, exp_t], item=item)
        if minute_edge and fr.eop_table()[0][day]["dat"] == dat:
            try:
                rp = red.ReductionParams.build(t)
                err = None
            except Exception as exc:  # noqa: BLE001
                rp, err = None, type(exc).__name__
            ok = err is None and _maxabs(rp.rot_pnr, fr.FK5.from_table(t).pnr) <= TOL_PNR
            res.case("reduction/whole_minute_tt", {"t": _iso(t), "dat": dat, "neg_second": neg}, ok, nontrivial=True,
                     signature="C04/tt_negative_second/build" if (neg and err) else "C04/reduction/whole_minute_tt",
                     observed=err, expected="reduction parameters", item=item)
    if h0 == 0:
        for tt in (0.0, 59.999999, 60.0, 61.5, 3599.999999, 3600.0, 43200.0, 86399.0, 86399.999, 86400.0, 86460.5):
            h, mi, sec = (float(v) for v in tconv.seconds2hms(tt))
            ok = abs(h * 3600 + mi * 60 + sec - tt) <= 1e-9 and 0 <= mi <= 59 and 0.0 <= sec <= 60.0 and h == math.floor(h)
            res.case("time/seconds2hms_corners", {"tt_seconds": tt}, ok, nontrivial=True,
                     signature="C04/time/seconds2hms", observed=[h, mi, sec], expected=tt, item=item)


def _check_tt(res, sub, t: datetime, dat, item, nontrivial):
    sec = t.second + t.microsecond / 1e6
    try:
        tt_s, ttt = tconv.utc2TerrestrialTime(t.year, t.month, t.day, t.hour, t.minute, sec, dat)
        err = None
    except Exception as exc:  # noqa: BLE001
        tt_s, ttt, err = float("nan"), float("nan"), f"{type(exc).__name__}: {exc}"
    exp_s = t.hour * 3600 + t.minute * 60 + sec + dat + 32.184
    exp_t = float(fr.days_since_j2000(t, Fraction(dat) + Fraction("32.184")) / 36525)
    ok = err is None and abs(float(tt_s) - exp_s) <= 1e-9 and abs(float(ttt) - exp_t) <= TOL_TTT
    res.case(sub, {"t": _iso(t), "dat": dat}, ok, nontrivial=nontrivial, signature="C04/time/utc2TerrestrialTime",
             observed=[float(tt_s), float(ttt), err], expected=[exp_s, exp_t], item=item)
    res.observe(float(ttt))


def _run_sidereal(res, item):
    _, seed, tier = item
    # GMST: exact rational evaluation of the published polynomial at the same (float) Julian date
    years = list(range(1990, 2031, 2 if tier == "quick" else 1))
    for y in years:
        for mo, dd in ((1, 1), (2, 28), (3, 1), (6, 30), (12, 31)):
            for sec in (0, 1, 43200, 86399, (seed * 7919 + y * 31 + mo) % 86400):
                t = datetime(y, mo, dd) + timedelta(seconds=sec)
                jd = datetimeToJulianDate(t)
                got = float(tconv.greenwichMeanTime(jd))
                exp = fr.gmst_exact(Fraction(float(jd)) - Fraction(2451545))
                ok = 0.0 <= got < 2 * math.pi and abs(fr.angle_diff(got, exp)) <= TOL_GMST
                # second source: Almanac form at the civil instant (JD resolution 4e-5 s -> 3e-9 rad)
                ok2 = abs(fr.angle_diff(got, fr.gmst_almanac(t))) <= 1e-8
                res.case("time/greenwichMeanTime", {"t": _iso(t)}, ok and ok2, nontrivial=sec in (0, 86399) or y < 2000,
                         signature=f"C04/time/greenwichMeanTime/{'before_j2000' if y < 2000 else 'after_j2000'}",
                         observed=got, expected=exp, item=item)
                res.observe(got)
    # GAST(year, elapsed days, equation of equinoxes)
    for y in (1999, 2000, 2001, 2014, 2015, 2016, 2017, 2019, 2020, 2021, 2022, 2100):
        jan1 = datetime(y, 1, 1)
        for el in (0.0, 0.5, 58.999, 59.0, 59.5, 60.0, 180.25, 364.99999, 365.0, 365.99999):
            base = fr.gmst_exact(fr.days_since_j2000(jan1) + Fraction(el))
            for eq in (0.0, 8.3e-5, -7.1e-5, 6.0, -6.0):
                got = float(tconv.greenwichApparentTime(y, el, eq))
                exp = (base + eq) % (2 * math.pi)
                ok = 0.0 <= got < 2 * math.pi and abs(fr.angle_diff(got, exp)) <= TOL_GAST
                res.case("time/greenwichApparentTime", {"year": y, "elapsed_days": el, "eq_equinox": eq}, ok,
                         nontrivial=eq != 0.0 or el in (0.0, 59.0, 60.0, 365.0),
                         signature=f"C04/time/greenwichApparentTime/{'wrap' if abs(eq) > 1 else 'plain'}",
                         observed=got, expected=exp, item=item)
                res.observe(got)
    # TT at corner instants of several years (incl. TT rolling over midnight before UTC does, explicit TAI offsets)
    for y in (2014, 2016, 2017, 2020, 2021):
        for mo, dd in ((1, 1), (2, 28), (2, 29) if fr.is_leap(y) else (3, 1), (12, 31)):
            for h, mi, s, us in ((0, 0, 0, 0), (23, 58, 52, 0), (23, 58, 53, 0), (23, 59, 59, 0), (11, 59, 59, 999999), (5, 6, 52, 816000)):
                for dat in (35, 36, 37):
                    _check_tt(res, "time/utc2TerrestrialTime", datetime(y, mo, dd, h, mi, s, us), dat, item, True)


# ---------------------------------------------------------------------------------------------- every day of the table
def _step_case(res, sub, t1: datetime, dt_s: float, item, nontrivial, a1=None):
    """Rotation of the Earth-fixed frame between t1 and t1+dt_s against omega*(dt + dUT1 step from the table)."""
    t2 = t1 + timedelta(seconds=dt_s)
    tab = fr.eop_table()[0]
    if a1 is None:
        _, p1, w1 = _impl_mats(t1)
        a1 = p1 @ w1
    _, p2, w2 = _impl_mats(t2)
    a2 = p2 @ w2
    dmat = a1.T @ a2
    ang = fr.rotation_angle(dmat)
    axis_z = (dmat[1, 0] - dmat[0, 1]) / (2.0 * math.sin(ang)) if ang > 0 else 0.0
    ddut1 = tab[t2.date()]["dut1"] - tab[t1.date()]["dut1"]
    exp = fr.OMEGA_EARTH * (dt_s + ddut1)
    kind = _date_kind(t1) if t2.date() != t1.date() else "intraday"
    tol = TOL_JUMP_YEAR if kind in ("year_boundary", "leap_second") and t2.year != t1.year else TOL_JUMP
    ok = abs(ang - exp) <= tol and axis_z >= 1.0 - 1e-6
    res.case(sub, {"t1": _iso(t1), "dt": dt_s, "kind": kind}, ok, nontrivial=nontrivial,
             signature=f"C04/continuity/{kind}", observed={"angle": ang, "axis_z": axis_z},
             expected={"angle": exp, "dut1_step": ddut1}, outcome=kind, item=item)
    res.observe(ang)
    return a2


def _run_days(res, item):
    _, i0, i1 = item
    tab, order = fr.eop_table()
    for idx in range(i0, i1):
        d = order[idx]
        row = tab[d]
        # (1) loader: the row served for this calendar day is this day's row
        eop = getEarthOrientationParameters(d)
        exp = {"x_p": row["xp_as"] * fr.ARCSEC, "y_p": row["yp_as"] * fr.ARCSEC, "d_delta_psi": row["dpsi_as"] * fr.ARCSEC,
               "d_delta_eps": row["deps_as"] * fr.ARCSEC, "delta_ut1": row["dut1"], "length_of_day": row["lod"],
               "delta_atomic_time": row["dat"]}
        for name, want in exp.items():
            got = getattr(eop, name)
            ok = abs(got - want) <= 1e-14 * abs(want) if isinstance(want, float) else got == want
            res.case("eop/row_field", {"date": d.isoformat(), "field": name}, bool(ok) and eop.date == d, nontrivial=True,
                     signature=f"C04/eop/row/{name}", observed=got, expected=want, item=item)
        # (2) reduction at start and end of the day against the reference model; TT conversion
        t0 = datetime(d.year, d.month, d.day, 0, 0, 0)
        t9 = datetime(d.year, d.month, d.day, 23, 59, 59)
        a0 = a9 = None
        for t in (t0, t9):
            rp = red.ReductionParams.build(t)
            _cmp_reduction(res, "reduction", rp, fr.FK5.from_table(t), {"t": _iso(t), "kind": _date_kind(t)}, True, item)
            amat = np.asarray(rp.rot_pnr, dtype=float) @ np.asarray(rp.rot_w, dtype=float)
            if t is t0:
                a0 = amat
            else:
                a9 = amat
        for h, mi, s in ((0, 0, 0), (23, 58, 52), (23, 58, 53), (23, 59, 59)):
            _check_tt(res, "time/utc2TerrestrialTime", datetime(d.year, d.month, d.day, h, mi, s), row["dat"], item, True)
        # (3) continuity: first second of the day, and across the boundary to the next day
        _step_case(res, "continuity/first_second", t0, 1.0, item, True, a1=a0)
        if idx + 1 < len(order):
            _step_case(res, "continuity/day_boundary", t9, 1.0, item, True, a1=a9)


def _fd_velocity_case(res, t: datetime, item):
    """Velocity transport agrees with the time derivative of the position transform (central difference, +-1 s)."""
    for pos in ([7000.0, 0.0, 0.0], [0.0, 42164.0, 0.0], [3000.0, -4000.0, 5000.0]):
        x = np.array(pos + [0.0, 0.0, 0.0])
        v = np.asarray(M.eci2ecef(x, t), dtype=float)[3:]
        rp_ = np.asarray(M.eci2ecef(x, t + timedelta(seconds=1)), dtype=float)[:3]
        rm_ = np.asarray(M.eci2ecef(x, t - timedelta(seconds=1)), dtype=float)[:3]
        fd = (rp_ - rm_) / 2.0
        rad = math.sqrt(sum(c * c for c in pos))
        # truncation omega^3 r /6 = 6.5e-14*r; LOD slope not in the matrices: omega*lod/86400*r <= 2e-12*r
        tol = 2e-11 * rad + 1e-9
        res.case("eci_ecef/velocity_is_derivative", {"t": _iso(t), "pos": pos}, _maxabs(v, fd) <= tol, nontrivial=True,
                 signature="C04/eci_ecef/velocity_fd", observed=v, expected=fd, item=item)


def _run_sweep_min(res, item):
    _, iso_day, h0, nh = item
    d = date.fromisoformat(iso_day)
    base = datetime(d.year, d.month, d.day)
    for minute in range(h0 * 60, (h0 + nh) * 60):
        t1 = base + timedelta(seconds=minute * 60 + 59)  # hh:mm:59 -> next minute
        rp = red.ReductionParams.build(t1)
        _cmp_reduction(res, "reduction_sweep", rp, fr.FK5.from_table(t1), {"t": _iso(t1), "kind": "minute_end"}, True, item)
        if t1 + timedelta(seconds=1) < base + timedelta(days=1):
            _step_case(res, "continuity/minute_boundary", t1, 1.0, item, True)
        if minute % 30 == 7:
            _fd_velocity_case(res, base + timedelta(seconds=minute * 60 + 30), item)


def _run_sweep_sec(res, item):
    _, iso_day, s0, n = item
    d = date.fromisoformat(iso_day)
    base = datetime(d.year, d.month, d.day)
    tab = fr.eop_table()[0]
    a_prev, t_prev = None, None
    for s in range(s0, s0 + n):
        t1 = base + timedelta(seconds=s)
        if t1.date() not in tab or (t1 + timedelta(seconds=1)).date() not in tab:
            continue
        a1 = a_prev if t_prev == t1 else None
        nt = t1.second in (59, 0) or (t1.second + 7) % 60 in (59, 0, 1) or t1.date() != (t1 + timedelta(seconds=1)).date()
        a_prev = _step_case(res, "continuity/second_sweep", t1, 1.0, item, nt, a1=a1)
        t_prev = t1 + timedelta(seconds=1)
        if s % 20 == 3:  # sub-second instants use the microsecond field
            _step_case(res, "continuity/half_second", t1, 0.5, item, True)
            _step_case(res, "continuity/half_second", t1 + timedelta(microseconds=500000), 0.5, item, True)
            th = t1 + timedelta(microseconds=816000)
            _check_tt(res, "time/utc2TerrestrialTime", th, tab[th.date()]["dat"], item, True)
            rp = red.ReductionParams.build(th)
            _cmp_reduction(res, "reduction_sweep", rp, fr.FK5.from_table(th), {"t": _iso(th), "kind": "subsecond"}, True, item)


# ---------------------------------------------------------------------------------------------- ECI <-> ECEF
def _run_eci_ecef(res, item):
    t = _dt(item[1])
    rp, pnr, w = _impl_mats(t)
    omega = _own_omega(t)
    ref = fr.FK5.from_table(t)
    _cmp_reduction(res, "reduction", rp, ref, {"t": _iso(t), "kind": _date_kind(t)}, True, item)
    boundary = _date_kind(t) != "plain" or (t.hour, t.minute, t.second) == (23, 59, 59)
    prev = None
    for rad in RADII:
        for la in LATS:
            for lo in LONS:
                pos = _sph(rad, la, lo)
                special = abs(la) == 90.0 or la == 0.0 or lo in (0.0, 90.0, -90.0, -180.0) or abs(lo) > 179.9
                for vel in VELS:
                    x = np.array(pos + list(vel))
                    case = {"t": _iso(t), "radius": rad, "lat": la, "lon": lo, "vel": list(vel)}
                    nt = boundary or special
                    ptol = 2e-12 * rad  # ~1e4 ulp of the radius through two 3-matrix chains; defects are >= 1e-6*r
                    vtol = 1e-12 + 2e-16 * rad  # omega*r*few ulp; LOD sign defect is 1.7e-12*r*... >= 1e-8 at LEO
                    f = np.asarray(M.eci2ecef(x, t), dtype=float)
                    b = np.asarray(M.ecef2eci(f, t), dtype=float)
                    res.case("eci_ecef/roundtrip_eci", case, f.shape == (6,) and _maxabs(b[:3], x[:3]) <= ptol and _maxabs(b[3:], x[3:]) <= vtol,
                             nontrivial=nt, signature="C04/eci_ecef/roundtrip/ecef2eci(eci2ecef)", observed=b, expected=x, item=item)
                    g = np.asarray(M.ecef2eci(x, t), dtype=float)
                    h = np.asarray(M.eci2ecef(g, t), dtype=float)
                    res.case("eci_ecef/roundtrip_ecef", case, _maxabs(h[:3], x[:3]) <= ptol and _maxabs(h[3:], x[3:]) <= vtol,
                             nontrivial=nt, signature="C04/eci_ecef/roundtrip/eci2ecef(ecef2eci)", observed=h, expected=x, item=item)
                    ef = _compose_eci2ecef(x, pnr, w, omega)
                    eg = _compose_ecef2eci(x, pnr, w, omega)
                    res.case("eci_ecef/eci2ecef_reference", case, _maxabs(f[:3], ef[:3]) <= ptol and _maxabs(f[3:], ef[3:]) <= vtol,
                             nontrivial=nt, signature="C04/eci_ecef/eci2ecef/" + ("pos" if _maxabs(f[:3], ef[:3]) > ptol else "vel"),
                             observed=f, expected=ef, item=item)
                    res.case("eci_ecef/ecef2eci_reference", case, _maxabs(g[:3], eg[:3]) <= ptol and _maxabs(g[3:], eg[3:]) <= vtol,
                             nontrivial=nt, signature="C04/eci_ecef/ecef2eci/" + ("pos" if _maxabs(g[:3], eg[:3]) > ptol else "vel"),
                             observed=g, expected=eg, item=item)
                    # absolute agreement with the independent model (includes the designed 7e-10 rad sidereal slack)
                    rf = ref.eci_to_ecef(x)
                    res.case("eci_ecef/independent_model", case, _maxabs(f[:3], rf[:3]) <= 3e-9 * rad and _maxabs(f[3:], rf[3:]) <= 3e-9 * (7.5 + 7.3e-5 * rad),
                             nontrivial=nt, signature="C04/eci_ecef/independent_model", observed=f, expected=rf, item=item)
                    # rigid: lengths, and geometry relative to the previous lattice state
                    nr = float(np.linalg.norm(x[:3]))
                    ok = abs(np.linalg.norm(f[:3]) - nr) <= 1e-12 * nr and abs(np.linalg.norm(g[:3]) - nr) <= 1e-12 * nr
                    if prev is not None:
                        px, pf, pg = prev
                        d0 = float(np.linalg.norm(x[:3] - px[:3]))
                        dot0 = float(np.dot(x[:3], px[:3]))
                        ok = ok and abs(np.linalg.norm(f[:3] - pf[:3]) - d0) <= 4e-12 * rad and abs(np.linalg.norm(g[:3] - pg[:3]) - d0) <= 4e-12 * rad
                        ok = ok and abs(np.dot(f[:3], pf[:3]) - dot0) <= 1e-11 * rad * rad and abs(np.dot(g[:3], pg[:3]) - dot0) <= 1e-11 * rad * rad
                    res.case("eci_ecef/rigid", case, bool(ok), nontrivial=nt, signature="C04/eci_ecef/rigid", observed=f, item=item)
                    prev = (x, f, g)
                res.observe(f, g)
    # composites
    for la, lo, alt in ((45.0, 179.999, 0.4), (-89.999, -90.0, 0.0), (0.0, 0.0, 35786.0), (90.0, 0.0, 1.0)):
        lla = np.array([la * DEG, lo * DEG, alt])
        got = np.asarray(M.lla2eci(lla, t), dtype=float)
        exp = _compose_ecef2eci(fr.geodetic_to_ecef(*lla) + [0.0, 0.0, 0.0], pnr, w, omega)
        rad = RE + alt
        res.case("composite/lla2eci", {"t": _iso(t), "lla": list(lla)}, _maxabs(got[:3], exp[:3]) <= 2e-12 * rad and _maxabs(got[3:], exp[3:]) <= 1e-12 + 2e-16 * rad,
                 nontrivial=True, signature="C04/composite/lla2eci", observed=got, expected=exp, item=item)
        back = np.asarray(M.eci2lla(got, t), dtype=float)
        ok = abs(back[0] - lla[0]) <= TOL_LAT and abs(back[2] - alt) <= REL_GEO * rad
        if abs(la) != 90.0:
            ok = ok and abs(fr.angle_diff(back[1], lla[1])) <= 1e-9
        else:
            res.either_way += 1
        res.case("composite/eci2lla", {"t": _iso(t), "lla": list(lla)}, bool(ok), nontrivial=True,
                 signature="C04/composite/eci2lla", observed=back, expected=lla, item=item)
    # TEME -> ECEF (GMST of the UTC Julian date, polar motion): own composition, 1e-8 rad for the float JD
    gm = fr.gmst_exact(fr.days_since_j2000(t))
    r3 = fr.rot_axis(2, gm)
    for x in ([7000.0, 0.0, 0.0, 0.0, 7.5, 0.0], [0.0, 0.0, 42164.0, 3.0, 0.0, 0.0], [-3000.0, 4000.0, -5000.0, 1.1, -6.9, 2.3]):
        x = np.array(x)
        got = np.asarray(M.teme2ecef(x, t), dtype=float)
        r_pef = r3 @ x[:3]
        v_pef = r3 @ x[3:] - np.array(fr.cross(omega, r_pef))
        exp = np.concatenate((w.T @ r_pef, w.T @ v_pef))
        nr = float(np.linalg.norm(x[:3]))
        ok = got.shape == (6,) and _maxabs(got[:3], exp[:3]) <= 1e-8 * nr and _maxabs(got[3:], exp[3:]) <= 1e-8 * 8.0
        ok = ok and abs(np.linalg.norm(got[:3]) - nr) <= 1e-12 * nr
        res.case("teme2ecef", {"t": _iso(t), "x": list(x)}, bool(ok), nontrivial=boundary, signature="C04/teme2ecef",
                 observed=got, expected=exp, item=item)


# ---------------------------------------------------------------------------------------------- geodetic
def _run_geodetic(res, item):
    _, seed, tier, part = item
    alts = [0.0, 0.4, 7000.0 - RE, 42164.0 - RE, 9 * RE]
    pts = []
    if part == 0:
        for la in LATS + [30.0, -60.0, 1e-3, -1e-3, 89.0, -89.0]:
            for lo in LONS + [180.0, -179.999, 45.0, -135.0, 1e-9]:
                pts.append((la, lo, True))
    else:
        ph = (seed * 0.37) % 1.0
        nla, nlo = (24, 16) if tier == "quick" else (90, 48)
        for i in range(nla):
            la = -89.5 + (i + ph) * 179.0 / nla
            for j in range(nlo):
                pts.append((la, -180.0 + (j + ph) * 360.0 / nlo, False))
    for la, lo, corner in pts:
        for alt in alts:
            lat, lon = la * DEG, lo * DEG
            case = {"lat": la, "lon": lo, "alt": alt}
            special = corner and (abs(la) >= 89.0 or abs(la) <= 1e-3 or lo in (0.0, 90.0, -90.0, 180.0, -180.0) or abs(lo) > 179.9)
            exp = fr.geodetic_to_ecef(lat, lon, alt)
            rad = math.sqrt(sum(c * c for c in exp))
            got = np.asarray(M.lla2ecef(np.array([lat, lon, alt])), dtype=float)
            res.case("geodetic/lla2ecef_definition", case, got.shape == (6,) and _maxabs(got[:3], exp) <= 4e-16 * rad * 4 and _maxabs(got[3:], [0, 0, 0]) == 0.0,
                     nontrivial=special, signature="C04/geodetic/lla2ecef", observed=got, expected=exp, item=item)
            out = np.asarray(M.ecef2lla(np.array(exp + [0.0, 0.0, 0.0])), dtype=float)
            hemi = "north" if la > 0 else ("south" if la < 0 else "equator")
            ok = _finite(out) and out.shape == (3,) and abs(out[0] - lat) <= TOL_LAT and abs(out[2] - alt) <= REL_GEO * rad
            polar = abs(la) == 90.0
            if polar:
                res.either_way += 1  # longitude is undefined at the poles
            else:
                ok = ok and abs(fr.angle_diff(out[1], lon)) <= 1e-12 and -math.pi <= out[1] <= math.pi
            res.case("geodetic/ecef2lla_inverse", case, bool(ok), nontrivial=special, signature=f"C04/geodetic/ecef2lla/{hemi}/inverse",
                     observed=out, expected=[lat, lon, alt], item=item)
            # the returned triple satisfies the ellipsoid definition (own N(phi))
            back = fr.geodetic_to_ecef(float(out[0]), float(out[1]), float(out[2])) if _finite(out) else [float("nan")] * 3
            okc = _finite(back) and (_maxabs(back, exp) <= REL_GEO * rad if not polar else abs(back[2] - exp[2]) <= REL_GEO * rad and math.hypot(back[0], back[1]) <= 1e-9 * rad)
            res.case("geodetic/ecef2lla_ellipsoid_definition", case, bool(okc), nontrivial=special,
                     signature=f"C04/geodetic/ecef2lla/{hemi}/definition", observed=back, expected=exp, item=item)
            rt = np.asarray(M.lla2ecef(out), dtype=float) if _finite(out) else np.full(6, np.nan)
            res.case("geodetic/roundtrip", case, _finite(rt) and _maxabs(rt[:3], exp) <= REL_GEO * rad + (1e-9 * rad if polar else 0.0), nontrivial=special,
                     signature=f"C04/geodetic/roundtrip/{hemi}", observed=rt, expected=exp, item=item)
            res.observe(out)
        if alts:
            # geocentric <-> geodetic latitude of the surface point
            lat = la * DEG
            surf = fr.geodetic_to_ecef(lat, 0.3, 0.0)
            gc = math.atan2(surf[2], math.hypot(surf[0], surf[1]))
            g1 = float(M.geodetic2geocentric(lat))
            g2 = float(M.geocentric2geodetic(gc))
            tol = 1e-12 if abs(la) < 89.9 else 1e-9  # tan() conditioning near the pole
            res.case("geodetic/geodetic2geocentric", {"lat": la}, abs(g1 - gc) <= tol, nontrivial=la != 0.0,
                     signature="C04/geodetic/geodetic2geocentric", observed=g1, expected=gc, item=item)
            res.case("geodetic/geocentric2geodetic", {"lat": la}, abs(g2 - lat) <= tol, nontrivial=la != 0.0,
                     signature="C04/geodetic/geocentric2geodetic", observed=g2, expected=lat, item=item)
    if part == 0:
        b = RE * math.sqrt(1.0 - fr.ECC_EARTH**2)
        for r in RADII + [b, b + 0.4]:
            for sgn in (1.0, -1.0):
                out = np.asarray(M.ecef2lla(np.array([0.0, 0.0, sgn * r, 0.0, 0.0, 0.0])), dtype=float)
                ok = _finite(out) and abs(out[0] - sgn * math.pi / 2) <= 1e-9 and abs(out[2] - (r - b)) <= REL_GEO * r
                res.either_way += 1
                res.case("geodetic/ecef2lla_on_axis", {"z": sgn * r}, bool(ok), nontrivial=True,
                         signature=f"C04/geodetic/ecef2lla/{'north' if sgn > 0 else 'south'}/on_axis", observed=out,
                         expected=[sgn * math.pi / 2, None, r - b], item=item)
            for lo in (0.0, 90.0, 180.0, -90.0, 135.0):  # exactly in the equatorial plane (r_k == 0 branch)
                p = [r * math.cos(lo * DEG), r * math.sin(lo * DEG), 0.0]
                out = np.asarray(M.ecef2lla(np.array(p + [0.0, 0.0, 0.0])), dtype=float)
                ok = _finite(out) and abs(out[0]) <= TOL_LAT and abs(out[2] - (r - RE)) <= REL_GEO * r and abs(fr.angle_diff(out[1], lo * DEG)) <= 1e-12
                res.case("geodetic/ecef2lla_equatorial_plane", {"r": r, "lon": lo}, bool(ok), nontrivial=True,
                         signature="C04/geodetic/ecef2lla/equator/plane", observed=out, expected=[0.0, lo * DEG, r - RE], item=item)


# ---------------------------------------------------------------------------------------------- SEZ
SEZ_VECS = [(1000.0, 0, 0), (-1000.0, 0, 0), (0, 1000.0, 0), (0, -1000.0, 0), (0, 0, 1000.0), (0, 0, -1000.0),
            (300.0, -700.0, 200.0), (-12000.0, 25000.0, 31000.0)]
SEZ_VELS = [(0.0, 0.0, 0.0), (1.0, -2.0, 3.0)]


def _run_sez(res, item):
    _, seed, tier = item
    sites = _sites("thorough", seed)
    dates = [CORNER_DATES[7], CORNER_DATES[10]] + ([CORNER_DATES[0], CORNER_DATES[3]] if tier == "thorough" else [])
    mats = {t: (_impl_mats(t), _own_omega(t)) for t in dates}
    b_pol = RE * math.sqrt(1.0 - fr.ECC_EARTH**2)
    for la, lo in sites:
        lat, lon = la * DEG, lo * DEG
        special = abs(la) == 90.0 or la == 0.0 or lo in (0.0, 90.0, -90.0, -180.0) or abs(lo) > 179.9
        # zenith axis = outward normal of the reference ellipsoid at the site
        zen = np.asarray(M.sez2ecef(np.array([0, 0, 1.0, 0, 0, 0]), lat, lon), dtype=float)[:3]
        surf = fr.geodetic_to_ecef(lat, lon, 0.0)
        grad = fr.unit([surf[0] / RE**2, surf[1] / RE**2, surf[2] / b_pol**2])
        res.case("sez/zenith_is_ellipsoid_normal", {"lat": la, "lon": lo}, _maxabs(zen, grad) <= 1e-12 and _maxabs(zen, fr.ellipsoid_normal(lat, lon)) <= 1e-15,
                 nontrivial=special, signature="C04/sez/zenith_normal", observed=zen, expected=grad, item=item)
        for p in SEZ_VECS:
            for v in SEZ_VELS:
                x = np.array(list(p) + list(v), dtype=float)
                case = {"lat": la, "lon": lo, "x": list(x)}
                scale = float(np.linalg.norm(x[:3]))
                e1 = np.asarray(M.sez2ecef(x, lat, lon), dtype=float)
                exp1 = fr.sez_to_ecef(x[:3], lat, lon) + fr.sez_to_ecef(x[3:], lat, lon)
                res.case("sez/sez2ecef_reference", case, e1.shape == (6,) and _maxabs(e1[:3], exp1[:3]) <= 1e-14 * scale and _maxabs(e1[3:], exp1[3:]) <= 1e-14 * 4,
                         nontrivial=special, signature="C04/sez/sez2ecef", observed=e1, expected=exp1, item=item)
                e2 = np.asarray(M.ecef2sez(x, lat, lon), dtype=float)
                exp2 = fr.ecef_to_sez(x[:3], lat, lon) + fr.ecef_to_sez(x[3:], lat, lon)
                res.case("sez/ecef2sez_reference", case, e2.shape == (6,) and _maxabs(e2[:3], exp2[:3]) <= 1e-14 * scale and _maxabs(e2[3:], exp2[3:]) <= 1e-14 * 4,
                         nontrivial=special, signature="C04/sez/ecef2sez", observed=e2, expected=exp2, item=item)
                rt1 = np.asarray(M.ecef2sez(e1, lat, lon), dtype=float)
                rt2 = np.asarray(M.sez2ecef(e2, lat, lon), dtype=float)
                ok = _maxabs(rt1[:3], x[:3]) <= 1e-14 * scale and _maxabs(rt2[:3], x[:3]) <= 1e-14 * scale and _maxabs(rt1[3:], x[3:]) <= 1e-14 * 4 and _maxabs(rt2[3:], x[3:]) <= 1e-14 * 4
                ok = ok and abs(np.linalg.norm(e1[:3]) - scale) <= 1e-14 * scale and abs(np.linalg.norm(e2[:3]) - scale) <= 1e-14 * scale
                res.case("sez/roundtrip_rigid", case, bool(ok), nontrivial=special, signature="C04/sez/roundtrip", observed=rt1, expected=x, item=item)
                res.observe(e1, e2)
        # ECI variants (relative vectors carried through the full state transform, as the implementation documents)
        for t, ((rp, pnr, w), omega) in mats.items():
            for p, v in ((SEZ_VECS[6], SEZ_VELS[1]), (SEZ_VECS[4], SEZ_VELS[0]), (SEZ_VECS[7], SEZ_VELS[1])):
                x = np.array(list(p) + list(v), dtype=float)
                case = {"lat": la, "lon": lo, "x": list(x), "t": _iso(t)}
                scale = float(np.linalg.norm(x[:3]))
                got = np.asarray(M.sez2eci(x, lat, lon, t), dtype=float)
                exp = _compose_ecef2eci(fr.sez_to_ecef(x[:3], lat, lon) + fr.sez_to_ecef(x[3:], lat, lon), pnr, w, omega)
                res.case("sez/sez2eci_reference", case, _maxabs(got[:3], exp[:3]) <= 4e-12 * scale and _maxabs(got[3:], exp[3:]) <= 1e-12 + 1e-15 * scale,
                         nontrivial=True, signature="C04/sez/sez2eci", observed=got, expected=exp, item=item)
                e = _compose_eci2ecef(x, pnr, w, omega)
                exp2 = fr.ecef_to_sez(e[:3], lat, lon) + fr.ecef_to_sez(e[3:], lat, lon)
                got2 = np.asarray(M.eci2sez(x, lat, lon, t), dtype=float)
                res.case("sez/eci2sez_reference", case, _maxabs(got2[:3], exp2[:3]) <= 4e-12 * scale and _maxabs(got2[3:], exp2[3:]) <= 1e-12 + 1e-15 * scale,
                         nontrivial=True, signature="C04/sez/eci2sez", observed=got2, expected=exp2, item=item)
                back = np.asarray(M.eci2sez(got, lat, lon, t), dtype=float)
                res.case("sez/eci_roundtrip", case, _maxabs(back[:3], x[:3]) <= 4e-12 * scale and _maxabs(back[3:], x[3:]) <= 1e-12 + 1e-15 * scale
                         and abs(np.linalg.norm(got[:3]) - scale) <= 1e-12 * scale,
                         nontrivial=True, signature="C04/sez/eci_roundtrip", observed=back, expected=x, item=item)


# ---------------------------------------------------------------------------------------------- az/el <-> ra/dec
ELS = [-5.0, 0.0, 30.0, 89.999]
AZS = [0.0, 90.0, 180.0, 270.0, 359.9999, 45.0]
RNGS = [500.0, 40000.0]
RATES = [(0.0, 0.0, 0.0), (1.5, 1e-3, -2e-3), (-0.7, -5e-4, 1e-4)]


def _angle_ok(a, b, tol):
    return abs(fr.angle_diff(float(a), float(b))) <= tol


def _cmp_polar(got, exp, rng_tol, ang_tol, rate_tol, angrate_tol, skip_ang2=False):
    """(rng, ang1, ang2, rng_rate, ang1_rate, ang2_rate) comparison; ang2 in [0, 2pi).

    Error model: a direction error eps (<= ang_tol) of the relative vector shows as eps in ang1, eps/cos(ang1) in
    ang2, eps*w/cos in ang1_rate and eps*w/cos^2 in ang2_rate, w = |relative velocity|/range (conditioning of the
    spherical angles near their pole; well-conditioned cases keep the base tolerances).  ang1 is produced by
    arcsin(z/rng) (Vallado alg. 27), whose rounding is amplified by 1/cos(ang1): + 2e-15/cos.
    """
    got = [float(v) for v in got]
    exp = [float(v) for v in exp]
    c = max(math.cos(exp[1]), 1e-6)
    wrate = math.sqrt(exp[4] ** 2 + (exp[5] * c) ** 2 + (exp[3] / exp[0]) ** 2)
    ok = len(got) == 6 and all(math.isfinite(v) for v in got)
    ok = ok and abs(got[0] - exp[0]) <= rng_tol and abs(got[1] - exp[1]) <= ang_tol + 2e-15 / c and abs(got[3] - exp[3]) <= rate_tol
    ok = ok and abs(got[4] - exp[4]) <= angrate_tol + ang_tol * wrate / c
    if not skip_ang2:
        ok = ok and _angle_ok(got[2], exp[2], ang_tol / c) and 0.0 <= got[2] < 2 * math.pi + 1e-15
        ok = ok and abs(got[5] - exp[5]) <= angrate_tol / c + ang_tol * wrate / (c * c)
    return bool(ok)


def _run_razel(res, item):
    _, iso, sites, seed = item
    t = _dt(iso)
    rp, pnr, w = _impl_mats(t)
    omega = _own_omega(t)
    azs = AZS + [(seed * 53.7 + 11.0) % 360.0]
    for la, lo in sites:
        lat, lon = la * DEG, lo * DEG
        obs_ecef = fr.geodetic_to_ecef(lat, lon, 0.1) + [0.0, 0.0, 0.0]
        obs_eci = _compose_ecef2eci(obs_ecef, pnr, w, omega)
        site_special = abs(la) == 90.0 or la == 0.0 or lo in (0.0, 90.0, -90.0, -180.0) or abs(lo) > 179.9
        # at the exact pole the recovered site longitude is arbitrary, hence the SEZ azimuth origin: either-way
        polar_site = abs(la) == 90.0
        for el_d in ELS:
            for az_d in azs:
                for rng in RNGS:
                    for rr, er, ar in RATES:
                        el, az = el_d * DEG, az_d * DEG
                        case = {"t": iso, "lat": la, "lon": lo, "el": el_d, "az": az_d, "rng": rng, "rates": [rr, er, ar]}
                        nt = site_special or az_d in (0.0, 90.0, 180.0, 270.0, 359.9999) or el_d in (0.0, 89.999)
                        sez = fr.razel_to_sez(rng, el, az, rr, er, ar)
                        got_sez = np.asarray(M.razel2sez(rng, el, az, rr, er, ar), dtype=float)
                        res.case("razel/razel2sez_reference", case, got_sez.shape == (6,) and _maxabs(got_sez[:3], sez[:3]) <= 1e-13 * rng and _maxabs(got_sez[3:], sez[3:]) <= 1e-13 * (2 + rng * 3e-3),
                                 nontrivial=nt, signature="C04/razel/razel2sez", observed=got_sez, expected=sez, item=item)
                        # amplification near the zenith: azimuth error = position rounding / (rng cos el)
                        atol = 1e-13  # direction rounding of the SEZ vector; scaled by 1/cos(el) inside _cmp_polar
                        back = M.sez2razel(np.array(sez))
                        res.case("razel/sez2razel_inverse", case, _cmp_polar(back, (rng, el, az % (2 * math.pi), rr, er, ar), 1e-12 * rng, atol, 1e-12 * (2 + rng * 3e-3), atol),
                                 nontrivial=nt, signature="C04/razel/sez2razel", observed=[float(v) for v in back], expected=[rng, el, az, rr, er, ar], item=item)
                        if polar_site:
                            res.either_way += 1
                            continue
                        # own chain: site SEZ -> ECEF -> ECI (state transport), relative to the observer
                        d_ecef = fr.sez_to_ecef(sez[:3], lat, lon) + fr.sez_to_ecef(sez[3:], lat, lon)
                        tgt_ecef = [a + b for a, b in zip(obs_ecef, d_ecef)]
                        tgt_eci = _compose_ecef2eci(tgt_ecef, pnr, w, omega)
                        rel = tgt_eci - obs_eci
                        exp = fr.polar_from_cartesian(rel)
                        # recovered site latitude carries <= 1e-10 rad (ecef2lla rounding): angles to 2e-9, range rigid
                        got = M.razel2radec(rng, el, az, rr, er, ar, obs_eci, t)
                        res.case("razel/razel2radec_reference", case, _cmp_polar(got, exp, 1e-8, 2e-9, 1e-9, 1e-11),
                                 nontrivial=nt, signature="C04/razel/razel2radec", observed=[float(v) for v in got], expected=list(exp), item=item)
                        rt = M.radec2razel(*[float(v) for v in got], obs_eci, t)
                        res.case("razel/radec2razel_inverse", case, _cmp_polar(rt, (rng, el, az % (2 * math.pi), rr, er, ar), 1e-8, 2e-9, 1e-9, 1e-11),
                                 nontrivial=nt, signature="C04/razel/radec2razel", observed=[float(v) for v in rt], expected=[rng, el, az, rr, er, ar], item=item)
                        if rr == 1.5:
                            g2 = M.eci2razel(tgt_eci, obs_eci, t)
                            res.case("razel/eci2razel", case, _cmp_polar(g2, (rng, el, az % (2 * math.pi), rr, er, ar), 1e-8, 2e-9, 1e-9, 1e-11),
                                     nontrivial=nt, signature="C04/razel/eci2razel", observed=[float(v) for v in g2], expected=[rng, el, az, rr, er, ar], item=item)
                            g3 = M.eci2radec(tgt_eci, obs_eci, t)
                            res.case("razel/eci2radec", case, _cmp_polar(g3, exp, 1e-8, 2e-9, 1e-9, 1e-11),
                                     nontrivial=nt, signature="C04/razel/eci2radec", observed=[float(v) for v in g3], expected=list(exp), item=item)
                            g4 = np.asarray(M.getSlantRangeVector(obs_eci, tgt_eci, t), dtype=float)
                            res.case("razel/getSlantRangeVector", case, _maxabs(g4[:3], sez[:3]) <= 1e-8 + 2e-9 * rng and _maxabs(g4[3:], sez[3:]) <= 1e-9 + 2e-9 * (2 + rng * 3e-3),
                                     nontrivial=nt, signature="C04/razel/getSlantRangeVector", observed=g4, expected=sez, item=item)
                            if t.microsecond == 0:
                                ob = SimpleNamespace(range_km=rng, elevation_rad=el, azimuth_rad=az, julian_date=float(datetimeToJulianDate(t)), sensor_eci=obs_eci)
                                g5 = np.asarray(M.radarObs2eciPosition(ob), dtype=float)
                                res.case("razel/radarObs2eciPosition", case, g5.shape == (3,) and _maxabs(g5, tgt_eci[:3]) <= 1e-8 + 2e-9 * rng,
                                         nontrivial=nt, signature="C04/razel/radarObs2eciPosition", observed=g5, expected=tgt_eci[:3], item=item)
                        res.observe(np.array([float(v) for v in got]))


# ------------------------------------------------------------------- az/el <-> ra/dec for observers that MOVE in ECEF
# Every function of transforms/methods.py that takes an observer *state* (razel2radec, radec2razel, eci2razel, eci2radec,
# getSlantRangeVector, radarObs2eciPosition; eci2sez/sez2eci at the observer's sub-point with full states) is driven
# with observers whose Earth-fixed velocity is not zero: satellites on circular and eccentric orbits carrying their
# true inertial velocity, and surface/air movers defined by an ECEF velocity.  The ground-site lattice above has
# observer ECEF velocity == 0 identically, so a dropped / mis-transported observer velocity is invisible there.
MU_EARTH = 398600.4415
ORB_RADII = [RE + 400.0, 7500.0, 26560.0, 42164.0, 10 * RE]
ORB_INCS = [0.0, 28.5, 63.4, 90.0, 98.7, 180.0]
ORB_ARGLATS = [0.0, 90.0, 200.0]  # third one is shifted by the seed phase
ORB_ECC_SHAPE = (1.25, 20.0)  # speed / circular speed, flight-path angle (deg): outbound leg of an eccentric orbit
MOVERS = [  # geodetic lat, lon (deg), altitude (km), Earth-fixed velocity (km/s): aircraft / ship / sounding rocket
    (45.0, 179.999, 11.0, 0.20, -0.10, 0.05),
    (-33.4, 149.1, 0.02, -0.008, 0.012, 0.0),
    (0.0, -90.0, 120.0, 0.5, 0.5, 2.0),
]
ELS_SPACE = [-60.0, -5.0, 0.0, 30.0, 89.999]
AZS_MOVING = [0.0, 90.0, 270.0, 359.9999]  # + one seed azimuth; the azimuth seams themselves are the ground lattice's job
TARGETS_ECI = [  # fixed inertial target states, the other construction direction (ECI -> own ECEF -> own SEZ)
    ("near_geo", [-21000.0, 36000.0, 4500.0, -2.6, -1.55, 0.3]),
    ("leo", [6800.0, 1200.0, -900.0, -1.9, 7.1, 2.8]),
    ("meo_retro", [3000.0, -20000.0, 17000.0, -3.1, -1.9, -1.7]),
]


def _observers(tier, seed):
    """Observer specs (plain lists): every radius x inclination x argument of latitude, one eccentric leg per
    radius x inclination, and the surface/air movers."""
    ph = (seed * 37) % 89
    out = []
    k = 0
    for rad in ORB_RADII:
        for inc in ORB_INCS:
            for j, u0 in enumerate(ORB_ARGLATS):
                u = u0 + (ph * 1.3 if j == 2 else 0.0)
                out.append(["orbit", rad, inc, float((k * 67 + ph) % 360), u, 1.0, 0.0])
                k += 1
            out.append(["orbit", rad, inc, float((k * 67 + ph) % 360), 310.0 - ph * 0.7, ORB_ECC_SHAPE[0], ORB_ECC_SHAPE[1]])
            k += 1
    out += [["mover", *m] for m in MOVERS]
    return out


def _observer_state(spec, pnr, w, omega):
    """(eci state, ecef state) of an observer spec by own formulae / own composition."""
    if spec[0] == "orbit":
        _, rad, inc_d, raan_d, u_d, kfac, fpa_d = spec
        inc, raan, u, fpa = inc_d * DEG, raan_d * DEG, u_d * DEG, fpa_d * DEG
        nhat = np.array([math.cos(raan), math.sin(raan), 0.0])  # ascending node
        mhat = np.array([-math.cos(inc) * math.sin(raan), math.cos(inc) * math.cos(raan), math.sin(inc)])  # 90 deg ahead
        rhat = math.cos(u) * nhat + math.sin(u) * mhat
        that = -math.sin(u) * nhat + math.cos(u) * mhat
        speed = kfac * math.sqrt(MU_EARTH / rad)
        eci = np.concatenate((rad * rhat, speed * (math.cos(fpa) * that + math.sin(fpa) * rhat)))
        return eci, _compose_eci2ecef(eci, pnr, w, omega)
    _, la, lo, alt, vx, vy, vz = spec
    ecef = np.array(fr.geodetic_to_ecef(la * DEG, lo * DEG, alt) + [vx, vy, vz], dtype=float)
    return _compose_ecef2eci(ecef, pnr, w, omega), ecef


def _flip_s(sez):
    """SEZ -> (north, east, zenith): the frame in which azimuth is the ordinary atan2 angle."""
    return [-sez[0], sez[1], sez[2], -sez[3], sez[4], sez[5]]


def _mid_slack(mid):
    """Extra (angle, angular-rate) allowance for a result the implementation routes through an intermediate spherical
    six-tuple `mid` (razel2radec -> radec2razel, eci2razel -> razel2radec).

    cartesian2spherical forms ang1 = arcsin(z/rho): rounding of z/rho (1.1e-16) is amplified by 1/cos(ang1) ->
    d = 2e-15/cos(ang1_mid) (same allowance as in _cmp_polar).  spherical2cartesian then turns d into a direction error d
    and a velocity error rho*d*(|rho_dot|/rho + |ang1_rate| + |ang2_rate|) (derivative of its velocity rows with respect
    to ang1); ang2_rate_mid = transverse rate / cos(ang1_mid) is large near the pole of the intermediate angles.
    Negligible (<= 1e-17) away from that pole; measured 1.7e-11 rad/s at cos = 5e-5 where this bound gives 1e-9.
    The defects this lattice is for (observer velocity dropped) are >= 2.5e-7 rad/s and >= 1e-2 km/s in range-rate.
    """
    mid = [float(v) for v in mid]
    d = 2e-15 / max(math.cos(mid[1]), 1e-6)
    return d, d * (abs(mid[3]) / mid[0] + abs(mid[4]) + abs(mid[5]))


def _run_razel_moving(res, item):
    _, iso, observers, seed = item
    t = _dt(iso)
    rp, pnr, w = _impl_mats(t)
    omega = _own_omega(t)
    azs = AZS_MOVING + [(seed * 53.7 + 11.0) % 360.0]
    jd = float(datetimeToJulianDate(t))
    for spec in observers:
        spec = list(spec)
        kind = "orbit" if spec[0] == "orbit" else "surface_mover"
        obs_eci, obs_ecef = _observer_state(spec, pnr, w, omega)
        lat, lon, _alt = fr.ecef_to_geodetic_iter(*[float(v) for v in obs_ecef[:3]])
        ecef_speed = float(np.linalg.norm(obs_ecef[3:]))
        # the mechanism: the observer's Earth-fixed velocity enters every rate term
        moving = ecef_speed >= 0.01
        rad = float(np.linalg.norm(obs_eci[:3]))

        def sig(fn, kind=kind):
            return f"C04/razel_moving/{fn}/{kind}"

        # tolerances as in the ground-site lattice (recovered sub-point latitude <= 1.4e-10 rad at 10 Earth radii:
        # angles to 2e-9; range rigid: 1e-8 km + 1e-12 relative for the subtraction of 6e4-km positions; rates: the
        # observer velocity (<= 11 km/s) cancels to rounding 1e-14, range-rate is rotation invariant: 1e-9 km/s).
        # The seeded class (observer ECEF velocity dropped / not transported) shows as >= 1e-2 km/s in the rates.
        rtol_pos = 1e-8 + 1e-12 * rad
        for el_d in ELS_SPACE:
            for az_d in azs:
                for rng in RNGS:
                    for rr, er, ar in RATES:
                        el, az = el_d * DEG, az_d * DEG
                        case = {"t": iso, "observer": spec, "el": el_d, "az": az_d, "rng": rng, "rates": [rr, er, ar]}
                        razel = (rng, el, az % (2 * math.pi), rr, er, ar)
                        sez = fr.razel_to_sez(rng, el, az, rr, er, ar)
                        d_ecef = fr.sez_to_ecef(sez[:3], lat, lon) + fr.sez_to_ecef(sez[3:], lat, lon)
                        tgt_ecef = obs_ecef + np.array(d_ecef)
                        tgt_eci = _compose_ecef2eci(tgt_ecef, pnr, w, omega)
                        exp = fr.polar_from_cartesian(tgt_eci - obs_eci)
                        got = M.razel2radec(rng, el, az, rr, er, ar, obs_eci, t)
                        res.case("razel_moving/razel2radec_reference", case, _cmp_polar(got, exp, rtol_pos, 2e-9, 1e-9, 1e-11),
                                 nontrivial=moving, signature=sig("razel2radec"), observed=[float(v) for v in got], expected=list(exp), item=item)
                        rt = M.radec2razel(*[float(v) for v in got], obs_eci, t)
                        da, dr = _mid_slack(exp)
                        res.case("razel_moving/radec2razel_inverse", case, _cmp_polar(rt, razel, rtol_pos, 2e-9 + da, 1e-9, 1e-11 + dr),
                                 nontrivial=moving, signature=sig("radec2razel_inverse"), observed=[float(v) for v in rt], expected=list(razel), item=item)
                        g1 = M.radec2razel(*exp, obs_eci, t)
                        res.case("razel_moving/radec2razel_reference", case, _cmp_polar(g1, razel, rtol_pos, 2e-9, 1e-9, 1e-11),
                                 nontrivial=moving, signature=sig("radec2razel"), observed=[float(v) for v in g1], expected=list(razel), item=item)
                        g2 = M.eci2razel(tgt_eci, obs_eci, t)
                        res.case("razel_moving/eci2razel", case, _cmp_polar(g2, razel, rtol_pos, 2e-9, 1e-9, 1e-11),
                                 nontrivial=moving, signature=sig("eci2razel"), observed=[float(v) for v in g2], expected=list(razel), item=item)
                        g3 = M.eci2radec(tgt_eci, obs_eci, t)
                        da, dr = _mid_slack(razel)
                        res.case("razel_moving/eci2radec", case, _cmp_polar(g3, exp, rtol_pos, 2e-9 + da, 1e-9, 1e-11 + dr),
                                 nontrivial=moving, signature=sig("eci2radec"), observed=[float(v) for v in g3], expected=list(exp), item=item)
                        g4 = np.asarray(M.getSlantRangeVector(obs_eci, tgt_eci, t), dtype=float)
                        res.case("razel_moving/getSlantRangeVector", case, g4.shape == (6,) and _maxabs(g4[:3], sez[:3]) <= rtol_pos + 2e-9 * rng and _maxabs(g4[3:], sez[3:]) <= 1e-9 + 2e-9 * (2 + rng * 3e-3),
                                 nontrivial=moving, signature=sig("getSlantRangeVector"), observed=g4, expected=sez, item=item)
                        if rr == 1.5:
                            # full states through eci2sez / sez2eci at the observer's sub-point (own lat/lon: exact inputs)
                            full_sez = fr.ecef_to_sez(list(tgt_ecef[:3]), lat, lon) + fr.ecef_to_sez(list(tgt_ecef[3:]), lat, lon)
                            scale = float(np.linalg.norm(tgt_ecef[:3]))
                            g6 = np.asarray(M.eci2sez(tgt_eci, lat, lon, t), dtype=float)
                            res.case("razel_moving/eci2sez_full_state", case, g6.shape == (6,) and _maxabs(g6[:3], full_sez[:3]) <= 4e-12 * scale and _maxabs(g6[3:], full_sez[3:]) <= 1e-12 + 1e-15 * scale,
                                     nontrivial=moving, signature=sig("eci2sez"), observed=g6, expected=full_sez, item=item)
                            g7 = np.asarray(M.sez2eci(np.array(full_sez), lat, lon, t), dtype=float)
                            res.case("razel_moving/sez2eci_full_state", case, g7.shape == (6,) and _maxabs(g7[:3], tgt_eci[:3]) <= 4e-12 * scale and _maxabs(g7[3:], tgt_eci[3:]) <= 1e-12 + 1e-15 * scale,
                                     nontrivial=moving, signature=sig("sez2eci"), observed=g7, expected=tgt_eci, item=item)
                            if t.microsecond == 0:
                                ob = SimpleNamespace(range_km=rng, elevation_rad=el, azimuth_rad=az, julian_date=jd, sensor_eci=obs_eci)
                                g5 = np.asarray(M.radarObs2eciPosition(ob), dtype=float)
                                res.case("razel_moving/radarObs2eciPosition", case, g5.shape == (3,) and _maxabs(g5, tgt_eci[:3]) <= rtol_pos + 2e-9 * rng,
                                         nontrivial=moving, signature=sig("radarObs2eciPosition"), observed=g5, expected=tgt_eci[:3], item=item)
                res.observe(np.array([float(v) for v in got]), g4)
        # the other construction direction: inertial target states -> own ECEF -> own SEZ at the own sub-point
        for name, tgt in TARGETS_ECI:
            tgt = np.array(tgt, dtype=float)
            case = {"t": iso, "observer": spec, "target": name}
            rel_ecef = _compose_eci2ecef(tgt, pnr, w, omega) - obs_ecef
            sez = fr.ecef_to_sez(list(rel_ecef[:3]), lat, lon) + fr.ecef_to_sez(list(rel_ecef[3:]), lat, lon)
            razel = fr.polar_from_cartesian(_flip_s(sez))
            radec = fr.polar_from_cartesian(tgt - obs_eci)
            rng = razel[0]
            ptol = 1e-8 + 1e-12 * (rad + float(np.linalg.norm(tgt[:3])))
            g = M.eci2razel(tgt, obs_eci, t)
            res.case("razel_moving/target_eci/eci2razel", case, _cmp_polar(g, razel, ptol, 2e-9, 1e-9, 1e-11), nontrivial=moving,
                     signature=sig("target_eci/eci2razel"), observed=[float(v) for v in g], expected=list(razel), item=item)
            g = M.eci2radec(tgt, obs_eci, t)
            da, dr = _mid_slack(razel)
            res.case("razel_moving/target_eci/eci2radec", case, _cmp_polar(g, radec, ptol, 2e-9 + da, 1e-9, 1e-11 + dr), nontrivial=moving,
                     signature=sig("target_eci/eci2radec"), observed=[float(v) for v in g], expected=list(radec), item=item)
            g = M.razel2radec(*razel, obs_eci, t)
            res.case("razel_moving/target_eci/razel2radec", case, _cmp_polar(g, radec, ptol, 2e-9, 1e-9, 1e-11), nontrivial=moving,
                     signature=sig("target_eci/razel2radec"), observed=[float(v) for v in g], expected=list(radec), item=item)
            g = M.radec2razel(*radec, obs_eci, t)
            res.case("razel_moving/target_eci/radec2razel", case, _cmp_polar(g, razel, ptol, 2e-9, 1e-9, 1e-11), nontrivial=moving,
                     signature=sig("target_eci/radec2razel"), observed=[float(v) for v in g], expected=list(razel), item=item)
            g = np.asarray(M.getSlantRangeVector(obs_eci, tgt, t), dtype=float)
            vscale = float(np.linalg.norm(rel_ecef[3:]))
            res.case("razel_moving/target_eci/getSlantRangeVector", case, _maxabs(g[:3], sez[:3]) <= ptol + 2e-9 * rng and _maxabs(g[3:], sez[3:]) <= 1e-9 + 2e-9 * vscale,
                     nontrivial=moving, signature=sig("target_eci/getSlantRangeVector"), observed=g, expected=sez, item=item)
            res.observe(g)


def _run_spherical(res, item):
    """spherical2cartesian / cartesian2spherical incl. the on-axis branch (angles from the velocity heading)."""
    for rho in (1.0, 42164.0):
        for th_d in (-90.0, -45.0, 0.0, 30.0, 89.999, 90.0):
            for ph_d in (0.0, 90.0, 180.0, 270.0, 359.9999, 200.0):
                for rates in RATES:
                    th, ph = th_d * DEG, ph_d * DEG
                    case = {"rho": rho, "theta": th_d, "phi": ph_d, "rates": list(rates)}
                    got = np.asarray(M.spherical2cartesian(rho, th, ph, *rates), dtype=float)
                    ct, st, cp, sp = math.cos(th), math.sin(th), math.cos(ph), math.sin(ph)
                    pos = [rho * ct * cp, rho * ct * sp, rho * st]
                    # velocity by differentiating the position map: d/dt = rho_dot d/drho + th_dot d/dth + ph_dot d/dph
                    vel = [rates[0] * ct * cp + rates[1] * (-rho * st * cp) + rates[2] * (-rho * ct * sp),
                           rates[0] * ct * sp + rates[1] * (-rho * st * sp) + rates[2] * (rho * ct * cp),
                           rates[0] * st + rates[1] * (rho * ct)]
                    res.case("spherical/spherical2cartesian", case, _maxabs(got[:3], pos) <= 1e-14 * rho and _maxabs(got[3:], vel) <= 1e-14 * (2 + rho * 3e-3),
                             nontrivial=th_d in (0.0, 90.0, -90.0) or ph_d != 200.0, signature="C04/spherical/spherical2cartesian", observed=got, expected=pos + vel, item=item)
                    if abs(th_d) < 90.0:
                        back = M.cartesian2spherical(np.array(pos + vel))
                        atol = 1e-13
                        res.case("spherical/cartesian2spherical", case, _cmp_polar(back, (rho, th, ph % (2 * math.pi), *rates), 1e-13 * rho, atol, 1e-13 * (2 + rho * 3e-3), atol),
                                 nontrivial=True, signature="C04/spherical/cartesian2spherical", observed=[float(v) for v in back], expected=[rho, th, ph, *rates], item=item)
                        own = fr.polar_from_cartesian(pos + vel)
                        res.case("spherical/reference_inverse_selfcheck", case, _cmp_polar(own, (rho, th, ph % (2 * math.pi), *rates), 1e-13 * rho, atol, 1e-13 * (2 + rho * 3e-3), atol),
                                 signature="C04/spherical/oracle_selfcheck", item=item)
        # exactly on the polar axis: documented behaviour - angle from the horizontal velocity, angular rates zero
        for sgn in (1.0, -1.0):
            for vx, vy, vz in ((1.0, 0.0, 0.5), (0.0, -2.0, 0.0), (-1.0, 1.0, -3.0), (-3.0, -4.0, 1.0)):
                x = np.array([0.0, 0.0, sgn * rho, vx, vy, vz])
                r_, th_, ph_, rd_, td_, pd_ = (float(v) for v in M.cartesian2spherical(x))
                ok = abs(r_ - rho) <= 1e-14 * rho and abs(th_ - sgn * math.pi / 2) <= 1e-15 and abs(rd_ - sgn * vz) <= 1e-14 * 4
                ok = ok and _angle_ok(ph_, math.atan2(vy, vx), 1e-14) and 0 <= ph_ < 2 * math.pi and td_ == 0 and pd_ == 0
                res.case("spherical/on_axis_branch", {"x": list(x)}, bool(ok), nontrivial=True, signature="C04/spherical/on_axis",
                         observed=[r_, th_, ph_, rd_, td_, pd_], expected=[rho, sgn * math.pi / 2, math.atan2(vy, vx) % (2 * math.pi), sgn * vz, 0, 0], item=item)
                # through sez2razel: zenith target, azimuth = heading of the horizontal velocity (S axis flipped)
                out = [float(v) for v in M.sez2razel(x)]
                ok2 = abs(out[0] - rho) <= 1e-14 * rho and abs(out[1] - sgn * math.pi / 2) <= 1e-15 and _angle_ok(out[2], math.atan2(vy, -vx), 1e-14)
                res.case("spherical/sez2razel_at_zenith", {"x": list(x)}, bool(ok2), nontrivial=True, signature="C04/spherical/zenith",
                         observed=out, expected=[rho, sgn * math.pi / 2, math.atan2(vy, -vx) % (2 * math.pi)], item=item)


# ---------------------------------------------------------------------------------------------- RSW / NTW
def _orbit_states(tier):
    mu = 398600.4415
    out = []
    vc = math.sqrt(mu / 7000.0)
    out += [
        ("circ_equatorial", [7000.0, 0, 0, 0, vc, 0]),
        ("circ_equatorial_retro", [7000.0, 0, 0, 0, -vc, 0]),
        ("circ_polar", [0, 7000.0, 0, 0, 0, vc]),
        ("circ_polar_at_pole", [0, 0, 7000.0, vc, 0, 0]),
        ("on_neg_axes", [-7000.0, 0, 0, 0, 0, -vc]),
        ("geo", [0, -42164.0, 0, 3.0746, 0, 0]),
        ("ecc_outbound", [6800.0, 1200.0, -900.0, -1.9, 7.1, 2.8]),
        ("ecc_inbound", [-15000.0, 22000.0, 8000.0, -2.1, -2.6, 0.9]),
        ("hyperbolic_like", [9000.0, -500.0, 100.0, 6.0, 9.0, -1.0]),
    ]
    if tier == "thorough":
        for k in range(24):
            a = k * math.pi / 12
            out.append((f"incl_{k}", [8000.0 * math.cos(a), 8000.0 * math.sin(a) * 0.6, 8000.0 * math.sin(a) * 0.8,
                                       -6.5 * math.sin(a) + 0.8 * math.cos(a), 6.5 * math.cos(a) * 0.6, 6.5 * math.cos(a) * 0.8 + 0.3]))
    return out


REL = [(1.0, 0, 0), (-1.0, 0, 0), (0, 1.0, 0), (0, -1.0, 0), (0, 0, 1.0), (0, 0, -1.0), (12.5, -30.0, 7.25)]
RELV = [(0.0, 0.0, 0.0), (0.01, -0.02, 0.03)]


def _run_rswntw(res, item):
    _, seed, tier = item
    for name, st in _orbit_states(tier):
        x = np.array(st, dtype=float)
        rsw = fr.rsw_basis(st)
        ntw = fr.ntw_basis(st)
        radial_v = abs(sum(a * b for a, b in zip(st[:3], st[3:]))) > 1e-6
        # reference bases are right-handed orthonormal triads (oracle self-check)
        for bname, bs in (("rsw", rsw), ("ntw", ntw)):
            g = np.array(bs)
            res.case("satframe/reference_triads", {"orbit": name, "frame": bname}, _maxabs(g @ g.T, np.eye(3)) <= 1e-14 and abs(np.linalg.det(g) - 1.0) <= 1e-14,
                     signature="C04/satframe/oracle_selfcheck", item=item)
        for dp in REL:
            for dv in RELV:
                rel = np.array(list(dp) + list(dv), dtype=float)
                case = {"orbit": name, "rel": list(rel)}
                nt = True
                scale = float(np.linalg.norm(rel[:3]))
                # RSW: eci2rsw(target, chaser) = components of (chaser-target) on R,S,W
                chaser = x + rel
                got = np.asarray(M.eci2rsw(x, chaser), dtype=float)
                exp = fr.project(rsw, rel[:3]) + fr.project(rsw, rel[3:])
                # chaser - target loses |x|*eps = 1e-12 km
                res.case("satframe/eci2rsw_reference", case, got.shape == (6,) and _maxabs(got[:3], exp[:3]) <= 2e-11 and _maxabs(got[3:], exp[3:]) <= 1e-14,
                         nontrivial=nt, signature="C04/satframe/eci2rsw", observed=got, expected=exp, outcome="radial_v" if radial_v else "perp", item=item)
                got2 = np.asarray(M.rsw2eci(x, rel), dtype=float)
                exp2 = fr.combine(rsw, rel[:3]) + fr.combine(rsw, rel[3:])
                res.case("satframe/rsw2eci_reference", case, got2.shape == (6,) and _maxabs(got2[:3], exp2[:3]) <= 1e-14 * scale and _maxabs(got2[3:], exp2[3:]) <= 1e-15,
                         nontrivial=nt, signature="C04/satframe/rsw2eci", observed=got2, expected=exp2, item=item)
                rt = np.asarray(M.rsw2eci(x, got), dtype=float)
                ok = _maxabs(rt[:3], rel[:3]) <= 2e-11 and _maxabs(rt[3:], rel[3:]) <= 1e-14 and abs(np.linalg.norm(got[:3]) - scale) <= 2e-11
                rt2 = np.asarray(M.eci2rsw(x, x + got2), dtype=float)
                ok = ok and _maxabs(rt2[:3], rel[:3]) <= 2e-11 and _maxabs(rt2[3:], rel[3:]) <= 1e-14
                res.case("satframe/rsw_roundtrip_rigid", case, bool(ok), nontrivial=nt, signature="C04/satframe/rsw_roundtrip", observed=rt, expected=rel, item=item)
                # NTW
                got3 = np.asarray(M.ntw2eci(x, rel), dtype=float)
                exp3 = fr.combine(ntw, rel[:3]) + fr.combine(ntw, rel[3:])
                res.case("satframe/ntw2eci_reference", case, got3.shape == (6,) and _maxabs(got3[:3], exp3[:3]) <= 1e-14 * scale and _maxabs(got3[3:], exp3[3:]) <= 1e-15,
                         nontrivial=nt, signature="C04/satframe/ntw2eci", observed=got3, expected=exp3, item=item)
                inv = fr.project(ntw, got3[:3]) + fr.project(ntw, got3[3:])
                ok = _maxabs(inv, rel) <= 1e-13 * max(scale, 1.0) and abs(np.linalg.norm(got3[:3]) - scale) <= 1e-13 * scale
                if not radial_v:  # circular-type state: the two frames coincide (N = R, T = S)
                    ok = ok and _maxabs(got3, got2) <= 1e-13 * scale
                res.case("satframe/ntw_inverse_rigid", case, bool(ok), nontrivial=nt, signature="C04/satframe/ntw_inverse", observed=inv, expected=rel, item=item)
                res.observe(got, got2, got3)
    _run_spherical(res, item)



# ---------------------------------------------------------------------------------------------- input representation
def _variants(x64):
    """The same numbers in other legal ndarray representations (dtype / memory layout)."""
    x64 = np.asarray(x64, dtype=np.float64)
    out = []
    if np.all(x64 == np.round(x64)):
        out.append(("int64", x64.astype(np.int64)))
        out.append(("int32", x64.astype(np.int32)))
    if np.all(x64.astype(np.float32).astype(np.float64) == x64):
        out.append(("float32", x64.astype(np.float32)))
    wide = np.zeros(2 * x64.size)
    wide[::2] = x64
    out.append(("strided_view", wide[::2]))
    out.append(("reversed_view", x64[::-1].copy()[::-1]))
    ro = x64.copy()
    ro.setflags(write=False)
    out.append(("read_only", ro))
    return out


def _run_repr(res, item):
    """Every state-vector transform on the same numbers given as int / float32 / strided / read-only arrays: the result
    must be the float64 result (the functions document ndarray inputs; a result computed or stored in the input's dtype
    truncates the state).  Inputs are left unmodified."""
    _, seed = item
    t = CORNER_DATES[9]
    lat, lon = 35.0 * DEG, -106.0 * DEG
    states = [np.array([6378.0, 0.0, 1000.0, 1.0, -2.0, 3.0]), np.array([0.0, 0.0, 1.0, 0.0, 0.0, 0.0]),
              np.array([-7000.0, 1200.0, 4.0, 2.0, 7.0, -1.0]), np.array([6524.5, 6862.75, 6448.25, 4.5, 5.25, -1.75])]
    obs = np.array([6378.0, 100.0, 200.0, -0.25, 0.5, 0.0])
    fns = [
        ("eci2ecef", lambda x: M.eci2ecef(x, t)), ("ecef2eci", lambda x: M.ecef2eci(x, t)),
        ("sez2ecef", lambda x: M.sez2ecef(x, lat, lon)), ("ecef2sez", lambda x: M.ecef2sez(x, lat, lon)),
        ("eci2sez", lambda x: M.eci2sez(x, lat, lon, t)), ("sez2eci", lambda x: M.sez2eci(x, lat, lon, t)),
        ("ecef2lla", lambda x: M.ecef2lla(x)), ("eci2lla", lambda x: M.eci2lla(x, t)),
        ("eci2rsw_rel", lambda x: M.eci2rsw(obs + np.array([0, 0, 0, 7.0, 0.0, 1.0]), x)),
        ("rsw2eci_rel", lambda x: M.rsw2eci(obs + np.array([0, 0, 0, 7.0, 0.0, 1.0]), x)),
        ("ntw2eci_rel", lambda x: M.ntw2eci(obs + np.array([0, 0, 0, 7.0, 0.0, 1.0]), x)),
        ("eci2rsw_ref", lambda x: M.eci2rsw(x, obs)), ("rsw2eci_ref", lambda x: M.rsw2eci(x, obs)),
        ("ntw2eci_ref", lambda x: M.ntw2eci(x, obs)),
        ("cartesian2spherical", lambda x: np.array(M.cartesian2spherical(x))),
        ("sez2razel", lambda x: np.array(M.sez2razel(x))),
        ("eci2radec", lambda x: M.eci2radec(x, obs, t)), ("eci2radec_obs", lambda x: M.eci2radec(obs * 2.0, x, t)),
        ("eci2razel", lambda x: np.array(M.eci2razel(x, obs, t))),
        ("getSlantRangeVector", lambda x: M.getSlantRangeVector(obs, x, t)),
        ("getSlantRangeVector_obs", lambda x: M.getSlantRangeVector(x, obs * 2.0, t)),
        ("teme2ecef", lambda x: M.teme2ecef(x, t)),
    ]
    for name, fn in fns:
        for x in states:
            try:
                base = np.asarray(fn(x.copy()), dtype=float)
            except Exception:  # noqa: BLE001  (a function refusing this state in float64 is not this family's subject)
                continue
            if not _finite(base):
                continue  # e.g. the azimuth at the zenith: undefined in float64 too, not this family's subject
            scale = max(1.0, float(np.max(np.abs(base))))
            for label, v in _variants(x):
                keep = np.array(v, copy=True)
                case = {"function": name, "x": [float(q) for q in x], "representation": label}
                try:
                    got = np.asarray(fn(v), dtype=float)
                    err = None
                except Exception as exc:  # noqa: BLE001
                    got, err = None, f"{type(exc).__name__}: {exc}"[:200]
                # float32 input: numpy may carry single precision through (1e-7 relative per operation); a result
                # stored in an integer dtype, or in float32 from integers, is off by order one
                tol = (2e-5 if label == "float32" else 1e-9) * scale
                ok = err is None and got.shape == base.shape and _finite(got) and _maxabs(got, base) <= tol
                res.case("repr/same_result", case, bool(ok), nontrivial=True, signature=f"C04/repr/{name}/{label}",
                         observed=err or got, expected=base, item=item)
                res.case("repr/input_unmodified", case, bool(np.array_equal(np.asarray(v), keep)), nontrivial=True,
                         signature=f"C04/repr/{name}/{label}/input_modified", observed=np.asarray(v, dtype=float), expected=keep.astype(float), item=item)
            res.observe(base)


# ---------------------------------------------------------------------------------------------- host time zone
HOST_TZS = ["EST5EDT,M3.2.0,M11.1.0", "AEST-10AEDT,M10.1.0,M4.1.0", "IST-5:30", "<+14>-14"]


def _run_hosttz(res, item):
    """Every instant is UTC whatever the HOST's time zone is (POSIX TZ strings, no tzdata needed): reduction matrices,
    the Earth-fixed state and the sidereal helpers are bit-identical under every host zone, at corner dates and hour by
    hour through the days on which these zones switch daylight saving time."""
    import os  # noqa: PLC0415
    import time as _time  # noqa: PLC0415

    _, seed = item
    instants = list(CORNER_DATES)
    for d0 in (datetime(2021, 3, 14), datetime(2021, 11, 7), datetime(2021, 10, 2), datetime(2021, 4, 3), datetime(2021, 4, 4)):
        instants += [d0 + timedelta(hours=h, minutes=30, seconds=(seed * 7 + h) % 60) for h in range(24)]
    x = np.array([6524.834, 6862.875, 6448.296, 4.901327, 5.533756, -1.976341])

    def snapshot():
        out = {}
        for t in instants:
            rp = red.ReductionParams.build(t)
            out[t] = (np.asarray(rp.rot_pnr, dtype=float).tobytes(), np.asarray(rp.rot_w, dtype=float).tobytes(),
                      np.asarray(M.eci2ecef(x, t), dtype=float).tobytes(), np.asarray(M.ecef2eci(x, t), dtype=float).tobytes(),
                      float(datetimeToJulianDate(t)), repr(tconv.utc2TerrestrialTime(t.year, t.month, t.day, t.hour, t.minute, t.second + t.microsecond / 1e6, 37)))
        return out

    old = os.environ.get("TZ")
    try:
        os.environ["TZ"] = "UTC0"
        _time.tzset()
        base = snapshot()
        for tz in HOST_TZS:
            os.environ["TZ"] = tz
            _time.tzset()
            got = snapshot()
            for t in instants:
                labels = ("rot_pnr", "rot_w", "eci2ecef", "ecef2eci", "julian_date", "terrestrial_time")
                bad = [labels[i] for i in range(len(labels)) if got[t][i] != base[t][i]]
                res.case("hosttz/same_as_utc_host", {"host_TZ": tz, "t": _iso(t), "utc_offset_s": -_time.timezone},
                         not bad, nontrivial=True, signature=f"C04/hosttz/{bad[0] if bad else ''}",
                         observed=bad, expected="bit-identical to the same call under a UTC host", item=item)
                res.observe(not bad)
    finally:
        if old is None:
            os.environ.pop("TZ", None)
        else:
            os.environ["TZ"] = old
        _time.tzset()

# ------------------------------------------------------------ Earth-orientation data installed at run time (histories)
# The table is not read-only: setEarthOrientationParameters (public API; the package's own fixtures and users with newer
# IERS bulletins call it) installs the data of a calendar date in the loader every conversion reads from.  "For every
# date with Earth-orientation data" therefore quantifies over HISTORIES too: whatever was looked up, converted or
# installed earlier in the process, a conversion on day D uses the data day D has NOW.  Every family above evaluates pure
# functions on a never-modified table, where a result remembered from an earlier call (a memo on the getter, on the
# reduction or on a conversion, keyed on the date, the minute or the instant; an explicit-EOP call leaking into later
# look-ups) cannot be told from a fresh one.  Here a reference model of the store (a dict: day -> row) is driven through
# every word over a small operation alphabet, and after the word everything that reads the store is compared with the
# independent FK5 model evaluated on the row the reference store holds.
EOP_FIELDS = ("xp_as", "yp_as", "dut1", "lod", "dpsi_as", "deps_as", "dat")
EOP_OPS = ["U0", "U1", "Sa0", "Sb0", "Sa1", "R0", "X0"]
#   U<k>   ordinary use of day D+k: look-ups (three call forms), reduction, ECI<->ECEF, TEME->ECEF at EOP_T_USE
#   S<n><k> install the hand-made series <n> on day D+k with the public setter
#   R0     re-install the published row of day D (own parse) with the public setter
#   X0     a reduction at an instant of day D with EXPLICITLY passed data (series c), which the store must not notice
EOP_DEPTH = {"quick": 3, "thorough": 4}
EOP_PARTS = 6
EOP_T_USE = [(11, 22, 33, 250000), (23, 59, 59, 0)]
EOP_T_FINAL = [(0, 0, 0, 0), (11, 22, 33, 250000), (11, 22, 48, 0), (23, 59, 59, 0)]  # two instants share a minute
EOP_STATES = [TARGETS_ECI[0][1], TARGETS_ECI[1][1]]
EOP_FIELD_VARIANTS = [  # one field of the published row replaced: (field, new value or increment, is_increment)
    ("xp_as", 0.1, True), ("xp_as", -1e-4, True), ("yp_as", 0.1, True), ("yp_as", -1e-4, True),
    ("dut1", 0.001, True), ("dut1", -0.5, True), ("lod", 0.001, True), ("lod", -0.0005, True),
    ("dpsi_as", 0.05, True), ("dpsi_as", -1e-3, True), ("deps_as", 0.05, True), ("deps_as", -1e-3, True),
    ("dat", 10, False), ("dat", 1, True),
]
EOP_SET_FORMS = ["date_key", "datetime_key", "date_key_keywords", "datetime_key_positional"]
_EOP_ELIGIBLE = None


def _eop_series(name, off):
    """Hand-made Earth-orientation rows (arc seconds / seconds) for day D+off, in EOP_FIELDS order."""
    if name == "a":  # the smoothest series there is: no polar motion, no nutation corrections, UT1-UTC drifting 1.1 ms/day
        return (0.0, 0.0, 0.0 - 0.0011 * off, 0.0, 0.0, 0.0, 35)
    if name == "b":  # every field far from every published row (TAI-UTC of 1972)
        return (-0.2134, 0.4711, 0.4375 - 0.0009 * off, 0.0021, 0.0612, -0.0305, 10)
    return (0.1, -0.2, -0.3, 0.0015, -0.02, 0.04, 37)  # "c": only ever passed explicitly, never installed


def _row_vals(d):
    row = fr.eop_table()[0][d]
    return tuple(row[k] for k in EOP_FIELDS)


def _vals_obj(d, vals):
    return _eops_obj(datetime(d.year, d.month, d.day), *vals)


def _vals_ref(t, vals):
    xp, yp, dut1, lod, dpsi, deps, dat = vals
    return fr.FK5(t, xp * fr.ARCSEC, yp * fr.ARCSEC, dut1, lod, dpsi * fr.ARCSEC, deps * fr.ARCSEC, dat)


def _eop_tag():
    cfg = BehavioralConfig.getConfig()
    return cfg.eop.LoaderName, cfg.eop.LoaderLocation


def _eop_store():
    """The dict behind the default public getter/setter - used for set-up and tear-down ONLY (snapshot of the entries a
    sequence may touch, restored in a finally block so that no other work item of this worker sees them).  Every sequence
    starts with the file in memory (a look-up of the first table day)."""
    getEarthOrientationParameters(_table_days()[0])
    return eopgetter._loadLoader()._eop_data  # noqa: SLF001


def _eop_restore(store, saved):
    for d, obj in saved.items():
        if obj is None:
            store.pop(d, None)
        else:
            store[d] = obj


def _eop_eligible():
    """Table days D with D+1 in the table and no year end / leap-second insertion between them."""
    global _EOP_ELIGIBLE  # noqa: PLW0603
    if _EOP_ELIGIBLE is None:
        days = _table_days()
        have = set(days)
        _EOP_ELIGIBLE = [d for d in days if d + timedelta(days=1) in have and (d.month, d.day) not in ((12, 31), (6, 30))]
    return _EOP_ELIGIBLE


def _eop_words(depth):
    words, layer = [], [[]]
    for _ in range(depth):
        layer = [w + [op] for w in layer for op in EOP_OPS]
        words += layer
    return words


def _eop_word_day(seed, k, nwords):
    """Every word gets its own first day D; the pairs (D, D+1) of different words are disjoint while 2*nwords <= eligible
    days (quick tier), so that a word's history on ITS days is exactly the word even on a tree with process-wide state.
    In the thorough tier neighbouring words share a day; every word restores the store before the next one starts."""
    el = _eop_eligible()
    stride = max(1, len(el) // nwords)
    return el[((seed * 7919 + 1234) % len(el) + k * stride) % len(el)]


def _eop_install(day, vals, form="date_key"):
    obj = _vals_obj(day, vals)
    name, loc = _eop_tag()
    key = day if form.startswith("date_key") else datetime(day.year, day.month, day.day, 13, 14, 15)
    if form.endswith("keywords"):
        setEarthOrientationParameters(key, obj, loader_name=name, loader_location=loc)
    elif form.endswith("positional"):
        setEarthOrientationParameters(key, obj, name, loc)
    else:
        setEarthOrientationParameters(key, obj)
    return ["installed", tuple(vals), obj]


def _eop_same(got, obj, exact):
    if exact:
        return got == obj
    ok = got.date == obj.date and got.delta_atomic_time == obj.delta_atomic_time
    for f in ("x_p", "y_p", "d_delta_psi", "d_delta_eps", "delta_ut1", "length_of_day"):
        ok = ok and abs(getattr(got, f) - getattr(obj, f)) <= 1e-14 * abs(getattr(obj, f))
    return bool(ok)


def _eop_mats(t):
    _, pnr, w = _impl_mats(t)
    return pnr @ w


def _eop_observe(res, item, model, day, times, case0, root0="C04/eop_history"):
    """Everything that reads the store, for one day, against the reference store's row for that day."""
    kind, vals, obj = model[day]
    nt = kind == "installed"
    root = f"{root0}/{kind}"
    name, loc = _eop_tag()
    case0 = dict(case0, observed_day=day.isoformat())
    noon = datetime(day.year, day.month, day.day, 12, 0, 0)
    for form, args, kw in (("default", (day,), {}), ("keywords", (day,), {"loader_name": name, "loader_location": loc}),
                           ("positional", (day, name, loc), {})):
        try:
            got, err = getEarthOrientationParameters(*args, **kw), None
        except MissingEOP as exc:
            got, err = None, f"MissingEOP: {exc}"
        if kind == "missing":
            ok = got is None
        else:
            ok = got is not None and _eop_same(got, obj if nt else _vals_obj(day, vals), exact=nt)
        res.case("eop_history/getter", dict(case0, call=form), bool(ok), nontrivial=nt, signature=f"{root}/getter/{form}",
                 observed=err or repr(got), expected="MissingEOP" if kind == "missing" else repr(obj or _vals_obj(day, vals)), item=item)
    if kind == "missing":
        try:
            red.ReductionParams.build(noon)
            raised = False
        except MissingEOP:
            raised = True
        res.case("eop_history/missing_raises", dict(case0, t=_iso(noon)), raised, nontrivial=False,
                 signature=f"{root}/reduction_raises", observed=raised, expected=True, item=item)
        return
    for hms in times:
        t = datetime(day.year, day.month, day.day, *hms)
        case = dict(case0, t=_iso(t))
        rp, pnr, w = _impl_mats(t)
        ref = _vals_ref(t, vals)
        _cmp_reduction(res, "eop_history/reduction", rp, ref, case, nt, item, sigroot=f"{root}/reduction")
        # the conversions agree with the reduction of the same instant (just compared with the model) to rounding:
        # tolerances as in the eci_ecef family; Earth's rate carries the LOD of the reference store's row
        omega = [0.0, 0.0, fr.OMEGA_EARTH * (1.0 - vals[3] / 86400.0)]
        for x in EOP_STATES:
            x = np.array(x, dtype=float)
            rad = float(np.linalg.norm(x[:3]))
            ptol, vtol = 2e-12 * rad, 1e-12 + 2e-16 * rad
            f = np.asarray(M.eci2ecef(x, t), dtype=float)
            ef = _compose_eci2ecef(x, pnr, w, omega)
            res.case("eop_history/eci2ecef", case, f.shape == (6,) and _maxabs(f[:3], ef[:3]) <= ptol and _maxabs(f[3:], ef[3:]) <= vtol,
                     nontrivial=nt, signature=f"{root}/eci2ecef", observed=f, expected=ef, item=item)
            g = np.asarray(M.ecef2eci(x, t), dtype=float)
            eg = _compose_ecef2eci(x, pnr, w, omega)
            res.case("eop_history/ecef2eci", case, g.shape == (6,) and _maxabs(g[:3], eg[:3]) <= ptol and _maxabs(g[3:], eg[3:]) <= vtol,
                     nontrivial=nt, signature=f"{root}/ecef2eci", observed=g, expected=eg, item=item)
            b = np.asarray(M.ecef2eci(f, t), dtype=float)
            res.case("eop_history/roundtrip", case, _maxabs(b[:3], x[:3]) <= ptol and _maxabs(b[3:], x[3:]) <= vtol,
                     nontrivial=nt, signature=f"{root}/roundtrip", observed=b, expected=x, item=item)
            # and with the independent model's own matrices (designed sidereal slack as in eci_ecef/independent_model)
            rf = ref.eci_to_ecef(x)
            res.case("eop_history/independent_model", case, _maxabs(f[:3], rf[:3]) <= 3e-9 * rad and _maxabs(f[3:], rf[3:]) <= 3e-9 * (7.5 + 7.3e-5 * rad),
                     nontrivial=nt, signature=f"{root}/independent_model", observed=f, expected=rf, item=item)
        # TEME -> ECEF reads polar motion and LOD of the day (GMST of the UTC Julian date: 1e-8, as in the eci_ecef family)
        x = np.array(EOP_STATES[1], dtype=float)
        r3 = fr.rot_axis(2, fr.gmst_exact(fr.days_since_j2000(t)))
        r_pef = r3 @ x[:3]
        exp = np.concatenate((ref.polar.T @ r_pef, ref.polar.T @ (r3 @ x[3:] - np.array(fr.cross(omega, r_pef)))))
        got = np.asarray(M.teme2ecef(x, t), dtype=float)
        nr = float(np.linalg.norm(x[:3]))
        res.case("eop_history/teme2ecef", case, got.shape == (6,) and _maxabs(got[:3], exp[:3]) <= 1e-8 * nr and _maxabs(got[3:], exp[3:]) <= 1e-8 * 8.0,
                 nontrivial=nt, signature=f"{root}/teme2ecef", observed=got, expected=exp, item=item)


def _eop_midnight(res, item, model, d0, case0, root0="C04/eop_history"):
    """Rotation of the Earth-fixed frame over the second that contains the midnight D0 -> D0+1, with whatever the
    reference store holds for the two days: against the independent model's own matrices, and - when both days carry
    the same polar motion, nutation corrections and TAI-UTC - against omega*(1 s + UT1-UTC step) in closed form."""
    d1 = d0 + timedelta(days=1)
    (k0, v0, _), (k1, v1, _) = model[d0], model[d1]
    if "missing" in (k0, k1):
        return
    t1 = datetime(d0.year, d0.month, d0.day, 23, 59, 59, 500000)
    t2 = t1 + timedelta(seconds=1)
    dmat = _eop_mats(t1).T @ _eop_mats(t2)
    ang = fr.rotation_angle(dmat)
    axis_z = (dmat[1, 0] - dmat[0, 1]) / (2.0 * math.sin(ang)) if ang > 0 else 0.0
    ang_ref = fr.rotation_angle(_vals_ref(t1, v0).ecef2eci_mat.T @ _vals_ref(t2, v1).ecef2eci_mat)
    # both angles come from the same rows; what is left is the implementation's frozen sidereal rate, common to both
    # instants unless the year changes between them (re-anchoring, TOL_JUMP_YEAR as in the continuity family)
    tol = TOL_JUMP_YEAR if t2.year != t1.year else TOL_JUMP
    ok = abs(ang - ang_ref) <= tol
    smooth = v0[:2] == v1[:2] and v0[4:] == v1[4:]
    exp = fr.OMEGA_EARTH * (1.0 + v1[2] - v0[2])
    if smooth:
        ok = ok and abs(ang - exp) <= tol and axis_z >= 1.0 - 1e-6
    kinds = f"{k0}_to_{k1}"
    nt = "installed" in (k0, k1)
    res.case("eop_history/midnight", dict(case0, t1=_iso(t1), smooth_series=smooth), bool(ok), nontrivial=nt,
             signature=f"{root0}/midnight/{kinds}", observed={"angle": ang, "axis_z": axis_z},
             expected={"angle_model": ang_ref, "angle_closed_form": exp if smooth else None}, outcome=kinds, item=item)
    res.observe(ang)


def _eop_explicit(res, item, d0, case0):
    """X0: explicitly passed data (series c) at an instant the U operations also use; never touches the store."""
    t = datetime(d0.year, d0.month, d0.day, *EOP_T_USE[0])
    vals = _eop_series("c", 0)
    rp = red.ReductionParams.build(t, eops=_vals_obj(d0, vals))
    _cmp_reduction(res, "eop_history/explicit_eops", rp, _vals_ref(t, vals), dict(case0, t=_iso(t)), True, item,
                   sigroot="C04/eop_history/explicit_eops/reduction")


def _eop_final(res, item, model, d0, case0):
    for off in (0, 1):
        _eop_observe(res, item, model, d0 + timedelta(days=off), EOP_T_FINAL, case0)
    _eop_midnight(res, item, model, d0, case0)


def _run_eop_seq(res, item):
    _, seed, depth, part = item
    words = _eop_words(depth)
    store = _eop_store()
    for k, word in enumerate(words):
        if k % EOP_PARTS != part:
            continue
        d0 = _eop_word_day(seed, k, len(words))
        days = [d0, d0 + timedelta(days=1)]
        saved = {d: store.get(d) for d in days}
        model = {d: ["bundled", _row_vals(d), None] for d in days}
        try:
            for n, op in enumerate(word):
                case0 = {"day": d0.isoformat(), "sequence": " ".join(word), "after_op": n + 1}
                if op[0] == "U":
                    _eop_observe(res, item, model, days[int(op[1])], EOP_T_USE, case0)
                elif op[0] == "S":
                    day = days[int(op[2])]
                    model[day] = _eop_install(day, _eop_series(op[1], int(op[2])))
                elif op == "R0":
                    model[d0] = _eop_install(d0, _row_vals(d0))
                else:
                    _eop_explicit(res, item, d0, case0)
            _eop_final(res, item, model, d0, {"day": d0.isoformat(), "sequence": " ".join(word), "after_op": "end"})
        finally:
            _eop_restore(store, saved)


def _run_eop_fields(res, item):
    """One field of the published row replaced at a time (two magnitudes each) x every form of the setter call, after
    the day has been in ordinary use; then the original row installed again: results bit-identical to the first ones."""
    _, seed = item
    store = _eop_store()
    k = 0
    for field, val, incr in EOP_FIELD_VARIANTS:
        for form in EOP_SET_FORMS:
            d0 = _eop_word_day(seed + 1, k, len(EOP_FIELD_VARIANTS) * len(EOP_SET_FORMS))
            k += 1
            days = [d0, d0 + timedelta(days=1)]
            saved = {d: store.get(d) for d in days}
            model = {d: ["bundled", _row_vals(d), None] for d in days}
            case0 = {"day": d0.isoformat(), "sequence": f"U0 U1 S0[{field}{'+' if incr else '='}{val} via {form}] U0 U1 S0[original]", "after_op": 2}
            noon = datetime(d0.year, d0.month, d0.day, 12, 0, 0)
            try:
                for off in (0, 1):
                    _eop_observe(res, item, model, days[off], EOP_T_USE, case0)
                first = [np.asarray(v, dtype=float).tobytes() for t in (noon, noon + timedelta(hours=11, minutes=59, seconds=59))
                         for v in (_impl_mats(t)[1], _impl_mats(t)[2], M.eci2ecef(np.array(EOP_STATES[0]), t))]
                a_before = _eop_mats(noon)
                vals = list(_row_vals(d0))
                i = EOP_FIELDS.index(field)
                vals[i] = vals[i] + val if incr else val
                model[d0] = _eop_install(d0, vals, form)
                case0 = dict(case0, after_op=3)
                _eop_final(res, item, model, d0, case0)
                if field == "dut1":
                    # changing UT1-UTC of a date by d seconds turns the Earth-fixed frame by omega*d at any instant of it
                    dmat = a_before.T @ _eop_mats(noon)
                    ang = fr.rotation_angle(dmat)
                    axis_z = (dmat[1, 0] - dmat[0, 1]) / (2.0 * math.sin(ang)) if ang > 0 else 0.0
                    ok = abs(ang - fr.OMEGA_EARTH * abs(val)) <= TOL_JUMP and axis_z * val >= (1.0 - 1e-6) * abs(val)
                    res.case("eop_history/turn_follows_dut1", dict(case0, t=_iso(noon), d_dut1=val), bool(ok), nontrivial=True,
                             signature="C04/eop_history/installed/turn_follows_dut1", observed={"angle": ang, "axis_z": axis_z},
                             expected={"angle": fr.OMEGA_EARTH * abs(val), "axis_z": math.copysign(1.0, val)}, item=item)
                # the original row (the loader's own object) installed again through the public setter
                setEarthOrientationParameters(d0, saved[d0])
                again = [np.asarray(v, dtype=float).tobytes() for t in (noon, noon + timedelta(hours=11, minutes=59, seconds=59))
                         for v in (_impl_mats(t)[1], _impl_mats(t)[2], M.eci2ecef(np.array(EOP_STATES[0]), t))]
                res.case("eop_history/original_reinstalled", dict(case0, after_op=4), again == first, nontrivial=True,
                         signature="C04/eop_history/reinstalled/bit_identical", observed=[a == b for a, b in zip(again, first)],
                         expected="rot_pnr, rot_w, eci2ecef at two instants bit-identical to the values before the change", item=item)
            finally:
                _eop_restore(store, saved)


def _run_eop_missing(res, item):
    """Dates WITHOUT data that get data at run time: the look-up and the reduction raise MissingEOP first (so a remembered
    failure would show), then rows are installed day by day; the boundary to the published table is observed too."""
    _, seed = item
    store = _eop_store()
    first, last = _table_days()[0], _table_days()[-1]
    one = timedelta(days=1)
    plans = [  # (days in order of installation, series, look the day up while it is still missing?)
        ([first - 2 * one, first - one], "b", True),
        ([last + one, last + 2 * one], "a", True),
        ([last + 10 * one, last + 11 * one], "b", False),
    ]
    for days, series, probe in plans:
        edge = [first, last]  # published neighbours for the midnight steps (never modified here)
        saved = {d: store.get(d) for d in days}
        model = {d: ["missing", None, None] for d in days}
        model.update({d: ["bundled", _row_vals(d), None] for d in edge})
        seq = []
        try:
            for n, day in enumerate(days):
                if probe:
                    seq.append("U(missing)")
                    for d in days[n:]:
                        _eop_observe(res, item, model, d, EOP_T_USE, {"day": days[0].isoformat(), "sequence": " ".join(seq), "after_op": len(seq)})
                seq.append(f"S{series}{n}")
                model[day] = _eop_install(day, _eop_series(series, n), EOP_SET_FORMS[n % 2])
                case0 = {"day": days[0].isoformat(), "sequence": " ".join(seq), "after_op": len(seq)}
                for d in days:
                    _eop_observe(res, item, model, d, EOP_T_FINAL, case0)
                for d in (days[0] - one, days[0], days[1]):
                    if d in model and d + one in model:
                        _eop_midnight(res, item, model, d, case0)
        finally:
            _eop_restore(store, saved)


def _run_eop_set_before_load(res, item):
    """The setter is the FIRST Earth-orientation call on a loader whose file is not in memory yet (a process that installs
    its rows before it converts anything): the row must survive the lazy load that the first look-up triggers, the other
    days must come from the file, and a date outside the file keeps working.  Two loaders: the default one every
    conversion reads (its registry entry is taken out for the duration of the history and put back afterwards - set-up /
    tear-down only, so the public calls find no loader and make a new, unread one), and a LocalDotDatEOPLoader on the
    same file addressed with explicit loader arguments (reduction through eops=<what the look-up returned>)."""
    _, seed = item
    root0 = "C04/eop_history/set_before_load"
    first, last = _table_days()[0], _table_days()[-1]
    one = timedelta(days=1)
    inside = [_eop_word_day(seed + 2, 0, 3), _eop_word_day(seed + 2, 1, 3), first, last - one]
    plans = [(d, "inside_file") for d in inside] + [(last + 5 * one, "outside_file"), (first - 3 * one, "outside_file")]
    loaders = [("default_loader", _eop_tag()), ("local_file_loader", ("LocalDotDatEOPLoader", fr._data_path("eop", "EOPdata.dat")))]  # noqa: SLF001
    table = fr.eop_table()[0]
    for lname, (name, loc) in loaders:
        key = eopgetter.LoaderTag(name, loc)
        for n, (d0, where) in enumerate(plans):
            for form in EOP_SET_FORMS[:2]:
                series = "ab"[n % 2]
                vals = _eop_series(series, 0)
                days = [d0, d0 + one]
                model = {d: (["bundled", _row_vals(d), None] if d in table else ["missing", None, None]) for d in days}
                case0 = {"day": d0.isoformat(), "sequence": f"(new {lname}) S{series}0[{form}] U0 U1", "after_op": "end", "where": where}
                saved = eopgetter._EOP_LOADERS.pop(key, None)  # noqa: SLF001
                try:
                    if lname == "default_loader":
                        model[d0] = _eop_install(d0, vals, form)
                        for d in days:
                            _eop_observe(res, item, model, d, EOP_T_FINAL, case0, root0=f"{root0}/{lname}/{where}")
                        _eop_midnight(res, item, model, d0, case0, root0=f"{root0}/{lname}/{where}")
                        continue
                    obj = _vals_obj(d0, vals)
                    k = d0 if form == "date_key" else datetime(d0.year, d0.month, d0.day, 13, 14, 15)
                    setEarthOrientationParameters(k, obj, loader_name=name, loader_location=loc)
                    model[d0] = ["installed", tuple(vals), obj]
                    for d in days:
                        kind, mv, mo = model[d]
                        try:
                            got, err = getEarthOrientationParameters(d, name, loc), None
                        except MissingEOP as exc:
                            got, err = None, f"MissingEOP: {exc}"
                        if kind == "missing":
                            ok = got is None
                        else:
                            ok = got is not None and _eop_same(got, mo or _vals_obj(d, mv), exact=kind == "installed")
                        c = dict(case0, observed_day=d.isoformat())
                        res.case("eop_history/getter", c, bool(ok), nontrivial=kind == "installed", signature=f"{root0}/{lname}/{where}/{kind}/getter",
                                 observed=err or repr(got), expected="MissingEOP" if kind == "missing" else repr(mo or _vals_obj(d, mv)), item=item)
                        if got is not None and kind != "missing":
                            t = datetime(d.year, d.month, d.day, *EOP_T_USE[0])
                            rp = red.ReductionParams.build(t, eops=got)
                            _cmp_reduction(res, "eop_history/reduction", rp, _vals_ref(t, mv), dict(c, t=_iso(t)), kind == "installed", item,
                                           sigroot=f"{root0}/{lname}/{where}/{kind}/reduction")
                finally:
                    if saved is None:
                        eopgetter._EOP_LOADERS.pop(key, None)  # noqa: SLF001
                    else:
                        eopgetter._EOP_LOADERS[key] = saved  # noqa: SLF001


# ---------------------------------------------------------------------------------------------- dispatch
_RUNNERS = {
    "eop_set_before_load": _run_eop_set_before_load,
    "eop_seq": _run_eop_seq,
    "eop_fields": _run_eop_fields,
    "eop_missing": _run_eop_missing,
    "maths": _run_maths,
    "anchor": _run_anchor,
    "loader_api": _run_loader_api,
    "dayofyear": _run_dayofyear,
    "seconds2hms": _run_seconds2hms,
    "sidereal": _run_sidereal,
    "days": _run_days,
    "sweep_min": _run_sweep_min,
    "sweep_sec": _run_sweep_sec,
    "eci_ecef": _run_eci_ecef,
    "geodetic": _run_geodetic,
    "sez": _run_sez,
    "razel": _run_razel,
    "razel_moving": _run_razel_moving,
    "rswntw": _run_rswntw,
    "repr": _run_repr,
    "hosttz": _run_hosttz,
}


def _impl_exception(exc):
    """(function, file) of the resonaate frame an exception passed through after leaving the check's own code, else None.

    An exception raised while the implementation is executing (MissingEOP for a day of the table, ValueError from
    JulianDate on a TT roll-over, NaN rejected by scipy.norm, ...) is a finding about the implementation, not a harness
    error; an exception in the check's own code is re-raised and becomes exit 2.
    """
    import os  # noqa: PLC0415
    import traceback  # noqa: PLC0415

    frames = traceback.extract_tb(exc.__traceback__)
    marker = os.sep + "resonaate" + os.sep
    last_own = max((k for k, f in enumerate(frames) if (os.sep + "verif" + os.sep) in f.filename), default=-1)
    inside = [f for f in frames[last_own + 1 :] if marker in f.filename]
    if not inside:
        return None
    return inside[0].name, inside[-1].name


def run_item(item):
    res = fw.Result()
    item = list(item)
    try:
        _RUNNERS[item[0]](res, item)
    except Exception as exc:  # noqa: BLE001
        where = _impl_exception(exc)
        if where is None:
            raise
        res.case(f"no_exception/{item[0]}", {"item": fw.jsonable(item), "entered": where[0], "raised_in": where[1]}, False,
                 nontrivial=True, signature=f"C04/exception/{item[0]}/{where[0]}/{type(exc).__name__}",
                 observed=f"{type(exc).__name__}: {exc}"[:300], expected="no exception on an input of the announced lattice",
                 item=item)
        res.cap(f"item {item[0]} aborted by an implementation exception; remaining cases of that item not evaluated")
    return res
