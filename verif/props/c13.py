"""C13 - the high-fidelity force model equals an independent reference at every state / epoch.

Lattice explorer on ``SpecialPerturbations._differentialEquation`` (total, per-term differences, (6,K) layouts) plus
the same through ``dynamicsFactory`` + a real ``ScenarioClock`` that already shows T elapsed seconds, plus
direct lattices on every anchored helper: Cunningham V/W and single-coefficient accelerations, coefficient loading,
third-body / SRP / relativity formulae, visible-Sun fraction, Chebyshev ephemerides (continuity over every segment edge
of the Earth-orientation span on a coarse (84 s) and a fine (1 ulp of the Julian date .. 10 s, both sides) lattice, own
Chebyshev evaluation, series index / argument consistency, batched-epoch calls in every order / multiplicity / container
against the single-epoch call, analytic Sun / Moon) and the constants the model uses.
Reference: ``verif/oracles/force_ref.py`` (algorithmically disjoint, see its docstring).
"""
from __future__ import annotations

import itertools
import math
from datetime import datetime, timedelta

import numpy as np

from verif import framework as fw
from verif import scen  # installs the in-process fake ray before resonaate is imported

from verif.oracles import force_ref as fr

from resonaate.common.labels import GeopotentialModel
from resonaate.data import setDBPath
from resonaate.dynamics import dynamicsFactory
from resonaate.dynamics import special_perturbations as sp_mod
from resonaate.dynamics.special_perturbations import SpecialPerturbations, calcSatRatio
from resonaate.physics import constants as const
from resonaate.physics.bodies import Earth, Jupiter, Moon, Saturn, Sun, Venus
from resonaate.physics.bodies import third_body as tb_mod
from resonaate.physics.bodies.gravitational_potential import (
    getNonSphericalHarmonics,
    loadGeopotentialCoefficients,
    nonSphericalAcceleration,
)
from resonaate.physics.sensor_utils import calculateIncidentSolarFlux, calculateSunVizFraction
from resonaate.physics.time.stardate import datetimeToJulianDate
from resonaate.physics.transforms.methods import ecef2eci
from resonaate.scenario.clock import ScenarioClock
from resonaate.scenario.config.agent_config import AgentConfig
from resonaate.scenario.config.geopotential_config import GeopotentialConfig
from resonaate.scenario.config.perturbations_config import PerturbationsConfig
from resonaate.scenario.config.propagation_config import PropagationConfig

PROPERTY = "C13"
LEVEL = "model_checking"
RULE = (
    "Every point of the announced lattices is evaluated (no sampling; VERIF_SEED only picks which calendar day / which "
    "32-day kernel edge / grid phase). total: _differentialEquation at every (coefficient file x (degree,order) x "
    "altitude x latitude x longitude x epoch) and every (third-body subset x SRP x GR x altitude x Sun-geometry class x "
    "epoch) against point mass + geopotential gradient + direct third-body + cannonball SRP x visible fraction + "
    "Schwarzschild term, each present exactly when configured; no_field: the same (third-body subset x SRP x GR x "
    "altitude x Sun-geometry class) lattice with a geopotential of degree/order (0,0), (1,0), (1,1) - no non-central term, so "
    "the derivative must be point mass + exactly the configured perturbations (also: nothing configured = pure two-body) - "
    "at 3 epochs (seeded day, 4-day series boundary, off-grid) x all 5 altitudes, total and term subchecks with their own "
    "signatures; term: difference of two evaluations that differ in one "
    "switch equals the oracle term; batch: (6,K) layouts with every state in every column equal the K=1 result, and every "
    "ordered K-tuple with repeats (K = 2..4) of three states of different shadow class / altitude + every permutation of "
    "four (first and last column alike with a different one between them, descending, doubled), every column against "
    "its K=1 evaluation and the reference; direct "
    "lattices on V/W, single-coefficient accelerations (every m<=n<=N), coefficient loading (every row of every file), "
    "third-body / relativity / SRP formulae, visible-Sun fraction through umbra/penumbra/sunlit, Chebyshev ephemerides at "
    "every series boundary (4/8/16/32-day) of every segment and body in 2014-01-01..2022-10-04, at boundary +/- {1 ulp of "
    "the Julian date = 4e-5 s, 1e-4, 1e-3, 0.02, 0.1, 0.5, 2, 10, 84.375, 168.75} s and the boundary itself (continuity "
    "by second and first differences, own evaluation, series index/argument reconstruct the epoch, scalar/vector path); "
    "batched epochs: for each of the 5 bodies' getPosition and each of the 14 kernel segments' getSegmentPosition (and the "
    "input scaling), over a pool of 13 (thorough 25) epochs around a 32-day kernel edge that holds, for every series length, "
    "epochs of one series and of other series: every ordered tuple with repeats of length 1, 2, 3, every 4-tuple of a "
    "5-epoch and 5-tuple of a 3-epoch sub-pool, the whole pool ascending / descending / rotated / interleaved / palindrome "
    "/ doubled, and list / tuple / ndarray / strided and reversed views / 0-d array / numpy scalar / float containers - "
    "each row bitwise equal to the single-epoch call and within the own-evaluation tolerance of the reference, shape "
    "(N,3) | (3,), input untouched; "
    "the epoch alphabet of the total/term lattices contains instants 1 ulp / 1 ms / 50 ms / 0.3 s / 1 s before and 1 ms / "
    "50 ms after a 4-, 16- and 32-day series boundary, and the calendar branch points of the Julian date -> calendar "
    "conversion behind the Earth-orientation row / sidereal angle: 30 Dec 12:00, 31 Dec 05:59:30 / 06:00:30 / 12:00 / "
    "23:59:30 and 1 Jan 00:00:30 of the leap years 2016 and 2020 and of a common year (thorough: every year 2014-2021), "
    "31 Dec 18:00:30 of both leap years, both sides (30 s) of the year-estimate threshold of 31 Dec 2014 / 2017 / 2018 / "
    "2021 (18:00 / 12:00 / 18:00 / 12:00), 31 Dec 2019 23:59:30, 31 Jan 23:59:30 / 1 Feb 00:00:30 / 29 Feb 12:00 / 1 Mar "
    "00:00:30 of a leap year, 28 Feb 23:59:30 / 1 Mar 00:00:30 of a common year, last and first half minute of an "
    "ordinary day - each reached from a start 3 h or 8 h earlier (previous day / year), all of them in the perturbation "
    "lattice (quick: at 200 km / 800 km / GEO, tesseral field at >= 2 of them; thorough: all 5 altitudes, >= 3), eight of them in the geopotential lattice, two in the (6,K) "
    "lattices, one in the layout lattice; factory: the dynamics object built by the real dynamicsFactory from a real "
    "ScenarioClock (in-memory epoch table) ticked to T in {0, 300, 600, 3600, 10800, 86400, 259200} s for 4 scenario "
    "starts (seeded day, first EOP day, 30 Dec 18:00 of a leap year, a start with milliseconds) x 4 configurations "
    "(4x4 + Sun/Moon + SRP + GR, 8x5 + five bodies + SRP, zonal + Moon + GR, 3x1 alone; own platform mass / area / "
    "reflectivity each) x 5 states of different Sun-geometry class / altitude, evaluated at scenario time T + {0, 150, "
    "675} s against the reference at the absolute instant start + T + t and, bitwise, against the same configuration "
    "constructed directly with the Julian date of the start; analytic Sun/Moon on "
    "a 6-hour grid, constants. non-trivial = the configuration has at least one perturbation beyond J2 (total), the "
    "oracle term exceeds 100x the comparison tolerance (term), K>=2 (batch), built at T > 0 (factory), N>=2 epochs (batched epochs), n>=2 (V/W), "
    "m>=1 or n>=3 (single "
    "coefficients, coefficient loading), "
    "partial or full occultation (fraction), instants at / next to a segment edge (ephemerides), every grid instant "
    "(analytic), every formula / constant case (direct, constants). distinct by construction (lattice points)."
)
ASSUMPTIONS = [
    "the ECEF<->ECI rotation of the oracle is the library's ecef2eci (frame correctness is C04's subject); "
    "_getRotationMatrix is checked against it, not against an own reduction",
    "Julian dates are IEEE doubles; epochs are multiples of 2^-7 day (675 s) so that they are exact; the off-grid "
    "epochs of each lattice (one generic, the others a fraction of a second next to a Chebyshev series boundary) are "
    "compared with the rotation-time uncertainty 1e-4 s x Earth rate added to the tolerance",
    "all kernel series lengths are powers of two days and all series start at JD x.5, so that boundary +/- offset dates, "
    "their difference to the boundary and the scaled Chebyshev argument are exact in doubles (checked per segment)",
    "the bundled coefficient files, kernel segment files and EOP table are the data (parsed independently by the oracle)",
    "astronomical unit and third-body GMs are taken from the library after being compared with IAU / DE430 literature "
    "values (1e-5 / 1e-7 relative); Earth GM and radius, c, solar constant and solar radius are the oracle's own literals",
    "relativity reference = Schwarzschild term of IERS Conventions (2010) eq. 10.12 (beta = gamma = 1)",
    "finite thrust is absent (dynamics.finite_thrust is None) and collision checking is not part of the property",
    "factory family: the scenario time handed to a dynamics object is seconds since the scenario START (what "
    "Agent / Scenario propagate with), whenever the object was built; ScenarioClock itself (time, start date) is trusted",
    "calendar epochs: the reference reaches the instant as start datetime + timedelta (no Julian date -> calendar "
    "conversion of its own); the 30 s offsets keep every instant 5 orders away from the 1e-4 s either-way window",
    "visible-fraction comparisons allow 32x the round-off conditioning of the textbook arccos lens formula "
    "(u b^3 / (y pi a^2): 7e-8 in mid penumbra at 200 km altitude, larger within 1e-4 of the penumbra edges, 1e-10 at GEO)",
]
EXPECT_MIN_NONTRIVIAL = 3000

EPS = 2.220446049250313e-16
MODELS = ("egm96.txt", "egm2008.txt", "GGM03S.txt", "jgm3.txt")
NM_QUICK = [(2, 0), (2, 2), (3, 1), (4, 4), (8, 5), (20, 0), (20, 20), (3, 5)]
ALT_RADII = [fr.R_EARTH + 200.0, fr.R_EARTH + 800.0, fr.R_EARTH + 20200.0, fr.R_EARTH + 35786.0, 10.0 * fr.R_EARTH]
LATS = [-90.0, -30.0, 0.0, 60.0, 90.0]
LONS = [0.0, 120.0, -60.0]
LIB_BODY = {"sun": Sun, "moon": Moon, "jupiter": Jupiter, "saturn": Saturn, "venus": Venus}
LOW_DEGREE_ORDER = [(0, 0), (1, 0), (1, 1)]  # geopotential truncations without any non-central term (n >= 2 needed)
LOW_EPOCHS = ("seed_day", "edge4_at", "off_grid")  # epochs of the no-field perturbation lattice (all 5 altitudes each)
GEOMS = ["sunside", "perpendicular", "far_lit", "edge_lit", "pen_0.9", "pen_0.5", "pen_0.1", "edge_dark", "umbra_axis"]
SAT_RATIOS = [0.02, 0.5, 0.004]
JD_EOP_LO = 2456658.5  # 2014-01-01 00:00 (first EOP row)
JD_EOP_HI = 2459857.5  # 2022-10-05 00:00 (end of the last EOP row's day)
KERNEL_JD0 = 2433264.5
STEP = 675.0  # s = 2^-7 day: exactly representable increments of a Julian date
OFFGRID_ROT_TOL = 1.0e-4 * 7.292115e-5  # rad: JD resolution 4e-5 s (+ calendar arithmetic) x Earth rotation rate


def worker_init():
    scen.fresh()


# ------------------------------------------------------------------------------------------------ epochs
def _seed_edge32(seed):
    # 32-day kernel edges inside the EOP span: k = 732 .. 831  (JD0 + 32 k)
    return KERNEL_JD0 + 32.0 * (732 + (seed * 37 + 11) % 99)


def _jd_to_datetime(jd):
    # exact for the epochs used here (whole multiples of 675 s)
    days = jd - 2451544.5  # since 2000-01-01 00:00
    return datetime(2000, 1, 1) + timedelta(seconds=round(days * 86400.0))


def _epochs(tier, seed):
    """(label, start datetime iso, t seconds, on_grid)"""
    e32 = _jd_to_datetime(_seed_edge32(seed))
    seed_day = datetime(2014, 1, 2) + timedelta(days=(seed * 7919 + 1234) % 3190, seconds=33 * STEP)
    out = [
        ("first_eop_day", datetime(2014, 1, 1, 0, 0, 0), 0.0, True),
        ("last_eop_day", datetime(2022, 10, 4, 23, 37, 30), STEP, True),
        ("leap_day", datetime(2016, 2, 29, 12, 0, 0), 2 * STEP, True),
        ("year_and_leap_second_rollover", datetime(2016, 12, 31, 23, 48, 45), STEP, True),
        ("mid_2021", datetime(2021, 3, 30, 16, 30, 0), 0.0, True),
        ("seed_day", seed_day, 3 * STEP, True),
        ("edge32_before", e32 - timedelta(seconds=STEP), 0.0, True),
        ("edge32_at", e32 - timedelta(seconds=STEP), STEP, True),
        ("edge32_after", e32 - timedelta(seconds=STEP), 2 * STEP, True),
        ("edge4_at", e32 + timedelta(days=4) - timedelta(seconds=2 * STEP), 2 * STEP, True),
        ("edge16_at", e32 + timedelta(days=16) - timedelta(seconds=STEP), STEP, True),
        ("multi_day_offset", datetime(2018, 5, 5, 0, 0, 0), 3 * 86400.0 + 5 * STEP, True),
        ("off_grid", datetime(2019, 7, 4, 3, 22, 30), 1234.567, False),
    ]
    # a fraction of a second next to a series boundary (start 8 h earlier on a whole second, like a scenario start):
    # 4-day boundary = Moon / Earth-centre series, 16-day = Sun / Earth-Moon barycentre / Venus, 32-day = Jupiter / Saturn
    # and all the shorter ones.  Offsets are staggered so that a window proportional to the series length (e.g. the last
    # 5e-7 of a series = 0.17 / 0.69 / 1.38 s) is entered by the longest series only, and by all of them at 1 ms / 1 ulp.
    e4, e16 = e32 + timedelta(days=4), e32 + timedelta(days=16)
    h8 = timedelta(hours=8)
    out += [
        ("edge4_minus_50ms", e4 - h8, 28800.0 - 0.05, False),
        ("edge4_plus_50ms", e4 - h8, 28800.0 + 0.05, False),
        ("edge16_minus_300ms", e16 - h8, 28800.0 - 0.3, False),
        ("edge32_minus_1s", e32 - h8, 28800.0 - 1.0, False),
        ("edge32_minus_1ms", e32 - h8, 28800.0 - 0.001, False),
        ("edge32_plus_1ms", e32 - h8, 28800.0 + 0.001, False),
        # 3e-5 s < 1 ulp of the Julian date (4.02e-5 s) but > ulp/2: start + t/86400 is the last date before the edge
        ("edge16_minus_1ulp", e16 - h8, 28800.0 - 3.0e-5, False),
    ]
    if tier == "thorough":
        for k in range(12):
            d = datetime(2014, 1, 2) + timedelta(days=(seed * 7919 + 1234 + 263 * (k + 1)) % 3190, seconds=(7 * k + 3) * STEP)
            out.append((f"seed_day_{k + 1}", d, ((k % 4) + 1) * STEP, True))
        for k in range(5):
            ek = _jd_to_datetime(KERNEL_JD0 + 32.0 * (732 + (seed * 37 + 11 + 19 * (k + 1)) % 99))
            out.append((f"edge32_at_{k + 1}", ek - timedelta(seconds=STEP), STEP, True))
            out.append((f"edge32_minus_{(1, 20, 400)[k % 3]}ms_{k + 1}", ek - h8, 28800.0 - (0.001, 0.02, 0.4)[k % 3], False))
            out.append((f"edge4_minus_{(100, 5)[k % 2]}ms_{k + 1}", ek + timedelta(days=4 * (k + 1)) - h8, 28800.0 - (0.1, 0.005)[k % 2], False))
    out += _calendar_epochs(tier, seed)
    return [(lab, st.isoformat(), t, g) for lab, st, t, g in out]


# Calendar branch points of the Julian date -> (year, month, day) conversion that the force model goes through for the
# Earth-orientation row and the sidereal angle.  The conversion estimates the year as 1900 + floor(days / 365.25) and
# steps back one year when the estimate is already the next year: that happens on 31 December from 06:00 (leap year),
# 12:00 (leap year + 1), 18:00 (leap year + 2), never (leap year + 3); month / day come from a leap-year dependent table
# (February).  A conversion that is one day (0.9856 deg of sidereal angle, another EOP row) or one month off shows in the
# tesseral part of the geopotential only, and only at such instants.
CAL_LEAP_YEARS = (2016, 2020)
CAL_ALT_QUICK = (0, 1, 3)  # radius indices of the calendar epochs in the quick perturbation lattice (200 km, 800 km, GEO)
CAL_COMMON_YEARS = (2017, 2018, 2019, 2021)


def _cal_entry(label, instant: datetime):
    """Epoch entry that reaches `instant` the way a running scenario does (start some hours earlier, often on the previous
    day / year): multiples of 675 s from a start 3 h earlier (exact Julian dates), the others from a start 8 h earlier."""
    sec = instant.hour * 3600 + instant.minute * 60 + instant.second
    if instant.microsecond == 0 and sec % STEP == 0:  # 10800 s = 16 x 675 s: the start is on the grid as well
        return (label, instant - timedelta(seconds=10800), 10800.0, True)
    return (label, instant - timedelta(hours=8), 28800.0, False)


def _year_end_instants(year):
    return [
        (f"{year}_dec30_1200", datetime(year, 12, 30, 12, 0, 0)),
        (f"{year}_dec31_0559_30", datetime(year, 12, 31, 5, 59, 30)),
        (f"{year}_dec31_0600_30", datetime(year, 12, 31, 6, 0, 30)),
        (f"{year}_dec31_1200", datetime(year, 12, 31, 12, 0, 0)),
        (f"{year}_dec31_2359_30", datetime(year, 12, 31, 23, 59, 30)),
        (f"{year + 1}_jan01_0000_30", datetime(year + 1, 1, 1, 0, 0, 30)),
    ]


def _calendar_epochs(tier, seed):
    """(label, start datetime, t seconds, on_grid) - labels start with 'cal_'."""
    out = []
    common = CAL_COMMON_YEARS[seed % 4]
    years = list(CAL_LEAP_YEARS) + [common]
    if tier == "thorough":
        years = list(range(2014, 2022))
    for y in years:
        for lab, inst in _year_end_instants(y):
            out.append(_cal_entry(f"cal_{lab}", inst))
    # the year-estimate threshold of every other year of the span (both sides), where the step-back branch starts
    for y, hh in ((2014, 18), (2017, 12), (2018, 18), (2021, 12)):
        out.append(_cal_entry(f"cal_{y}_dec31_{hh - 1}59_30", datetime(y, 12, 31, hh - 1, 59, 30)))
        out.append(_cal_entry(f"cal_{y}_dec31_{hh}00_30", datetime(y, 12, 31, hh, 0, 30)))
    if tier != "thorough" and common != 2019:
        out.append(_cal_entry("cal_2019_dec31_2359_30", datetime(2019, 12, 31, 23, 59, 30)))
    # the middle of the step-back window of the leap years
    for y in CAL_LEAP_YEARS:
        out.append(_cal_entry(f"cal_{y}_dec31_1800_30", datetime(y, 12, 31, 18, 0, 30)))
    # February: of a leap year (both in the thorough tier) and of a common year
    leap = CAL_LEAP_YEARS[seed % 2]
    for y in (CAL_LEAP_YEARS if tier == "thorough" else (leap,)):
        out.append(_cal_entry(f"cal_{y}_jan31_2359_30", datetime(y, 1, 31, 23, 59, 30)))
        out.append(_cal_entry(f"cal_{y}_feb01_0000_30", datetime(y, 2, 1, 0, 0, 30)))
        out.append(_cal_entry(f"cal_{y}_feb29_1200", datetime(y, 2, 29, 12, 0, 0)))
        out.append(_cal_entry(f"cal_{y}_mar01_0000_30", datetime(y, 3, 1, 0, 0, 30)))
    out.append(_cal_entry(f"cal_{common}_feb28_2359_30", datetime(common, 2, 28, 23, 59, 30)))
    out.append(_cal_entry(f"cal_{common}_mar01_0000_30", datetime(common, 3, 1, 0, 0, 30)))
    # last and first half minute of an ordinary day
    day = datetime(2014, 1, 2) + timedelta(days=(seed * 7919 + 1234) % 3190)
    if (day.month, day.day) in ((12, 31), (12, 30), (1, 1), (2, 28), (2, 29), (3, 1), (1, 31), (2, 1)):
        day += timedelta(days=9)
    out.append(_cal_entry("cal_ordinary_day_2359_30", datetime(day.year, day.month, day.day, 23, 59, 30)))
    out.append(_cal_entry("cal_ordinary_day_0000_30", datetime(day.year, day.month, day.day, 0, 0, 30) + timedelta(days=1)))
    return out


def _is_cal(e):
    return str(e[0]).startswith("cal_")


def _cal_geo_labels(tier, seed):
    """Calendar epochs of the geopotential lattice (the first two also of the batch lattices)."""
    common, leap = CAL_COMMON_YEARS[seed % 4], CAL_LEAP_YEARS[seed % 2]
    return [
        "cal_2020_dec31_1200",
        "cal_2016_dec31_2359_30",
        "cal_2020_dec31_0600_30",
        "cal_2016_dec31_0559_30",
        "cal_2021_jan01_0000_30",
        f"cal_{common}_dec31_1200",
        f"cal_{leap}_feb29_1200",
        f"cal_{leap}_mar01_0000_30",
    ]


def _ref_jd(dt: datetime) -> float:
    return (dt.toordinal() + 1721424.5) + (dt.hour * 3600 + dt.minute * 60 + dt.second + dt.microsecond * 1e-6) / 86400.0


_ROT = {}


def _rotation(dt: datetime):
    """ECEF -> ECI matrix from the library's public transform (C04's subject)."""
    key = dt.isoformat()
    if key not in _ROT:
        m = np.zeros((3, 3))
        for i in range(3):
            e = np.zeros(6)
            e[i] = 1.0
            m[:, i] = ecef2eci(e, dt)[:3]
        if len(_ROT) > 64:
            _ROT.clear()
        _ROT[key] = m
    return _ROT[key]


def _mu_lib(body):
    return float(LIB_BODY[body].mu)


# ------------------------------------------------------------------------------------------------ oracle assembly
def _oracle_terms(start: datetime, t: float, r, v, model, degree, order, ratio):
    dt = start + timedelta(seconds=t)
    jd = _ref_jd(dt)
    rot = _rotation(dt)
    r = np.asarray(r, dtype=float)
    r_ecef = rot.T @ r
    terms = {
        "pm": fr.point_mass(r),
        "ns": rot @ fr.geopotential_accel(r_ecef, model, degree, order),
        "gr": fr.relativity_accel(r, v),
    }
    # An epoch within the Julian-date resolution of a UTC midnight: the Earth-orientation table is a step function of
    # the calendar day, and whether the instant (known to 4e-5 s) is reduced with the row of the day that ends or of the
    # day that begins is within rounding of that threshold -> either row is admissible (classified either-way).
    alt = _midnight_alt(dt)
    if alt is not None:
        rot2 = _rotation(alt)
        terms["ns_alt"] = rot2 @ fr.geopotential_accel(rot2.T @ r, model, degree, order)
    sun = fr.body_position(jd, "sun")
    for b in fr.BODIES:
        pos = sun if b == "sun" else fr.body_position(jd, b)
        terms[b] = fr.third_body_accel(r, pos, _mu_lib(b))
    terms["srp"] = fr.srp_accel(r, sun, ratio, float(const.AU2KM))
    terms["nu"] = fr.sun_visible_fraction(r, sun)[0]
    # round-off sensitivity of the textbook penumbra formula at this geometry, as an acceleration (see oracle docstring)
    terms["srp_noise"] = _srp_noise(r, sun, ratio)
    return terms


def _midnight_alt(dt: datetime):
    """The following UTC midnight if `dt` is less than 1e-4 s (JD resolution + calendar arithmetic) before it."""
    mid = datetime(dt.year, dt.month, dt.day) + timedelta(days=1)
    return mid if 0.0 < (mid - dt).total_seconds() <= 1.0e-4 else None


def _err_total(res, got_a, want, terms, tol):
    """Largest component difference to the reference; next to a midnight either day's orientation row is admissible."""
    err = fw.maxabs(got_a, want)
    if "ns_alt" in terms:
        err2 = fw.maxabs(got_a, want - terms["ns"] + terms["ns_alt"])
        if (err <= tol) != (err2 <= tol):
            res.either_way += 1
        err = min(err, err2)
    return err


def _norm(x):
    return float(np.sqrt(np.sum(np.asarray(x, dtype=float) ** 2)))


def _srp_full(r, sun, ratio):
    """Magnitude of the unshadowed SRP acceleration (km/s^2)."""
    d = _norm(np.asarray(sun) - np.asarray(r))
    return fr.SOLAR_FLUX / fr.C_LIGHT * ratio * (float(const.AU2KM) / d) ** 2 * 1e-3


def _srp_noise(r, sun, ratio):
    # 32 unit round-offs of the arccos argument in Montenbruck's eq. 3.92 (inherent conditioning, not a defect)
    return 32.0 * fr.sun_fraction_conditioning(r, sun) * _srp_full(r, sun, ratio)


def _expected(terms, bodies, srp, gr):
    tot = terms["pm"] + terms["ns"]
    pert = _norm(terms["ns"])
    for b in bodies:
        tot = tot + terms[b]
        pert += _norm(terms[b])
    if srp:
        tot = tot + terms["srp"]
        pert += _norm(terms["srp"]) + terms["srp_noise"] * 1e11
    if gr:
        tot = tot + terms["gr"]
        pert += _norm(terms["gr"])
    return tot, pert


def _tol_total(terms, pert, on_grid):
    # 32 ulp of the central term: the code forms -mu/|r|^3 r + sum(perturbations) in doubles (norm, cube, divide,
    # multiply, 4-5 additions: <= ~6 ulp of the largest addend), margin x5.  1e-11 of the perturbation magnitudes:
    # measured agreement of the two geopotential algorithms is 2e-15 relative, third-body/SRP/GR formulae 1e-14; the
    # smallest defect to expose (one degree-20 coefficient, 1e-6 of |a_ns|; a planet, >= 30x the ulp floor) is 5 orders
    # above.  Off-grid epochs add the sidereal-angle uncertainty of a double Julian date (C05 assumption).
    tol = 32 * EPS * _norm(terms["pm"]) + 1e-11 * pert
    if not on_grid:
        # one ulp of the Julian date (4e-5 s): sidereal angle for the geopotential, <= 1e-9 relative for the bodies
        # (Moon 1 km/s over 384400 km, x3 for the inverse cube)
        tol += OFFGRID_ROT_TOL * _norm(terms["ns"]) + 1e-9 * sum(_norm(terms[b]) for b in fr.BODIES)
    return tol


def _dyn(start: datetime, model, degree, order, bodies, srp, gr, ratio):
    return SpecialPerturbations(
        datetimeToJulianDate(start),
        GeopotentialConfig(model=model, degree=degree, order=order),
        PerturbationsConfig(third_bodies=list(bodies), solar_radiation_pressure=bool(srp), general_relativity=bool(gr)),
        ratio,
    )


def _deriv(res, subcheck, case, item, dyn_args, t, state):
    """One evaluation of the function under test; an exception raised by it is a violation, not a harness error."""
    res.extra["derivative_evaluations"] = res.extra.get("derivative_evaluations", 0) + 1
    try:
        return _dyn(*dyn_args)._differentialEquation(t, state)
    except Exception as exc:  # noqa: BLE001
        res.case(
            subcheck,
            case,
            False,
            signature=f"C13/exception/{subcheck}/{type(exc).__name__}",
            observed=f"{type(exc).__name__}: {exc}"[:300],
            item=item,
        )
        return None


def _circ_velocity(r, k=0):
    """A velocity alphabet indexed by k: prograde circular, retrograde circular, eccentric with radial part, polar."""
    r = np.asarray(r, dtype=float)
    rn = _norm(r)
    rh = r / rn
    z = np.array([0.0, 0.0, 1.0])
    t1 = np.cross(z, rh)
    if _norm(t1) < 1e-6:
        t1 = np.cross(np.array([1.0, 0.0, 0.0]), rh)
    t1 = t1 / _norm(t1)
    t2 = np.cross(rh, t1)
    vc = math.sqrt(fr.MU_EARTH / rn)
    k = k % 4
    if k == 0:
        return vc * t1
    if k == 1:
        return -vc * t1
    if k == 2:
        return vc * (0.9 * t1 + 0.5 * rh + 0.2 * t2)
    return vc * (1.15 * t2 - 0.35 * rh)


# ------------------------------------------------------------------------------------------------ items
def _nm_list(tier):
    if tier == "thorough":
        nm = [(n, m) for n in range(2, 9) for m in range(0, n + 1)]
        nm += [x for x in NM_QUICK if x not in nm] + [(0, 0), (1, 1), (36, 36), (70, 70)]
        return nm
    return list(NM_QUICK)


def _subsets(tier):
    if tier == "thorough":
        out = []
        for k in range(6):
            out += [list(c) for c in itertools.combinations(fr.BODIES, k)]
        return out
    return [[]] + [[b] for b in fr.BODIES] + [list(fr.BODIES)]


def items(tier, seed):
    out = []
    ep = _epochs(tier, seed)
    by = {e[0]: e for e in ep}
    geo_eps = [by["seed_day"], by["year_and_leap_second_rollover"]]
    if tier == "thorough":
        geo_eps += [by["first_eop_day"], by["last_eop_day"], by["off_grid"], by["seed_day_3"]]
    else:
        geo_eps.append(by["off_grid"])
    nm = _nm_list(tier)
    cal_geo = [by[lab] for lab in _cal_geo_labels(tier, seed)]
    geo_eps += cal_geo
    for e in geo_eps:
        for model in MODELS:
            if e[0] == "off_grid" and tier != "thorough" and model != "egm2008.txt":
                continue
            if _is_cal(e) and tier != "thorough" and model != MODELS[cal_geo.index(e) % 4]:
                continue
            for ai in range(len(ALT_RADII)):
                for chunk in fw.chunked(nm, 16):
                    out.append(("geopot", list(e), model, ai, [list(x) for x in chunk]))
    subsets = _subsets(tier)
    for ei, e in enumerate(ep):
        for ai in range(len(ALT_RADII)):
            if _is_cal(e) and tier != "thorough" and ai not in CAL_ALT_QUICK:
                continue
            out.append(("perturb", list(e), ai, ei, subsets))
    # no gravity field at all (degree 0 / 1: the harmonic sum is empty) crossed with every perturbation switch: the
    # configurations in which a "nothing but two-body motion" shortcut would be taken must still carry third bodies, SRP, GR
    for ei, e in enumerate(ep):
        if e[0] not in LOW_EPOCHS:
            continue
        for ai in range(len(ALT_RADII)):
            for nm_low in LOW_DEGREE_ORDER:
                out.append(("perturb", list(e), ai, ei, subsets, list(nm_low)))
    ks = [1, 2, 3, 4] + ([5, 8] if tier == "thorough" else [])
    cal_batch = [by[lab] for lab in _cal_geo_labels(tier, seed)[:2]]
    for k in ks:
        for ei, e in enumerate(ep if tier == "thorough" else ep[:6] + cal_batch):
            out.append(("batch", list(e), k, ei))
    nmax_h = 40 if tier == "thorough" else 21
    for chunk in fw.chunked(list(range(0, nmax_h + 1)), 3):
        out.append(("harmonics", chunk, nmax_h))
    for model in MODELS:
        out.append(("coeff", model))
    for e in ep:
        if not _is_cal(e):  # formulae at given body positions: no Julian date -> calendar conversion involved
            out.append(("direct", list(e)))
    for ai in range(len(ALT_RADII)):
        out.append(("sunfrac", ai, seed))
    for body in fr.BODIES:
        nchunk = 4 if body in ("sun", "moon") else 2
        span = (JD_EOP_HI - JD_EOP_LO) / nchunk
        for c in range(nchunk):
            out.append(("ephem_edges", body, JD_EOP_LO + c * span, JD_EOP_LO + (c + 1) * span))
    for seg in range(14):
        out.append(("ephem_segment", seg, seed))
    for target in _batch_targets():
        out.append(("ephem_batch", target, seed, tier))
    lay_eps = [by["seed_day"], by["edge4_at"]] if tier != "thorough" else ep[:13]
    lay_eps = lay_eps + cal_batch[:1] + (cal_geo[2:] if tier == "thorough" else [])
    for ei, e in enumerate(lay_eps):
        out.append(("batch_layouts", list(e), ei))
    for fi in range(len(_factory_starts(seed))):
        for T in FACTORY_T:
            out.append(("factory", fi, T, seed))
    for year in range(2014, 2023):
        out.append(("ephem_analytic", year, seed))
    out.append(("constants",))
    out.append(("oracle_selfcheck", seed))
    return out


def bounds(tier, seed):
    return {
        "coefficient_files": list(MODELS),
        "degree_order": [list(x) for x in _nm_list(tier)],
        "radii_km": ALT_RADII,
        "latitudes_deg": LATS,
        "longitudes_deg": LONS,
        "epochs": [[e[0], e[1], e[2]] for e in _epochs(tier, seed)],
        "calendar_epochs": {
            "perturbation_lattice": [e[0] for e in _epochs(tier, seed) if _is_cal(e)],
            "perturbation_lattice_radii_km": [ALT_RADII[i] for i in (range(5) if tier == "thorough" else CAL_ALT_QUICK)],
            "geopotential_lattice": _cal_geo_labels(tier, seed),
            "batch_lattices": _cal_geo_labels(tier, seed)[:2],
            "layout_lattice": _cal_geo_labels(tier, seed)[:1] + (_cal_geo_labels(tier, seed)[2:] if tier == "thorough" else []),
        },
        "factory": {
            "elapsed_clock_time_s": list(FACTORY_T),
            "evaluated_at_T_plus_s": list(FACTORY_DT),
            "clock_step_s": "%g (T <= 10800 s), 3600 above" % FACTORY_CLOCK_STEP,
            "starts": [[lab, st.isoformat()] for lab, st, _ in _factory_starts(seed)],
            "configurations": [list(c[:3]) + ["+".join(c[3]) or "none", c[4], c[5], list(c[6]), c[7]] for c in FACTORY_CFG],
            "states": [[g, ALT_RADII[ai]] for g, ai in FACTORY_STATES],
        },
        "no_field_lattice": {
            "degree_order": [list(x) for x in LOW_DEGREE_ORDER],
            "epochs": list(LOW_EPOCHS),
            "radii_km": ALT_RADII,
            "crossed_with": "every third-body subset x SRP x GR x Sun-geometry class of the perturbation lattice",
        },
        "third_body_subsets": len(_subsets(tier)),
        "srp": [False, True],
        "gr": [False, True],
        "sun_geometry_classes": GEOMS,
        "sat_ratios_m2_per_kg": SAT_RATIOS,
        "batch_K": [1, 2, 3, 4] + ([5, 8] if tier == "thorough" else []),
        "harmonic_terms": "every m <= n <= %d (V/W) and every single coefficient C_nm / S_nm, 2 <= n <= %d" % ((40, 40) if tier == "thorough" else (21, 21)),
        "ephemeris_span_jd": [JD_EOP_LO, JD_EOP_HI],
        "ephemeris_edges": "every series boundary of every segment used by each body (4-day grid, 799 per body) and of each "
        "of the 14 kernel segments; coarse lattice: 5 instants 84.375 s apart; fine lattice: boundary -/+ the offsets below",
        "ephemeris_near_boundary_offsets_s": [JD_ULP * 86400.0] + list(NEAR_SEC),
        "ephemeris_near_boundary_instants_per_edge": len(_near_instants(JD_EOP_LO + 2.0)),
        "body_speed_bounds_km_s": V_MAX,
        "near_boundary_epochs_in_total_and_term_lattices": [e[0] for e in _epochs(tier, seed) if e[0].startswith("edge") and not e[3]],
        "analytic_grid": "6 h over the whole span",
        "batch_layouts": "every ordered K-tuple with repeats (K = 2, 3, 4) of three states of different Sun-geometry "
        "class and altitude (sunlit LEO, half penumbra at 800 km, umbra at GEO) + every permutation of those and a fourth "
        "(sunlit, 10 Earth radii): %d layouts per epoch, every column against its K=1 evaluation and the reference" % len(_layouts()),
        "batched_epoch_targets": _batch_targets(),
        "batched_epoch_pool_offsets_days_from_32d_edge": list(_batch_offsets(tier)),
        "batched_epoch_arrays": "per target: every ordered tuple with repeats of length 1, 2, 3 of the pool (list); every "
        "ordered 4-tuple of the sub-pool %s and 5-tuple of %s; whole pool ascending / descending / every rotation / "
        "interleaved / palindrome / twice / each epoch doubled; every ordered tuple of length 1..3 of the 5-epoch sub-pool "
        "as %s (+ 0-d array, numpy scalar, float for one epoch): %d arrays"
        % (list(BATCH_SUB4), list(BATCH_SUB3), list(BATCH_CONTAINERS), len(_batch_arrays(len(_batch_offsets(tier))))),
    }


# ------------------------------------------------------------------------------------------------ geopot lattice
def _run_geopot(res, item):
    _, e, model, ai, nms = item
    label, iso, t, on_grid = e
    start = datetime.fromisoformat(iso)
    dt = start + timedelta(seconds=t)
    rot = _rotation(dt)
    radius = ALT_RADII[ai]
    k = 0
    for lat in LATS:
        for lon in LONS:
            la, lo = math.radians(lat), math.radians(lon)
            r_ecef = radius * np.array([math.cos(la) * math.cos(lo), math.cos(la) * math.sin(lo), math.sin(la)])
            if abs(lat) == 90.0:
                r_ecef[0] = r_ecef[1] = 0.0
            r = rot @ r_ecef
            v = _circ_velocity(r, k)
            k += 1
            state = np.concatenate((r, v))
            pm = fr.point_mass(r)
            r_ecef_o = rot.T @ r
            for n, m in nms:
                case = {"model": model, "degree": n, "order": m, "radius_km": radius, "lat": lat, "lon": lon, "epoch": label}
                got = _deriv(res, "total/geopotential", case, ("geopot", e, model, ai, [[n, m]]),
                             (start, model, n, m, [], False, False, 0.02), t, state.copy())
                if got is None:
                    continue
                ns = rot @ fr.geopotential_accel(r_ecef_o, model, n, m)
                want = pm + ns
                tol = 32 * EPS * _norm(pm) + 1e-11 * _norm(ns) + (0.0 if on_grid else OFFGRID_ROT_TOL * _norm(ns))
                err = fw.maxabs(got[3:], want)
                res.case(
                    "total/geopotential",
                    case,
                    bool(err <= tol) and bool(np.all(np.isfinite(got))),
                    nontrivial=(n, m) != (2, 0) and n >= 2,
                    signature=f"C13/total/geopotential/{'pole' if abs(lat) == 90 else 'offpole'}",
                    observed={"a": got[3:], "err": err, "tol": tol},
                    expected=want,
                    outcome="agree" if err <= tol else "differ",
                    item=("geopot", e, model, ai, [[n, m]]),
                )
                res.case(
                    "total/velocity_rows",
                    case,
                    bool(np.array_equal(got[:3], v)),
                    signature="C13/total/velocity_rows",
                    observed=got[:3],
                    expected=v,
                    item=("geopot", e, model, ai, [[n, m]]),
                )
                res.observe(got)


# ------------------------------------------------------------------------------------------------ perturbation lattice
def _geometry_state(geom, radius, sun, k):
    """Satellite position of the named Sun-geometry class (angle gamma at the satellite between Earth centre and Sun)."""
    s_hat = sun / _norm(sun)
    u = np.cross(s_hat, np.array([0.0, 0.0, 1.0]))
    u = u / _norm(u)
    w = np.cross(s_hat, u)
    az = (0.7 + 2.1 * k) % (2 * math.pi)
    lateral = math.cos(az) * u + math.sin(az) * w

    def pos(theta):
        return radius * (-math.cos(theta) * s_hat + math.sin(theta) * lateral)

    if geom == "sunside":
        return pos(math.radians(160.0))
    if geom == "perpendicular":
        return pos(math.radians(90.0))
    if geom == "umbra_axis":
        # 1e-4 rad off the exact axis: the exactly collinear case is a lattice point of the sun_fraction subcheck only
        return pos(1.0e-4)

    def target(theta):
        p = pos(theta)
        _, a, b, c = fr.sun_visible_fraction(p, sun)
        want = {
            "far_lit": (a + b) * 1.5,
            "edge_lit": (a + b) + 0.02 * a,
            "pen_0.9": (b - a) + 2 * a * 0.9,
            "pen_0.5": (b - a) + 2 * a * 0.5,
            "pen_0.1": (b - a) + 2 * a * 0.1,
            "edge_dark": (b - a) - 0.02 * a,
        }[geom]
        return c - want

    lo, hi = 0.0, math.radians(120.0)
    for _ in range(80):
        mid = 0.5 * (lo + hi)
        if target(mid) < 0:
            lo = mid
        else:
            hi = mid
    return pos(0.5 * (lo + hi))


def _run_perturb(res, item):
    _, e, ai, ei, subsets = item[:5]
    low = [int(x) for x in item[5]] if len(item) > 5 else None
    label, iso, t, on_grid = e
    start = datetime.fromisoformat(iso)
    dt = start + timedelta(seconds=t)
    jd = _ref_jd(dt)
    radius = ALT_RADII[ai]
    model = MODELS[ei % 4]
    degree, order = low if low is not None else [(4, 4), (2, 0), (8, 5), (3, 1)][(ei + ai) % 4]
    sfx = "/no_field" if low is not None else ""  # own signatures: degree < 2, the force is two-body + perturbations only

    def mk(bl):
        return ("perturb", e, ai, ei, bl) + ((low,) if low is not None else ())

    sun = fr.body_position(jd, "sun")
    subsets = [list(s) for s in subsets]
    for gi, geom in enumerate(GEOMS):
        ratio = SAT_RATIOS[(gi + ai + ei) % 3]
        r = _geometry_state(geom, radius, sun, gi + ai)
        v = _circ_velocity(r, gi + ei)
        state = np.concatenate((r, v))
        terms = _oracle_terms(start, t, r, v, model, degree, order, ratio)
        nu = terms["nu"]
        want_class = {"pen_0.9": "partial", "pen_0.5": "partial", "pen_0.1": "partial", "edge_dark": "dark", "umbra_axis": "dark"}.get(geom, "lit")
        got_class = "lit" if nu == 1.0 else "dark" if nu == 0.0 else "partial"
        if want_class != got_class:
            raise RuntimeError(f"harness: geometry class {geom} produced visible fraction {nu}")
        got = {}
        base_case = {"epoch": label, "radius_km": radius, "geometry": geom, "model": model, "degree": degree, "order": order, "sat_ratio": ratio}
        for bodies in subsets:
            for srp in (0, 1):
                for gr in (0, 1):
                    key = (tuple(bodies), srp, gr)
                    case = dict(base_case, bodies="+".join(bodies) or "none", srp=bool(srp), gr=bool(gr))
                    d = _deriv(res, "total/perturbations", case, mk([bodies]),
                               (start, model, degree, order, bodies, srp, gr, ratio), t, state.copy())
                    if d is None:
                        continue
                    got[key] = d
                    want, pert = _expected(terms, bodies, srp, gr)
                    tol = _tol_total(terms, pert, on_grid)
                    err = _err_total(res, d[3:], want, terms, tol)
                    ok = bool(err <= tol) and bool(np.array_equal(d[:3], v)) and bool(np.all(np.isfinite(d)))
                    res.case(
                        "total/perturbations",
                        case,
                        ok,
                        nontrivial=bool(bodies) or bool(srp) or bool(gr) or (degree >= 2 and (degree, order) != (2, 0)),
                        signature=f"C13/total/perturbations/{'offgrid' if not on_grid else 'grid'}{sfx}",
                        observed={"a": d[3:], "err": err, "tol": tol},
                        expected=want,
                        outcome=("agree" if ok else "differ") + "/" + got_class,
                        item=mk([bodies]),
                    )
                    res.observe(d)
        # each term present exactly when configured: difference of two evaluations = oracle term
        tol_diff = 32 * EPS * _norm(terms["pm"])  # two evaluations, each within ~6 ulp of the central term

        def diff_case(name, with_key, without_key, want):
            if with_key not in got or without_key not in got:
                return
            d = got[with_key][3:] - got[without_key][3:]
            tol = tol_diff + 1e-10 * _norm(want) + (terms["srp_noise"] if name == "srp" else 0.0)
            if not on_grid:
                tol += 1e-9 * _norm(want)  # one ulp of the Julian date in the body's position
            err = fw.maxabs(d, want)
            case = dict(base_case, term=name, with_cfg=repr(with_key), without_cfg=repr(without_key))
            res.case(
                f"term/{name}",
                case,
                bool(err <= tol),
                nontrivial=_norm(want) > 100 * tol,
                signature=f"C13/term/{name}{sfx}",
                observed={"difference": d, "err": err, "tol": tol},
                expected=want,
                outcome="agree" if err <= tol else "differ",
                item=mk([list(with_key[0]), list(without_key[0])]),
            )

        for bodies in subsets:
            bt = tuple(bodies)
            for srp in (0, 1):
                for gr in (0, 1):
                    for b in fr.BODIES:
                        if b in bt:
                            less = tuple(x for x in bt if x != b)
                            diff_case(b, (bt, srp, gr), (less, srp, gr), terms[b])
                    if len(bt) == len(fr.BODIES):
                        diff_case("all_bodies", (bt, srp, gr), ((), srp, gr), sum(terms[b] for b in fr.BODIES))
            for gr in (0, 1):
                diff_case("srp", (bt, 1, gr), (bt, 0, gr), terms["srp"])
            for srp in (0, 1):
                diff_case("gr", (bt, srp, 1), (bt, srp, 0), terms["gr"])


# ------------------------------------------------------------------------------------------------ batch layouts
def _run_batch(res, item):
    _, e, k, ei = item
    label, iso, t, on_grid = e
    start = datetime.fromisoformat(iso)
    dt = start + timedelta(seconds=t)
    jd = _ref_jd(dt)
    sun = fr.body_position(jd, "sun")
    model = MODELS[(ei + 1) % 4]
    degree, order = 4, 4
    ratio = 0.02
    bodies = list(fr.BODIES)
    dyn = _dyn(start, model, degree, order, bodies, True, True, ratio)
    # pool of k distinct states (different altitude, geometry and velocity kind each)
    pool = []
    for j in range(k):
        geom = GEOMS[(3 * j + ei) % len(GEOMS)]
        r = _geometry_state(geom, ALT_RADII[(j + ei) % 5], sun, j)
        pool.append(np.concatenate((r, _circ_velocity(r, j + 1))))
    singles = [dyn._differentialEquation(t, s.copy()) for s in pool]
    res.extra["derivative_evaluations"] = res.extra.get("derivative_evaluations", 0) + 2 * k
    oracle = []
    for s in pool:
        terms = _oracle_terms(start, t, s[:3], s[3:], model, degree, order, ratio)
        want, pert = _expected(terms, bodies, 1, 1)
        oracle.append((want, _tol_total(terms, pert, on_grid), _norm(terms["pm"]), terms))
    for shift in range(k):
        cols = [pool[(j + shift) % k] for j in range(k)]
        mat = np.stack(cols, axis=1)  # (6, K)
        flat = mat.ravel()
        before = flat.copy()
        out = dyn._differentialEquation(t, flat)
        res.case(
            "batch/input_untouched",
            {"K": k, "shift": shift, "epoch": label},
            bool(np.array_equal(flat, before)) and out.shape == flat.shape and out.dtype == np.float64,
            nontrivial=k >= 2,
            signature="C13/batch/input_or_shape",
            observed={"shape": list(out.shape), "dtype": str(out.dtype)},
            item=item,
        )
        out = out.reshape(6, k)
        for j in range(k):
            src = (j + shift) % k
            single = singles[src]
            want, tol, pmn, terms = oracle[src]
            # same arithmetic on the same numbers; strided vs contiguous BLAS norm may differ in the last bit
            ok_single = fw.maxabs(out[3:, j], single[3:]) <= 8 * EPS * pmn and bool(np.array_equal(out[:3, j], single[:3]))
            ok_oracle = _err_total(res, out[3:, j], want, terms, tol) <= tol
            case = {"K": k, "column": j, "state_index": src, "shift": shift, "epoch": label}
            res.case(
                "batch/column_equals_single",
                case,
                bool(ok_single),
                nontrivial=k >= 2,
                signature="C13/batch/column_vs_single",
                observed=out[:, j],
                expected=single,
                outcome="same" if ok_single else "differs",
                item=item,
            )
            res.case(
                "batch/column_equals_reference",
                case,
                bool(ok_oracle),
                nontrivial=k >= 2,
                signature="C13/batch/column_vs_reference",
                observed=out[3:, j],
                expected=want,
                item=item,
            )
        res.observe(out)


# ------------------------------------------------------------------------------------------------ batch layouts (orderings)
_LAYOUT_STATES = (("sunside", 0), ("pen_0.5", 1), ("umbra_axis", 3), ("perpendicular", 4))  # (geometry class, radius index)


def _layouts():
    """Every ordered K-tuple with repeats (K = 2, 3, 4) of states 0..2 + every permutation of states 0..3."""
    out = []
    for k in (2, 3, 4):
        out += list(itertools.product((0, 1, 2), repeat=k))
    out += [p for p in itertools.permutations((0, 1, 2, 3))]
    return out


def _run_batch_layouts(res, item):
    """Columns of a (6, K) layout in every order / multiplicity: a batched shortcut that infers something for all columns
    from some of them (first / last column sunlit -> nobody shadowed, same radius -> same harmonics, ...) shows only when
    the columns at the inspected places agree while another one differs."""
    _, e, ei = item
    label, iso, t, on_grid = e
    start = datetime.fromisoformat(iso)
    dt = start + timedelta(seconds=t)
    sun = fr.body_position(_ref_jd(dt), "sun")
    model = MODELS[(ei + 2) % 4]
    degree, order = 4, 4
    ratio = 0.02
    bodies = list(fr.BODIES)
    dyn = _dyn(start, model, degree, order, bodies, True, True, ratio)
    pool = []
    for j, (geom, ai) in enumerate(_LAYOUT_STATES):
        r = _geometry_state(geom, ALT_RADII[ai], sun, j + ei)
        pool.append(np.concatenate((r, _circ_velocity(r, j + ei))))
    singles = [dyn._differentialEquation(t, s.copy()) for s in pool]
    oracle = []
    for s in pool:
        terms = _oracle_terms(start, t, s[:3], s[3:], model, degree, order, ratio)
        want, pert = _expected(terms, bodies, 1, 1)
        oracle.append((want, _tol_total(terms, pert, on_grid), _norm(terms["pm"]), terms))
    nus = [o[3]["nu"] for o in oracle]
    if not (nus[0] == 1.0 and 0.0 < nus[1] < 1.0 and nus[2] == 0.0 and nus[3] == 1.0):
        raise RuntimeError(f"harness: layout states have visible fractions {nus}")
    for lay in _layouts():
        k = len(lay)
        flat = np.stack([pool[j] for j in lay], axis=1).ravel()  # (6, K) flattened
        before = flat.copy()
        res.extra["derivative_evaluations"] = res.extra.get("derivative_evaluations", 0) + k
        out = dyn._differentialEquation(t, flat)
        ok_io = bool(np.array_equal(flat, before)) and out.shape == flat.shape and out.dtype == np.float64
        pattern = "uniform" if len(set(lay)) == 1 else "ends_same_interior_other" if lay[0] == lay[-1] else "mixed"
        case = {"K": k, "layout": list(lay), "epoch": label, "pattern": pattern}
        res.case(
            "batch/layout_input_untouched",
            case,
            ok_io,
            nontrivial=True,
            signature="C13/batch/input_or_shape",
            observed={"shape": list(out.shape), "dtype": str(out.dtype)},
            item=item,
        )
        if out.shape != flat.shape:
            continue
        out = out.reshape(6, k)
        bad_single, bad_ref = [], []
        for col, j in enumerate(lay):
            want, tol, pmn, terms = oracle[j]
            # same arithmetic on the same numbers; strided vs contiguous BLAS norm may differ in the last bit
            if not (fw.maxabs(out[3:, col], singles[j][3:]) <= 8 * EPS * pmn and np.array_equal(out[:3, col], singles[j][:3])):
                bad_single.append(col)
            if not _err_total(res, out[3:, col], want, terms, tol) <= tol:
                bad_ref.append(col)
        res.case(
            "batch/layout_columns_equal_single",
            case,
            not bad_single,
            nontrivial=True,
            signature=f"C13/batch/layout_vs_single/{pattern}",
            observed={"columns_differing": bad_single, "column": out[:, bad_single[0]] if bad_single else None},
            expected=singles[lay[bad_single[0]]] if bad_single else "every column == its K=1 evaluation",
            outcome=("same/" if not bad_single else "differs/") + pattern,
            item=item,
        )
        res.case(
            "batch/layout_columns_equal_reference",
            case,
            not bad_ref,
            nontrivial=True,
            signature=f"C13/batch/layout_vs_reference/{pattern}",
            observed={"columns_differing": bad_ref, "column": out[3:, bad_ref[0]] if bad_ref else None},
            expected=oracle[lay[bad_ref[0]]][0] if bad_ref else "every column == reference",
            item=item,
        )
        if pattern == "ends_same_interior_other":
            res.observe(out)


# ------------------------------------------------------------------------------------------------ factory + clock
# The dynamics object of an agent is built by dynamicsFactory from the scenario clock; for agents added while the
# scenario runs (Scenario.addTarget / addSensor) the clock already shows T elapsed seconds, and the object is then
# propagated with scenario times T + t (seconds since the scenario START).  Elapsed times: 0, one / two clock steps,
# 1 h, 3 h (on the 675 s grid), 1 day, 3 days.
FACTORY_T = (0.0, 300.0, 600.0, 3600.0, 10800.0, 86400.0, 259200.0)
FACTORY_DT = (0.0, 150.0, 675.0)  # s after the build time at which the derivative is evaluated
FACTORY_CLOCK_STEP = 300.0
# (coefficient file, degree, order, third bodies, SRP, GR, platform (mass kg, visual cross-section m^2, reflectivity), integrator)
FACTORY_CFG = (
    ("egm96.txt", 4, 4, ("sun", "moon"), True, True, (500.0, 25.0, 0.21), "RK45"),
    ("egm2008.txt", 8, 5, ("sun", "moon", "jupiter", "saturn", "venus"), True, False, (100.0, 10.0, 0.0), "DOP853"),
    ("jgm3.txt", 2, 0, ("moon",), False, True, (1500.0, 4.0, 1.0), "RK45"),  # zonal only: the epoch shows in the Moon term alone
    ("GGM03S.txt", 3, 1, (), False, False, (4.0, 0.1, 0.3), "RK45"),  # geopotential only: the epoch shows in the frame alone
)
FACTORY_STATES = (("sunside", 0), ("pen_0.5", 1), ("umbra_axis", 3), ("perpendicular", 0), ("far_lit", 2))  # (geometry, radius index)


def _factory_starts(seed):
    """Scenario start instants (label, datetime, on the 675 s grid)."""
    seed_day = datetime(2014, 1, 2) + timedelta(days=(seed * 7919 + 4321) % 3180, seconds=41 * STEP)
    return [
        ("seed_day", seed_day, True),
        ("first_eop_day", datetime(2014, 1, 1, 0, 0, 0), True),
        ("leap_year_end", datetime(2020, 12, 30, 18, 0, 0), True),  # + 1 day: inside 31 Dec of a leap year; + 3 days: next year
        ("ms_start", datetime(2019, 7, 4, 3, 22, 30, 250000), False),  # start timestamp with milliseconds
    ]


def _factory_clock(start: datetime, T: float):
    """A real ScenarioClock (fresh in-memory database for its epoch rows) started at `start` and ticked to T seconds."""
    step = FACTORY_CLOCK_STEP if T <= 10800.0 else 3600.0
    scen.fresh()
    setDBPath("sqlite://")
    n = int(round(T / step))
    if n * step != T:
        raise RuntimeError(f"harness: elapsed time {T} is not a multiple of the clock step {step}")
    clk = ScenarioClock(start, (n + 2) * step, step)
    for _ in range(n):
        clk.ticToc()
    if float(clk.time) != float(T):
        raise RuntimeError(f"harness: clock at {float(clk.time)} instead of {T}")
    return clk


def _factory_dynamics(start, T, cfg):
    """dynamicsFactory called the way ScenarioBuilder / Scenario.addTarget call it."""
    model, degree, order, bodies, srp, gr, (mass, vcs, refl), method = cfg
    agent = AgentConfig(
        name="added",
        id=41300,
        platform={"type": "spacecraft", "mass": mass, "visual_cross_section": vcs, "reflectivity": refl},
        state={"type": "eci", "position": [7000.0, 0.0, 0.0], "velocity": [0.0, 7.5, 0.0]},
    )
    prop = PropagationConfig(propagation_model="special_perturbations", integration_method=method)
    geo = GeopotentialConfig(model=model, degree=degree, order=order)
    pert = PerturbationsConfig(third_bodies=list(bodies), solar_radiation_pressure=srp, general_relativity=gr)
    return dynamicsFactory(agent, prop, geo, pert, _factory_clock(start, T))


def _run_factory(res, item):
    _, fi, T, seed = item
    T = float(T)
    slabel, start, start_grid = _factory_starts(seed)[fi]
    for ci, cfg in enumerate(FACTORY_CFG):
        model, degree, order, bodies, srp, gr, (mass, vcs, refl), method = cfg
        bodies = list(bodies)
        ratio = (1.0 + refl) * vcs / mass  # cannonball area-to-mass ratio with the reflectivity coefficient (own formula)
        dyn = _factory_dynamics(start, T, cfg)
        res.case(
            "factory/type",
            {"start": slabel, "T": T, "config": ci},
            type(dyn) is SpecialPerturbations,
            nontrivial=True,
            signature="C13/factory/type",
            observed=type(dyn).__name__,
            item=item,
        )
        if not isinstance(dyn, SpecialPerturbations):
            continue
        direct = _dyn(start, model, degree, order, bodies, srp, gr, ratio)
        for dt_s in FACTORY_DT:
            t = T + dt_s  # scenario time = seconds since the scenario start
            on_grid = bool(start_grid and t % STEP == 0.0)
            sun = fr.body_position(_ref_jd(start + timedelta(seconds=t)), "sun")
            for si, (geom, ai) in enumerate(FACTORY_STATES):
                r = _geometry_state(geom, ALT_RADII[ai], sun, si + ci)
                v = _circ_velocity(r, si + ci + fi)
                state = np.concatenate((r, v))
                case = {"start": slabel, "T": T, "dt": dt_s, "config": ci, "model": model, "degree": degree, "order": order,
                        "bodies": "+".join(bodies) or "none", "srp": srp, "gr": gr, "geometry": geom, "radius_km": ALT_RADII[ai]}
                res.extra["derivative_evaluations"] = res.extra.get("derivative_evaluations", 0) + 2
                got = dyn._differentialEquation(t, state.copy())
                terms = _oracle_terms(start, t, r, v, model, degree, order, ratio)
                want, pert = _expected(terms, bodies, srp, gr)
                tol = _tol_total(terms, pert, on_grid)
                err = _err_total(res, got[3:], want, terms, tol)
                ok = bool(err <= tol) and bool(np.array_equal(got[:3], v)) and bool(np.all(np.isfinite(got)))
                res.case(
                    "factory/equals_reference",
                    case,
                    ok,
                    nontrivial=T > 0.0,
                    signature=f"C13/factory/vs_reference/{'built_at_start' if T == 0.0 else 'built_mid_run'}",
                    observed={"a": got[3:], "err": err, "tol": tol},
                    expected=want,
                    outcome=("agree" if ok else "differ") + ("/T=0" if T == 0.0 else "/T>0"),
                    item=item,
                )
                # the same configuration constructed directly with the Julian date of the scenario start: same object
                # state, same arithmetic -> identical numbers
                same = dyn._differentialEquation(t, state.copy())
                ref2 = direct._differentialEquation(t, state.copy())
                res.case(
                    "factory/equals_direct_construction",
                    case,
                    bool(np.array_equal(got, ref2)) and bool(np.array_equal(got, same)),
                    nontrivial=T > 0.0,
                    signature="C13/factory/vs_direct_construction",
                    observed=got,
                    expected=ref2,
                    item=item,
                )
                res.observe(got)

# ------------------------------------------------------------------------------------------------ harmonics
def _harm_positions():
    r0 = fr.R_EARTH
    out = []
    for name, rad, lat, lon in [
        ("leo_generic", r0 + 400.0, 37.0, 73.0),
        ("leo_south_west", r0 + 250.0, -52.0, -141.0),
        ("meo_generic", 26578.0, 11.0, 200.0),
        ("x_axis", r0 + 300.0, 0.0, 0.0),
        ("y_axis", r0 + 300.0, 0.0, 90.0),
        ("minus_x_high_lat", r0 + 500.0, 80.0, 180.0),
        ("near_pole", r0 + 300.0, 89.999, 45.0),
    ]:
        la, lo = math.radians(lat), math.radians(lon)
        p = rad * np.array([math.cos(la) * math.cos(lo), math.cos(la) * math.sin(lo), math.sin(la)])
        if name == "x_axis":
            p[1] = p[2] = 0.0
        if name == "y_axis":
            p[0] = p[2] = 0.0
        out.append((name, p))
    out.append(("north_pole", np.array([0.0, 0.0, r0 + 300.0])))
    out.append(("south_pole", np.array([0.0, 0.0, -(r0 + 300.0)])))
    return out


def _run_harmonics(res, item):
    _, degrees, nmax = item
    positions = _harm_positions()
    for name, pos in positions:
        v, w = getNonSphericalHarmonics(pos, Earth.radius, nmax + 1, nmax + 1)
        # a rectangular request (order < degree) must give the same entries
        v2, w2 = getNonSphericalHarmonics(pos, Earth.radius, nmax + 1, 3)
        for n in degrees:
            for m in range(0, n + 1):
                # M&G eq. 3.27 definition from un-normalised Legendre functions; scale = size of (V, W) at lam-free norm
                vr, wr = fr.harmonics_vw(pos, n, m)
                # scale: amplitude of the (n, m) pair; for m = 0 W must be exactly 0
                p_amp = math.hypot(vr, wr)
                scale = max(p_amp, _vw_scale(pos, n, m))
                err = max(abs(v[n, m] - vr), abs(w[n, m] - wr))
                # 1e-11 relative: both recursions are stable (measured <= 3e-14 up to degree 41); a wrong recursion
                # coefficient changes the entry by O(1) relative
                ok = err <= 1e-11 * scale and (m != 0 or w[n, m] == 0.0)
                if m <= 3:
                    ok = ok and v2[n, m] == v[n, m] and w2[n, m] == w[n, m]
                res.case(
                    "harmonics/vw",
                    {"n": n, "m": m, "position": name},
                    bool(ok),
                    nontrivial=n >= 2,
                    signature=f"C13/harmonics/vw/{'diagonal' if n == m else 'zonal' if m == 0 else 'tesseral'}",
                    observed=[v[n, m], w[n, m]],
                    expected=[vr, wr],
                    item=("harmonics", [n], nmax),
                )
                if n < 2 or n > nmax:
                    continue
                fac = fr.unnormalise_factor(n, m)
                for which in ("C", "S"):
                    if which == "S" and m == 0:
                        continue
                    c = np.zeros((n + 2, n + 2))
                    s = np.zeros((n + 2, n + 2))
                    (c if which == "C" else s)[n, m] = fac
                    got = nonSphericalAcceleration(pos, Earth.mu, Earth.radius, c, s, n, m)
                    term = (n, m, 1.0, 0.0) if which == "C" else (n, m, 0.0, 1.0)
                    want = fr.geopotential_accel_terms(pos, [term])
                    # the truncation arguments larger than the only non-zero coefficient must not change anything
                    cbig = np.zeros((n + 5, n + 5))
                    sbig = np.zeros((n + 5, n + 5))
                    (cbig if which == "C" else sbig)[n, m] = fac
                    got_big = nonSphericalAcceleration(pos, Earth.mu, Earth.radius, cbig, sbig, n + 2, min(m + 1, n + 2))
                    scale = _single_scale(pos, n, m)
                    err = fw.maxabs(got, want)
                    err_big = fw.maxabs(got_big, want)
                    ok = err <= 1e-11 * scale and err_big <= 1e-11 * scale
                    res.case(
                        f"harmonics/single_coefficient_{which}",
                        {"n": n, "m": m, "position": name, "which": which},
                        bool(ok),
                        nontrivial=m >= 1 or n >= 3,
                        signature=f"C13/harmonics/single/{which}/{'sectoral' if n == m else 'zonal' if m == 0 else 'tesseral'}",
                        observed={"a": got, "a_bigger_truncation": got_big, "err": err},
                        expected=want,
                        item=("harmonics", [n], nmax),
                    )
                    res.observe(got)
        res.observe(v, w)


def _vw_scale(pos, n, m):
    """Amplitude of the (n, m) harmonic pair independent of longitude phase: (R/r)^(n+1) |P_nm|, floor by the degree's
    zonal amplitude x 1e-3 so that entries that vanish by symmetry are compared absolutely."""
    r = _norm(pos)
    return (fr.R_EARTH / r) ** (n + 1) / fr.unnormalise_factor(n, m) * 1e-3


def _single_scale(pos, n, m):
    # acceleration of a unit normalised coefficient: ~ mu/r^2 (R/r)^n (n+1) * O(1)
    r = _norm(pos)
    return fr.MU_EARTH / (r * r) * (fr.R_EARTH / r) ** n * (n + 1)


# ------------------------------------------------------------------------------------------------ coefficient loading
def _run_coeff(res, item):
    _, model = item
    c, s = loadGeopotentialCoefficients(GeopotentialModel(model))
    cbar, sbar, nmax, rows = fr.load_coefficients(model)
    res.case(
        "coeff/shape",
        {"model": model},
        c.shape == (181, 181) and s.shape == (181, 181) and nmax <= 180,
        signature="C13/coeff/shape",
        observed=[list(c.shape), nmax, rows],
        item=item,
    )
    for n in range(0, 181):
        for m in range(0, n + 1):
            if n <= nmax:
                fac = fr.unnormalise_factor(n, m)
                wc, ws = cbar[n, m] * fac, sbar[n, m] * fac
            else:
                wc = ws = 0.0
            # degree <= 80 is what GeopotentialConfig admits: there (n-m)!/(n+m)! >= 1/160! is a normal double and the
            # un-normalised value is required to 1e-13.  Above it the ratio may be subnormal / underflow before the
            # square root (un-normalised coefficients < 1e-160): only an absolute floor is required there.
            floor = 1e-300 if n <= 80 else 1e-160
            tol_c = 1e-13 * abs(wc) + floor
            tol_s = 1e-13 * abs(ws) + floor
            ok = abs(c[n, m] - wc) <= tol_c and abs(s[n, m] - ws) <= tol_s
            res.case(
                "coeff/value",
                {"model": model, "n": n, "m": m},
                bool(ok),
                nontrivial=(wc != 0.0 or ws != 0.0) and (m >= 1 or n >= 3),
                signature=f"C13/coeff/value/{model}/{'zonal' if m == 0 else 'nonzonal'}",
                observed=[c[n, m], s[n, m]],
                expected=[wc, ws],
                item=item,
            )
    # strictly upper triangle must stay empty
    res.case(
        "coeff/upper_triangle_empty",
        {"model": model},
        bool(np.all(np.triu(c, 1) == 0.0) and np.all(np.triu(s, 1) == 0.0)),
        signature="C13/coeff/upper_triangle",
        item=item,
    )
    res.observe(c[:25, :25], s[:25, :25])


# ------------------------------------------------------------------------------------------------ direct formulae
def _run_direct(res, item):
    _, e = item
    label, iso, t, _ = e
    start = datetime.fromisoformat(iso)
    dt = start + timedelta(seconds=t)
    jd = _ref_jd(dt)
    sun = fr.body_position(jd, "sun")
    dyn = _dyn(start, "egm96.txt", 2, 0, [], True, False, 0.02)
    for ai, radius in enumerate(ALT_RADII):
        for gi, geom in enumerate(GEOMS):
            r = _geometry_state(geom, radius, sun, gi + ai)
            # third bodies: library position of the body, library formula vs direct formula in decimals
            for b in fr.BODIES:
                pos_lib = np.array(LIB_BODY[b].getPosition(jd), dtype=float)
                got = _mu_lib(b) * sp_mod._getThirdBodyAcceleration(r, pos_lib)
                want = fr.third_body_accel(r, pos_lib, _mu_lib(b))
                # Vallado 8-35 q-form is cancellation free: 1e-12 relative (measured 1e-15)
                err = fw.maxabs(got, want)
                res.case(
                    "direct/third_body",
                    {"body": b, "epoch": label, "radius_km": radius, "geometry": geom},
                    bool(err <= 1e-12 * _norm(want)),
                    nontrivial=True,
                    signature=f"C13/direct/third_body/{b}",
                    observed=got,
                    expected=want,
                    item=item,
                )
                res.observe(got)
            # satellite towards / away from / across each body direction at the same radius
            for b in ("moon", "sun"):
                pb = np.array(LIB_BODY[b].getPosition(jd), dtype=float)
                ph = pb / _norm(pb)
                side = np.cross(ph, [0.0, 0.0, 1.0])
                side /= _norm(side)
                for nm, rr in (("towards", radius * ph), ("away", -radius * ph), ("across", radius * side)):
                    got = _mu_lib(b) * sp_mod._getThirdBodyAcceleration(rr, pb)
                    want = fr.third_body_accel(rr, pb, _mu_lib(b))
                    res.case(
                        "direct/third_body",
                        {"body": b, "epoch": label, "radius_km": radius, "geometry": nm},
                        bool(fw.maxabs(got, want) <= 1e-12 * _norm(want)),
                        nontrivial=True,
                        signature=f"C13/direct/third_body/{b}",
                        observed=got,
                        expected=want,
                        item=item,
                    )
            # relativity: every velocity kind
            for k in range(4):
                v = _circ_velocity(r, k)
                got = sp_mod._getGeneralRelativityAcceleration(r, v)
                want = fr.relativity_accel(r, v)
                res.case(
                    "direct/relativity",
                    {"epoch": label, "radius_km": radius, "geometry": geom, "velocity_kind": k},
                    bool(fw.maxabs(got, want) <= 1e-12 * _norm(want)),
                    nontrivial=True,
                    signature="C13/direct/relativity",
                    observed=got,
                    expected=want,
                    item=item,
                )
                res.observe(got)
            # SRP
            for ratio in SAT_RATIOS:
                dyn.sat_ratio = ratio
                got = dyn._getSolarRadiationPressureAcceleration(r, sun)
                want = fr.srp_accel(r, sun, ratio, float(const.AU2KM))
                nu = fr.sun_visible_fraction(r, sun)[0]
                tol = 1e-12 * _srp_full(r, sun, ratio) * nu + _srp_noise(r, sun, ratio)
                res.case(
                    "direct/srp",
                    {"epoch": label, "radius_km": radius, "geometry": geom, "sat_ratio": ratio},
                    bool(fw.maxabs(got, want) <= tol),
                    nontrivial=True,
                    signature=f"C13/direct/srp/{'dark' if nu == 0 else 'lit' if nu == 1 else 'partial'}",
                    observed=got,
                    expected=want,
                    outcome="dark" if nu == 0 else "lit" if nu == 1 else "partial",
                    item=item,
                )
                res.observe(got)
    for vcs, mass, refl in [(10.0, 500.0, 0.21), (25.0, 100.0, 0.0), (1.0, 4.0, 1.0), (0.01, 1.33, 0.3)]:
        got = calcSatRatio(vcs, mass, refl)
        want = (1.0 + refl) * vcs / mass
        res.case(
            "direct/sat_ratio",
            {"vcs": vcs, "mass": mass, "reflectivity": refl, "epoch": label},
            abs(got - want) <= 4 * EPS * want,
            nontrivial=True,
            key=f"{vcs}/{mass}/{refl}",
            signature="C13/direct/sat_ratio",
            observed=got,
            expected=want,
            item=item,
        )


# ------------------------------------------------------------------------------------------------ visible fraction
def _run_sunfrac(res, item):
    _, ai, seed = item
    radius = ALT_RADII[ai]
    # separation lattice in units of the apparent radii: umbra, both edges approached from both sides, penumbra sweep
    inner = [1e-3, 0.3, 0.9, 0.999, 1.0 - 1e-6]  # x (b - a): full occultation
    pen = [1e-6, 1e-4, 1e-3, 0.01, 0.05, 0.1, 0.2, 0.3, 0.4, 0.5, 0.6, 0.7, 0.8, 0.9, 0.95, 0.99, 0.999, 1 - 1e-4, 1 - 1e-6]
    outer = [1.0 + 1e-6, 1.001, 1.1, 2.0]  # x (a + b): no occultation
    for d_sun in (1.4710e8, 1.4960e8, 1.5210e8):
        for az_k in range(3):
            az = 0.4 + 2.0 * az_k + 0.01 * (seed % 50)
            s_hat = np.array([math.cos(0.3) * math.cos(az), math.cos(0.3) * math.sin(az), math.sin(0.3)])
            sun = d_sun * s_hat
            u = np.cross(s_hat, [0.0, 0.0, 1.0])
            u /= _norm(u)

            def pos(theta, s_hat=s_hat, u=u):
                return radius * (-math.cos(theta) * s_hat + math.sin(theta) * u)

            def solve(fn, pos=pos, sun=sun):
                lo, hi = 0.0, math.radians(150.0)
                for _ in range(90):
                    mid = 0.5 * (lo + hi)
                    _, a, b, c = fr.sun_visible_fraction(pos(mid), sun)
                    if c - fn(a, b) < 0:
                        lo = mid
                    else:
                        hi = mid
                return pos(0.5 * (lo + hi))

            cases = [("dark", f, solve(lambda a, b, f=f: (b - a) * f)) for f in inner]
            cases += [("partial", p, solve(lambda a, b, p=p: (b - a) + 2 * a * p)) for p in pen]
            cases += [("lit", f, solve(lambda a, b, f=f: (a + b) * f)) for f in outer]
            cases += [("lit_sunside", th, pos(math.radians(th))) for th in (95.0, 135.0, 180.0)]
            cases += [("axis_exact", 0.0, pos(0.0))]  # satellite exactly opposite the Sun (centre of the umbra)
            cases += [("lit_quarter", th, pos(math.radians(th))) for th in (89.0, 60.0)]
            for cls, par, r in cases:
                got = float(calculateSunVizFraction(r, sun))
                want, a, b, c = fr.sun_visible_fraction(r, sun)
                # both are closed forms of the same area; the reference is well conditioned (1e-13), the textbook
                # form under test carries the arccos conditioning derived in fr.sun_fraction_conditioning (x32 margin)
                tol = 1e-12 + 32.0 * fr.sun_fraction_conditioning(r, sun)
                ok = abs(got - want) <= tol and -tol <= got <= 1.0 + tol
                res.case(
                    "sun_fraction",
                    {"radius_km": radius, "class": cls, "parameter": par, "sun_distance_km": d_sun, "azimuth": az_k},
                    bool(ok),
                    nontrivial=want < 1.0,
                    signature=f"C13/sun_fraction/{cls}",
                    observed={"fraction": got, "err": abs(got - want), "tol": tol},
                    expected=want,
                    outcome="dark" if want == 0 else "lit" if want == 1 else "partial",
                    item=item,
                )
                res.observe(got)
                if cls in ("partial", "lit_quarter", "dark"):
                    flux = float(calculateIncidentSolarFlux(2.5, r, sun))
                    res.case(
                        "sun_fraction/incident_flux",
                        {"radius_km": radius, "class": cls, "parameter": par, "sun_distance_km": d_sun, "azimuth": az_k},
                        abs(flux - fr.SOLAR_FLUX * 2.5 * want) <= fr.SOLAR_FLUX * 2.5 * tol,
                        nontrivial=want < 1.0,
                        signature="C13/sun_fraction/incident_flux",
                        observed=flux,
                        expected=fr.SOLAR_FLUX * 2.5 * want,
                        item=item,
                    )


# ------------------------------------------------------------------------------------------------ ephemerides
# rigorous bounds of the geocentric acceleration of each body (km/s^2), see derivation next to the use
A_MAX = {
    "sun": 6.20e-6,  # GM_sun / (0.9832 AU)^2 = 6.13e-6, + Earth about the Earth-Moon barycentre 3.3e-8
    "moon": 3.4e-6,  # (GM_e + GM_m) / (356400 km)^2 = 3.18e-6, + solar tide 2 GM_s d / AU^3 = 3e-8
    "jupiter": 6.5e-6,  # Earth's heliocentric acceleration + Jupiter's (2.4e-7)
    "saturn": 6.3e-6,
    "venus": 1.80e-5,  # 6.17e-6 + GM_sun / (0.7184 AU)^2 = 1.149e-5
}
DELTA_DAYS = 2.0**-10  # 84.375 s, exactly representable next to the (x.5 + 4k) edge dates
# Rigorous bounds of the geocentric speed of each body (km/s): Earth's perihelion speed 30.29 (+ 0.013 about the
# Earth-Moon barycentre) plus the body's own largest heliocentric speed (Venus 35.26, Jupiter 13.72, Saturn 10.18); Moon:
# perigee speed 1.08 relative to the Earth.
V_MAX = {"sun": 30.4, "moon": 1.15, "jupiter": 44.5, "saturn": 41.0, "venus": 66.0}
JD_ULP = 2.0**-31  # spacing of doubles in [2^21, 2^22) days, i.e. of every Julian date used here: 4.02e-5 s
NEAR_SEC = (1.0e-4, 1.0e-3, 0.02, 0.1, 0.5, 2.0, 10.0)  # s; the coarse lattice continues with 84.375 and 168.75 s


def _near_instants(edge):
    """Representable Julian dates edge -/+ {1 ulp, NEAR_SEC} (sorted, distinct, the edge itself excluded)."""
    out = {edge - JD_ULP, edge + JD_ULP}
    for sec in NEAR_SEC:
        out.add(edge - sec / 86400.0)
        out.add(edge + sec / 86400.0)
    out.discard(edge)
    return sorted(out)


def _run_ephem_edges(res, item):
    _, body, lo, hi = item
    cls = LIB_BODY[body]
    edges = set()
    for seg in fr.body_segments(body):
        edges.update(fr.segment_edges(seg[0], seg[1], max(lo, JD_EOP_LO + 1.0), min(hi, JD_EOP_HI - 1.0)))
    dsec = DELTA_DAYS * 86400.0
    for edge in sorted(e for e in edges if lo <= e < hi):
        jds = [edge + k * DELTA_DAYS for k in (-2, -1, 0, 1, 2)]
        pts = [np.array(cls.getPosition(jd), dtype=float) for jd in jds]
        vec = np.array(cls.getPosition(list(jds)), dtype=float)
        own = [fr.body_position(jd, body) for jd in jds]
        which = [s for s in fr.body_segments(body) if edge in fr.segment_edges(s[0], s[1], edge - 1, edge + 1)]
        case = {"body": body, "edge_jd": edge, "segments_with_edge": [f"{a}-{b}" for a, b in which]}
        # continuity: second differences across the edge are bounded by the body's geocentric acceleration
        # (|p(t+d) - 2 p(t) + p(t-d)| <= max|a| d^2); 1e-6 km covers rounding of 1.5e9 km coordinates
        worst = 0.0
        for i in (1, 2, 3):
            d2 = pts[i + 1] - 2 * pts[i] + pts[i - 1]
            worst = max(worst, _norm(d2))
        bound = 1.5 * A_MAX[body] * dsec * dsec + 1e-6
        res.case(
            "ephemeris/continuity",
            case,
            bool(worst <= bound),
            nontrivial=True,
            signature=f"C13/ephem/continuity/{body}",
            observed=worst,
            expected=f"<= {bound}",
            item=("ephem_edges", body, edge - 0.5, edge + 0.5),
        )
        # own Chebyshev evaluation (cos(k acos x)) from own reading of the segment files: 1e-4 km (measured 5e-7;
        # a slip in index/scaling/composition moves the body by >= km)
        err = max(fw.maxabs(p, o) for p, o in zip(pts, own))
        res.case(
            "ephemeris/chebyshev",
            case,
            bool(err <= 1e-4),
            nontrivial=True,
            signature=f"C13/ephem/chebyshev/{body}",
            observed=err,
            expected="<= 1e-4 km",
            item=("ephem_edges", body, edge - 0.5, edge + 0.5),
        )
        ok_vec = vec.shape == (5, 3) and all(np.array_equal(vec[i], pts[i]) for i in range(5))
        res.case(
            "ephemeris/vector_path",
            case,
            bool(ok_vec),
            nontrivial=True,
            signature=f"C13/ephem/vector_path/{body}",
            observed=list(vec.shape),
            item=("ephem_edges", body, edge - 0.5, edge + 0.5),
        )
        res.observe(pts[2])
        # fine lattice: a fraction of a second either side of the boundary (a series mis-selected / mis-scaled only within
        # a sliver next to the boundary is invisible 84 s away)
        near = _near_instants(edge)
        npts = [np.array(cls.getPosition(jd), dtype=float) for jd in near]
        nvec = np.array(cls.getPosition(list(near)), dtype=float)
        allj = sorted(zip(jds + near, pts + npts), key=lambda x: x[0])
        # continuity: |p(t2) - p(t1)| <= max|v| (t2 - t1) for every pair of neighbouring instants of the merged lattice;
        # 1e-5 km = 40 ulp of the largest coordinate (Saturn 1.6e9 km: 2.4e-7 km) covers the rounding of the three summed
        # series; a mis-selected series moves the body by a series length of its motion (>= 1e5 km), a mis-scaled
        # argument by >= km
        for side, sel in (("before", [x for x in allj if x[0] <= edge]), ("after", [x for x in allj if x[0] >= edge])):
            worst_ratio, worst_at = 0.0, None
            for (ja, pa), (jb, pb) in zip(sel[:-1], sel[1:]):
                gap = (jb - ja) * 86400.0  # exact: both within 2^-9 day of the same x.5 date
                ratio = _norm(pb - pa) / (1.5 * V_MAX[body] * gap + 1.0e-5)
                if ratio > worst_ratio:
                    worst_ratio, worst_at = ratio, [(ja - edge) * 86400.0, (jb - edge) * 86400.0]
            res.case(
                "ephemeris/continuity_near",
                dict(case, side=side),
                bool(worst_ratio <= 1.0),
                nontrivial=True,
                signature=f"C13/ephem/continuity_near/{body}/{side}",
                observed={"worst_step_over_bound": worst_ratio, "between_offsets_s": worst_at},
                expected="|p(t2) - p(t1)| <= 1.5 vmax (t2 - t1) + 1e-5 km for neighbouring instants",
                item=("ephem_edges", body, edge - 0.5, edge + 0.5),
            )
            # own evaluation, same tolerance as on the coarse lattice
            sel_near = [(j, q) for j, q in zip(near, npts) if (j < edge) == (side == "before")]
            errs = [(fw.maxabs(q, fr.body_position(j, body)), (j - edge) * 86400.0) for j, q in sel_near]
            err, at = max(errs)
            res.case(
                "ephemeris/chebyshev_near",
                dict(case, side=side),
                bool(err <= 1e-4) and bool(all(np.all(np.isfinite(q)) for _, q in sel_near)),
                nontrivial=True,
                signature=f"C13/ephem/chebyshev_near/{body}/{side}",
                observed={"err_km": err, "at_offset_s": at, "instants": len(sel_near)},
                expected="<= 1e-4 km",
                item=("ephem_edges", body, edge - 0.5, edge + 0.5),
            )
        ok_vec = nvec.shape == (len(near), 3) and all(np.array_equal(nvec[i], npts[i]) for i in range(len(near)))
        res.case(
            "ephemeris/vector_path_near",
            case,
            bool(ok_vec),
            nontrivial=True,
            signature=f"C13/ephem/vector_path/{body}",
            observed=list(nvec.shape),
            item=("ephem_edges", body, edge - 0.5, edge + 0.5),
        )
        res.observe(npts[0], npts[-1])


# NAIF (centre, target) of each common kernel index, from the NAIF id table (own literal, not KERNEL_MAP)
TBK_NAIF = {
    "SS_BC_2_MERCURY_BC": (0, 1), "SS_BC_2_VENUS_BC": (0, 2), "SS_BC_2_EARTH_BC": (0, 3), "SS_BC_2_MARS_BC": (0, 4),
    "SS_BC_2_JUPITER_BC": (0, 5), "SS_BC_2_SATURN_BC": (0, 6), "SS_BC_2_URANUS_BC": (0, 7), "SS_BC_2_NEPTUNE_BC": (0, 8),
    "SS_BC_2_PLUTO_BC": (0, 9), "SS_BC_2_SUN_CENTER": (0, 10), "EARTH_BC_2_MOON_CENTER": (3, 301),
    "EARTH_BC_2_EARTH_CENTER": (3, 399), "MERCURY_BC_2_MERCURY_CENTER": (1, 199), "VENUS_BC_2_VENUS_CENTER": (2, 299),
}  # fmt: skip


def _run_ephem_segment(res, item):
    _, seg_value, seed = item
    seg = tb_mod.TBK(seg_value)
    key = TBK_NAIF[seg.name]
    jd0, interval, count, ncoef = fr.segment_info(*key)
    lib_jd0, lib_int, lib_coeff = tb_mod.THIRD_BODY_EPHEMS[seg_value]
    res.case(
        "ephemeris/segment_table",
        {"segment": seg.name},
        lib_jd0 == jd0 and lib_int == interval and lib_coeff.shape == (3, count, ncoef),
        signature="C13/ephem/segment_table",
        observed=[lib_jd0, lib_int, list(lib_coeff.shape)],
        expected=[jd0, interval, [3, count, ncoef]],
        item=item,
    )
    edges = fr.segment_edges(key[0], key[1], JD_EOP_LO, JD_EOP_HI)
    multi = bool(edges)
    if not edges:  # single-interval segments (planet centre w.r.t. its barycentre): a plain grid
        edges = [JD_EOP_LO + 40.0 * k + (seed % 40) for k in range(79)]
    res.case(
        "ephemeris/segment_grid_exact",
        {"segment": seg.name},
        math.log2(interval) == int(math.log2(interval)) or not multi,
        signature="C13/ephem/segment_grid_exact",
        observed=interval,
        expected="series length is a power of two days (assumption of the exact boundary arithmetic)",
        item=item,
    )
    scale = max(1.0, float(np.max(np.abs(lib_coeff[:, :, 0]))))
    for edge in edges:
        inner = (0.37, 0.5, 0.81) if interval < 100 else (0.37 / interval, 11.5 / interval, 29.0 / interval)
        offs = (-DELTA_DAYS, 0.0, DELTA_DAYS) + tuple(f * interval for f in inner)
        if multi:
            offs += tuple(j - edge for j in _near_instants(edge))  # exact differences
            _scale_inputs_cases(res, item, seg, jd0, interval, count, edge, [edge + o for o in offs])
        for off in offs:
            jd = edge + off
            got = np.array(tb_mod.getSegmentPosition(jd, seg), dtype=float)
            want = fr.segment_position(jd, key[0], key[1])
            err = fw.maxabs(got, want)
            res.case(
                "ephemeris/segment",
                {"segment": seg.name, "jd": jd, "edge": edge},
                bool(err <= 1e-13 * scale + 1e-9),
                nontrivial=abs(off) <= DELTA_DAYS,
                signature=f"C13/ephem/segment/{seg.name}" + ("/near_boundary" if 0.0 < abs(off) < DELTA_DAYS else ""),
                observed=got,
                expected=want,
                item=item,
            )
        res.observe(got)


def _scale_inputs_cases(res, item, seg, jd0, interval, count, edge, jds):
    """Series index and scaled argument returned by the input scaling must denote the epoch they were computed from.

    Implementation-agnostic invariant (either series may be chosen for an epoch exactly on a boundary): 0 <= idx < count,
    -1 <= x <= 1 and jd0 + (idx + (x + 1) / 2) * interval == jd.  With power-of-two series lengths every operation of the
    reconstruction is exact except the final rounding of x itself (<= 1 ulp of 1 -> interval * 2^-53 days) and the sum
    (1 ulp of the Julian date): tolerance 2 ulp of the Julian date, 7 orders below the smallest window (1e-4 s) probed.
    """
    fn = getattr(tb_mod, "_scaleChebyshevInputs", None)
    if fn is None:  # refactored away: the position level subchecks carry the property
        return
    xs_v, idx_v = fn(list(jds), jd0, interval)
    for i, jd in enumerate(jds):
        x_s, idx_s = fn(jd, jd0, interval)
        x_s, idx_s = float(x_s), int(idx_s)
        recon = jd0 + (idx_s + (x_s + 1.0) / 2.0) * interval
        ok = 0 <= idx_s < count and -1.0 <= x_s <= 1.0 and abs(recon - jd) <= 2 * JD_ULP
        ok_vec = float(xs_v[i]) == x_s and int(idx_v[i]) == idx_s
        off_s = (jd - edge) * 86400.0
        res.case(
            "ephemeris/scale_inputs",
            {"segment": seg.name, "jd": jd, "edge": edge, "offset_s": off_s},
            bool(ok and ok_vec),
            nontrivial=abs(jd - edge) <= DELTA_DAYS,
            signature=f"C13/ephem/scale_inputs/{'vector_path' if ok and not ok_vec else 'before' if jd < edge else 'at_or_after'}",
            observed={"idx": idx_s, "x": x_s, "epoch_denoted_minus_jd_days": recon - jd, "vector": [float(xs_v[i]), int(idx_v[i])]},
            expected="0 <= idx < count, -1 <= x <= 1, jd0 + (idx + (x + 1) / 2) interval == jd",
            item=item,
        )


def _run_ephem_analytic(res, item):
    _, year, seed = item
    lo = max(JD_EOP_LO, _ref_jd(datetime(year, 1, 1)))
    hi = min(JD_EOP_HI, _ref_jd(datetime(year + 1, 1, 1)))
    phase = (seed % 23) / 96.0
    jds = []
    jd = lo + phase
    while jd < hi:
        jds.append(jd)
        jd += 0.25
    pos = {b: np.array(LIB_BODY[b].getPosition(list(jds)), dtype=float) for b in fr.BODIES}
    for i, jd in enumerate(jds):
        s = pos["sun"][i]
        a = fr.analytic_sun(jd)
        sep = fr.separation_deg(s, a)
        dr = abs(_norm(s) - _norm(a)) / fr.AU_IAU
        # Astronomical Almanac low-precision Sun: 0.01 deg / few 1e-5 AU over 1950-2050 (measured 0.0113 deg, 7.7e-5 AU)
        res.case(
            "ephemeris/analytic_sun",
            {"jd": jd},
            sep <= 0.02 and dr <= 2e-4,
            nontrivial=True,
            signature="C13/ephem/analytic/sun",
            observed={"separation_deg": sep, "range_err_au": dr},
            expected="<= 0.02 deg, <= 2e-4 AU",
            item=item,
        )
        m = pos["moon"][i]
        a = fr.analytic_moon(jd)
        sep = fr.separation_deg(m, a)
        dr = abs(_norm(m) / _norm(a) - 1.0)
        # low-precision Moon: 0.3 deg longitude / 0.2 deg latitude / 0.3 % range (measured 0.36 deg, 0.32 %)
        res.case(
            "ephemeris/analytic_moon",
            {"jd": jd},
            sep <= 0.5 and dr <= 0.01,
            nontrivial=True,
            signature="C13/ephem/analytic/moon",
            observed={"separation_deg": sep, "range_rel_err": dr},
            expected="<= 0.5 deg, <= 1 %",
            item=item,
        )
        if i % 4 == 0:
            for b, (dlo, dhi) in fr.HELIO_AU.items():
                d = _norm(pos[b][i] - s) / fr.AU_IAU
                res.case(
                    "ephemeris/heliocentric_range",
                    {"jd": jd, "body": b},
                    dlo <= d <= dhi,
                    nontrivial=True,
                    signature=f"C13/ephem/helio_range/{b}",
                    observed=d,
                    expected=[dlo, dhi],
                    item=item,
                )
    res.observe(pos["sun"], pos["moon"])


# ------------------------------------------------------------------------------------------------ batched epochs
# getPosition() / getSegmentPosition() accept N epochs and document "the position vectors at each Julian date": every row
# of a batched evaluation must equal the single-epoch evaluation, whatever the order, multiplicity or container of the
# epochs (a batched path that infers "one coefficient set for all" from some of the elements - first/last, first/middle/
# last, a time-ordered assumption - is only visible on arrays that are not time-ordered).
# Pool: days relative to a 32-day kernel edge E (an edge of every 4/8/16/32-day series).  For every series length the pool
# holds epochs of the same series and of neighbouring / far series:  4 d: {-1,-ulp | 0,+84s,1,3 | 5 | 9 | 15 | 17 | 33},
# 8 d: {.. | 0..5 | 9,15 | 17}, 16 d: {-20 | -1,-ulp | 0..15 | 17 | 33}, 32 d: {-20,-1,-ulp | 0..17 | 33}, and 400.25 d on.
BATCH_OFFS_QUICK = (-20.0, -1.0, -JD_ULP, 0.0, DELTA_DAYS, 1.0, 3.0, 5.0, 9.0, 15.0, 17.0, 33.0, 400.25)
BATCH_OFFS_EXTRA = (-33.0, -17.0, JD_ULP, 2.0, 4.0 - JD_ULP, 4.0, 7.0, 8.0, 16.0 - DELTA_DAYS, 16.0, 31.0, 32.0)
BATCH_SUB4 = (-1.0, 0.0, 1.0, 5.0, 17.0)  # 4 d: -1 | 0 1 | 5 | 17;  8, 16 d: -1 | 0 1 5 | 17;  32 d: -1 | 0 1 5 17
BATCH_SUB3 = (-1.0, 1.0, 33.0)  # three different series of every length
BATCH_CONTAINERS = ("tuple", "ndarray", "ndarray_strided_view", "ndarray_reversed_view")


def _batch_offsets(tier):
    return BATCH_OFFS_QUICK + (BATCH_OFFS_EXTRA if tier == "thorough" else ())


def _batch_targets():
    return list(fr.BODIES) + [f"segment:{k}" for k in range(14)]


_BATCH_ARRAYS = {}


def _batch_arrays(n):
    """[(family, container, pool indices)] - every enumerated array over a pool of n epochs."""
    if n in _BATCH_ARRAYS:
        return _BATCH_ARRAYS[n]
    out = []
    full = list(range(n))
    for k in (1, 2, 3):
        out += [(f"tuples_{k}", "list", idx) for idx in itertools.product(full, repeat=k)]
    sub4 = [BATCH_OFFS_QUICK.index(o) for o in BATCH_SUB4]
    sub3 = [BATCH_OFFS_QUICK.index(o) for o in BATCH_SUB3]
    out += [("tuples_4_subpool", "list", idx) for idx in itertools.product(sub4, repeat=4)]
    out += [("tuples_5_subpool", "list", idx) for idx in itertools.product(sub3, repeat=5)]
    asc = tuple(sorted(full, key=lambda i: _batch_offsets("thorough")[i]))
    out.append(("pool_ascending", "list", asc))
    out.append(("pool_descending", "list", asc[::-1]))
    out += [("pool_rotated", "list", asc[k:] + asc[:k]) for k in range(1, n)]
    out += [("pool_rotated_descending", "list", (asc[::-1])[k:] + (asc[::-1])[:k]) for k in range(1, n)]
    out.append(("pool_interleaved", "list", asc[0::2] + asc[1::2]))
    out.append(("pool_palindrome", "list", asc + asc[::-1]))
    out.append(("pool_twice", "list", asc + asc))
    out.append(("pool_each_doubled", "list", tuple(i for i in asc for _ in (0, 1))))
    for cont in BATCH_CONTAINERS:
        for k in (1, 2, 3):
            out += [(f"containers_{k}", cont, idx) for idx in itertools.product(sub4, repeat=k)]
    for cont in ("ndarray_0d", "numpy_scalar", "float"):
        out += [("containers_scalar", cont, (i,)) for i in full]
    _BATCH_ARRAYS[n] = out
    return out


def _batch_container(cont, vals):
    """The epochs `vals` in the named container (+ a copy to compare with after the call, or None)."""
    if cont == "list":
        return list(vals), list(vals)
    if cont == "tuple":
        return tuple(vals), None
    if cont == "ndarray":
        a = np.array(vals, dtype=float)
        return a, a.copy()
    if cont == "ndarray_strided_view":
        base = np.empty(2 * len(vals))
        base[0::2] = vals
        base[1::2] = vals[::-1]  # valid epochs in between, never to be used
        a = base[::2]
        return a, a.copy()
    if cont == "ndarray_reversed_view":
        a = np.array(vals[::-1], dtype=float)[::-1]
        return a, a.copy()
    if cont == "ndarray_0d":
        return np.array(vals[0]), None
    if cont == "numpy_scalar":
        return np.float64(vals[0]), None
    if cont == "float":
        return float(vals[0]), None
    raise ValueError(cont)


def _order_class(vals):
    if len(vals) == 1:
        return "single"
    d = [b - a for a, b in zip(vals[:-1], vals[1:])]
    if all(x > 0 for x in d):
        return "ascending"
    if all(x < 0 for x in d):
        return "descending"
    if len(set(vals)) < len(vals):
        return "repeats_monotonic" if all(x >= 0 for x in d) or all(x <= 0 for x in d) else "repeats_unordered"
    return "unordered"


def _series_pattern(series_of, idx):
    """Which Chebyshev series (own index arithmetic, per segment of the target) the epochs of the array fall in."""
    if len(idx) == 1:
        return "single"
    pats = set()
    for per_seg in series_of:
        ser = [per_seg[i] for i in idx]
        if len(set(ser)) == 1:
            pats.add("one")
        elif ser[0] == ser[-1]:
            pats.add("ends")
        else:
            pats.add("several")
    if "ends" in pats:
        return "ends_same_series_interior_other"
    return "several_series" if "several" in pats else "one_series"


def _run_ephem_batch(res, item):
    _, target, seed, tier = item
    edge = _seed_edge32(seed)
    jds = [edge + o for o in _batch_offsets(tier)]
    if target.startswith("segment:"):
        seg = tb_mod.TBK(int(target.split(":")[1]))
        key = TBK_NAIF[seg.name]
        segs = [key]
        lib_coeff = tb_mod.THIRD_BODY_EPHEMS[seg.value][2]
        # same tolerance as ephemeris/segment
        tol_ref = 1e-13 * max(1.0, float(np.max(np.abs(lib_coeff[:, :, 0])))) + 1e-9

        def lib(x, seg=seg):
            return tb_mod.getSegmentPosition(x, seg)

        def ref(jd, key=key):
            return fr.segment_position(jd, key[0], key[1])

        name = seg.name
    else:
        segs = fr.body_segments(target)
        tol_ref = 1e-4  # km, same as ephemeris/chebyshev (own evaluation of three summed series)
        lib = LIB_BODY[target].getPosition

        def ref(jd, target=target):
            return fr.body_position(jd, target)

        name = target
    # own series index of every pool epoch in every segment the target is composed of
    series_of = []
    for c, t in segs:
        jd0, interval, count, _ = fr.segment_info(c, t)
        series_of.append([int(math.floor((jd - jd0) / interval)) for jd in jds])
        if not all(0 <= k < count for k in series_of[-1]):
            raise RuntimeError("harness: batched-epoch pool leaves the kernel")
    if target not in ("segment:12", "segment:13"):  # (those two have one series for the whole kernel span)
        # the pool must offer, for this target, same-series pairs as well as different-series epochs
        if len(set(series_of[0])) < 3 or len(set(series_of[0])) == len(jds):
            raise RuntimeError("harness: batched-epoch pool does not mix same-series and other-series epochs")
    scalar, refs = [], []
    for i, jd in enumerate(jds):
        sc = np.array(lib(jd), dtype=float)
        rf = np.asarray(ref(jd), dtype=float)
        scalar.append(sc)
        refs.append(rf)
        err = fw.maxabs(sc, rf) if sc.shape == (3,) else float("inf")
        res.case(
            "ephemeris/batch_pool_scalar",
            {"target": name, "jd": jd, "offset_days": jd - edge},
            bool(err <= tol_ref),
            nontrivial=True,
            signature=f"C13/ephem/batch/pool_scalar/{name}",
            observed=sc,
            expected=rf,
            item=item,
        )
    res.observe(np.array(scalar))
    scale_fn = getattr(tb_mod, "_scaleChebyshevInputs", None) if target.startswith("segment:") else None
    if scale_fn is not None:
        jd0, interval, _, _ = fr.segment_info(*segs[0])
        scaled = [scale_fn(jd, jd0, interval) for jd in jds]
    for family, cont, idx in _batch_arrays(len(jds)):
        vals = [jds[i] for i in idx]
        arg, keep = _batch_container(cont, vals)
        order = _order_class(vals)
        pattern = _series_pattern(series_of, idx)
        scalar_like = cont in ("ndarray_0d", "numpy_scalar", "float")
        case = {"target": name, "family": family, "container": cont, "pool_indices": list(idx),
                "offsets_days": [v - edge for v in vals], "order": order, "series": pattern}
        try:
            out = lib(arg)
        except Exception as exc:  # noqa: BLE001
            res.case(
                "ephemeris/batch_rows_vs_scalar",
                case,
                False,
                nontrivial=len(idx) >= 2,
                signature=f"C13/ephem/batch/exception/{name}/{cont}/{type(exc).__name__}",
                observed=f"{type(exc).__name__}: {exc}"[:300],
                item=item,
            )
            continue
        out = np.asarray(out)
        want_shape = (3,) if scalar_like else (len(idx), 3)
        untouched = True
        if keep is not None:
            untouched = len(arg) == len(keep) and all(float(a) == float(b) for a, b in zip(arg, keep))
        ok_shape = out.shape == want_shape and out.dtype == np.float64 and untouched
        res.case(
            "ephemeris/batch_shape_and_input",
            case,
            bool(ok_shape),
            nontrivial=len(idx) >= 2,
            signature=f"C13/ephem/batch/shape_or_input/{name}/{cont}",
            observed={"shape": list(out.shape), "dtype": str(out.dtype), "input_untouched": untouched},
            expected={"shape": list(want_shape), "dtype": "float64"},
            item=item,
        )
        if out.shape != want_shape:
            continue
        rows = out.reshape(len(idx), 3)
        bad = [k for k, i in enumerate(idx) if not np.array_equal(rows[k], scalar[i])]
        errs = [fw.maxabs(rows[k], refs[i]) for k, i in enumerate(idx)]
        worst = int(np.argmax(errs))
        # rows are the same arithmetic on the same numbers as the single-epoch call (as ephemeris/vector_path: bitwise)
        res.case(
            "ephemeris/batch_rows_vs_scalar",
            case,
            not bad,
            nontrivial=len(idx) >= 2,
            signature=f"C13/ephem/batch/rows_vs_scalar/{name}/{pattern}",
            observed={"rows_differing": bad[:6], "row": rows[bad[0]] if bad else None,
                      "err_km": fw.maxabs(rows[bad[0]], scalar[idx[bad[0]]]) if bad else 0.0},
            expected={"row": scalar[idx[bad[0]]]} if bad else "each row == single-epoch evaluation",
            outcome=f"{'same' if not bad else 'differs'}/{order}/{pattern}",
            item=item,
        )
        res.case(
            "ephemeris/batch_rows_vs_reference",
            case,
            bool(errs[worst] <= tol_ref) and bool(np.all(np.isfinite(rows))),
            nontrivial=len(idx) >= 2,
            signature=f"C13/ephem/batch/rows_vs_reference/{name}/{pattern}",
            observed={"worst_row": worst, "err_km": errs[worst], "row": rows[worst]},
            expected={"row": refs[idx[worst]], "tol_km": tol_ref},
            outcome="agree" if errs[worst] <= tol_ref else "differ",
            item=item,
        )
        if family in ("pool_palindrome", "pool_descending") or (family == "tuples_3" and idx[0] == idx[2]):
            res.observe(rows)
        if scale_fn is not None and not scalar_like and cont in ("list", "ndarray"):
            xs, ks = scale_fn(arg, jd0, interval)
            ok = np.shape(xs) == (len(idx),) and np.shape(ks) == (len(idx),) and all(
                float(xs[k]) == float(scaled[i][0]) and int(ks[k]) == int(scaled[i][1])
                for k, i in enumerate(idx)
            )
            res.case(
                "ephemeris/batch_scale_inputs",
                case,
                bool(ok),
                nontrivial=len(idx) >= 2,
                signature=f"C13/ephem/batch/scale_inputs/{name}/{pattern}",
                observed={"x": np.asarray(xs), "idx": np.asarray(ks)},
                expected={"x": [float(scaled[i][0]) for i in idx], "idx": [int(scaled[i][1]) for i in idx]},
                item=item,
            )


# ------------------------------------------------------------------------------------------------ constants
def _run_constants(res, item):
    def eq(name, got, want, rel):
        ok = abs(float(got) - want) <= rel * abs(want)
        res.case(
            "constants",
            {"name": name, "rel_tol": rel},
            bool(ok),
            nontrivial=True,
            key=name,
            signature=f"C13/constants/{name}",
            observed=float(got),
            expected=want,
            item=item,
        )

    eq("Earth.mu", Earth.mu, fr.MU_EARTH, 0.0)
    eq("Earth.radius", Earth.radius, fr.R_EARTH, 0.0)
    eq("SPEED_OF_LIGHT", const.SPEED_OF_LIGHT, fr.C_LIGHT, 0.0)
    eq("SOLAR_FLUX", const.SOLAR_FLUX, fr.SOLAR_FLUX, 0.0)
    eq("SOLAR_PRESSURE", const.SOLAR_PRESSURE, fr.SOLAR_FLUX / fr.C_LIGHT, 4 * EPS)
    eq("Sun.radius", Sun.radius, fr.R_SUN, 0.0)
    eq("AU2KM", const.AU2KM, fr.AU_IAU, 1e-5)  # the library carries a 6-digit AU (7.6e-6 from the IAU value)
    for b in fr.BODIES:
        eq(f"{b}.mu", LIB_BODY[b].mu, fr.GM_LIT[b], 1e-7)
    eq("DAYS2SEC", const.DAYS2SEC, 86400.0, 0.0)
    eq("KM2M", const.KM2M, 1000.0, 0.0)
    eq("M2KM", const.M2KM, 0.001, 0.0)
    # zonal constants of Earth against the EGM2008 file they are documented to come from: J_n = -Cbar_n0 sqrt(2n+1)
    cbar, _, _, _ = fr.load_coefficients("egm2008.txt")
    eq("Earth.j2", Earth.j2, -cbar[2, 0] * math.sqrt(5.0), 1e-12)
    eq("Earth.j3", Earth.j3, -cbar[3, 0] * math.sqrt(7.0), 1e-12)
    eq("Earth.j4", Earth.j4, -cbar[4, 0] * math.sqrt(9.0), 1e-12)
    # third-body factory: name -> class mapping
    for b in fr.BODIES:
        got = sp_mod.thirdBodyFactory([b.upper() if b == "moon" else b])
        res.case(
            "constants/third_body_factory",
            {"name": b},
            list(got.keys()) == [LIB_BODY[b]],
            nontrivial=True,
            key=b,
            signature="C13/constants/third_body_factory",
            observed=[k.__name__ for k in got],
            expected=LIB_BODY[b].__name__,
            item=item,
        )
    try:
        sp_mod.thirdBodyFactory(["pluto"])
        raised = False
    except ValueError:
        raised = True
    res.case(
        "constants/third_body_factory",
        {"name": "pluto"},
        raised,
        nontrivial=True,
        key="pluto",
        signature="C13/constants/third_body_factory_unknown",
        observed="no error" if not raised else "ValueError",
        expected="ValueError",
        item=item,
    )
    got_all = sp_mod.thirdBodyFactory(list(fr.BODIES))
    res.case(
        "constants/third_body_factory",
        {"name": "all"},
        set(got_all.keys()) == set(LIB_BODY.values()) and len(got_all) == 5,
        nontrivial=True,
        key="all",
        signature="C13/constants/third_body_factory",
        observed=[k.__name__ for k in got_all],
        item=item,
    )


# ------------------------------------------------------------------------------------------------ oracle self check
def _run_selfcheck(res, item):
    """Harness consistency: three independent routes of the reference agree with each other (no library code)."""
    for model in MODELS:
        cbar, sbar, _, _ = fr.load_coefficients(model)
        terms = fr._term_list(cbar, sbar, 8, 8)
        for lat, lon, rad in [(33.0, -100.0, 6678.0), (-71.0, 15.0, 7178.0), (89.9999, 10.0, 6678.0)]:
            la, lo = math.radians(lat), math.radians(lon)
            p = rad * np.array([math.cos(la) * math.cos(lo), math.cos(la) * math.sin(lo), math.sin(la)])
            an = fr.geopotential_accel_terms(p, terms)
            fd = fr.geopotential_accel_fd(p, terms)
            res.case(
                "oracle_selfcheck/gradient_vs_finite_difference",
                {"model": model, "lat": lat},
                fw.maxabs(an, fd) <= 1e-10 * _norm(an),
                signature="C13/oracle_selfcheck/fd",
                observed=an,
                expected=fd,
                item=item,
            )
        for sign in (1, -1):
            p = np.array([0.0, 0.0, sign * 6678.0])
            an = fr.geopotential_accel_terms(p, terms)
            cl = fr.geopotential_accel_pole(sign, 6678.0, terms)
            res.case(
                "oracle_selfcheck/pole_closed_form",
                {"model": model, "sign": sign},
                fw.maxabs(an, cl) <= 1e-13 * _norm(an),
                signature="C13/oracle_selfcheck/pole",
                observed=an,
                expected=cl,
                item=item,
            )
    a = 0.00465
    for b, c in [(0.3, 0.2961), (0.3, 0.3), (0.3, 0.3040), (1.2, 1.1990), (0.1, 0.0999)]:
        closed = 1.0 - fr.lens_area(a, b, c)[0] / (math.pi * a * a)
        quad = fr.sun_visible_fraction_quadrature(a, b, c)
        res.case(
            "oracle_selfcheck/lens_vs_quadrature",
            {"b": b, "c": c},
            abs(closed - quad) <= 2e-5,
            signature="C13/oracle_selfcheck/lens",
            observed=closed,
            expected=quad,
            item=item,
        )


# ------------------------------------------------------------------------------------------------ dispatch
def run_item(item):
    res = fw.Result()
    try:
        _dispatch(res, item)
    except Exception as exc:  # noqa: BLE001
        import traceback  # noqa: PLC0415

        frames = traceback.extract_tb(exc.__traceback__)
        if not frames or "/resonaate/" not in frames[-1].filename:
            raise  # harness error
        # the implementation raised on a lattice point: that is a violation of "equals the reference at every ..."
        res.case(
            f"exception/{item[0]}",
            {"item_kind": item[0], "where": f"{frames[-1].filename.split('/resonaate/')[-1]}:{frames[-1].lineno}"},
            False,
            signature=f"C13/exception/{item[0]}/{type(exc).__name__}",
            observed=f"{type(exc).__name__}: {exc}"[:300],
            item=item,
        )
    return res


def _dispatch(res, item):
    kind = item[0]
    if kind == "geopot":
        _run_geopot(res, item)
    elif kind == "perturb":
        _run_perturb(res, item)
    elif kind == "batch":
        _run_batch(res, item)
    elif kind == "harmonics":
        _run_harmonics(res, item)
    elif kind == "coeff":
        _run_coeff(res, item)
    elif kind == "direct":
        _run_direct(res, item)
    elif kind == "sunfrac":
        _run_sunfrac(res, item)
    elif kind == "ephem_edges":
        _run_ephem_edges(res, item)
    elif kind == "ephem_segment":
        _run_ephem_segment(res, item)
    elif kind == "ephem_analytic":
        _run_ephem_analytic(res, item)
    elif kind == "ephem_batch":
        _run_ephem_batch(res, item)
    elif kind == "batch_layouts":
        _run_batch_layouts(res, item)
    elif kind == "factory":
        _run_factory(res, item)
    elif kind == "constants":
        _run_constants(res, item)
    elif kind == "oracle_selfcheck":
        _run_selfcheck(res, item)
    else:
        raise ValueError(kind)
