"""C15 - finite burns / finite maneuvers thrust for exactly their configured interval.

Lattice explorer over (burn interval x step grid x thrust kind x dynamics x orbit) on the real code at two levels:

* agent level: a real ``TargetAgent`` (``TargetAgent.fromConfig`` + ``dynamicsFactory`` + real ``ScenarioClock``);
  the real ``ScheduledFiniteBurn`` / ``ScheduledFiniteManeuver`` objects are queued with ``appendPropagateEvent``
  exactly as ``handleEvent`` does (mode "direct": exact float times; mode "row": through the real event row
  ``Event.concreteFromConfig(cfg).handleEvent(agent)``), once per step whose event window contains the burn (as
  ``Scenario.stepForward`` does), and each step is ``prunePropagateEvents()`` + ``dynamics.propagate(t, t+dt, ...)``.
* scenario level: real truth-only ``Scenario`` runs with ``finite_burn`` / ``finite_maneuver`` event configs.
* two or three finite events queued for one agent (``protocol2`` / ``sched2`` / ``scenario2``): every relation of the
  intervals to the step grid and to each other, in every queue order - what ``Celestial._prepEvents`` /
  ``_applyEvents`` do with the single ``finite_thrust`` slot when the queue holds an active and a waiting event.

* a finite event and ANOTHER event of the same agent at one instant (``protocol_ci`` / ``protocol_ci2`` /
  ``coincide`` / ``columns2`` / ``scenario_ci``): an impulse exactly at the burn start, exactly at the burn end, inside
  and outside the burn, in both list orders, through ``Celestial.propagate`` in one call, split over step-sized calls and
  through ``Celestial.propagateBulk`` (also: two-burn schedules through ``propagateBulk``, ``bulk_sched2``) - what
  ``propagate`` / ``propagateBulk`` do when the solver reports only the first of several terminal events found at one
  time, and what ``propagateBulk`` does with more than one scheduled event.
* degenerate burns (``degenerate`` / ``protocol_z2`` / extra points of ``protocol``, ``protocol_ci``, ``scenario``): a
  finite event of zero length (end == start, the default of a configuration that omits ``end_time``) delivers nothing;
  a 0.5 s burn delivers 0.5 s of thrust.

Oracle: ``verif.oracles.c15_thrust`` - own thrust laws, own DOP853 integration (rtol 1e-11) of the library's gravity
derivative (no thrust armed) with the thrust term added only for t in [t_start, t_end] and impulses added once, at their
instant, in their frame.
"""
from __future__ import annotations

import copy
from datetime import datetime, timedelta
from functools import partial

import numpy as np

from verif import framework as fw
from verif import scen  # installs fake ray before resonaate is imported

import resonaate.dynamics.celestial as _celestial  # noqa: E402
from resonaate.dynamics.integration_events.station_keeping import StationKeeper  # noqa: E402
from resonaate.agents.target_agent import TargetAgent  # noqa: E402
from resonaate.data import setDBPath  # noqa: E402
from resonaate.data.events import Event  # noqa: E402
from resonaate.data.events.base import ThrustFrame  # noqa: E402
from resonaate.data.events.finite_maneuver import ManeuverType  # noqa: E402
from resonaate.dynamics import dynamicsFactory  # noqa: E402
from resonaate.dynamics.integration_events.event_stack import EventStack  # noqa: E402
from resonaate.dynamics.integration_events.finite_thrust import (  # noqa: E402
    ScheduledFiniteBurn,
    ScheduledFiniteManeuver,
    eciBurn,
    ntwBurn,
    planeChangeThrust,
    spiralThrust,
)
from resonaate.dynamics.integration_events.scheduled_impulse import (  # noqa: E402
    ScheduledECIImpulse,
    ScheduledImpulse,
)
from resonaate.physics.time.stardate import ScenarioTime  # noqa: E402
from resonaate.scenario.clock import ScenarioClock  # noqa: E402
from resonaate.scenario.config import ScenarioConfig  # noqa: E402
from resonaate.scenario.config.agent_config import AgentConfig  # noqa: E402
from resonaate.scenario.config.event_configs import (  # noqa: E402
    ScheduledFiniteBurnConfig,
    ScheduledFiniteManeuverConfig,
)

from verif.oracles import c15_thrust as orc  # noqa: E402

PROPERTY = "C15"
LEVEL = "model_checking"
RULE = (
    "every (t_start, t_end) pair of the 6-point alphabet {k*dt, k*dt+1, k*dt+dt/2, (k+1)*dt-1, (k+1)*dt, (k+2)*dt+7} "
    "x step size x thrust kind {eci burn, ntw burn, spiral maneuver, plane-change maneuver} x dynamics "
    "{SpecialPerturbations(2,0), TwoBody} x orbit, run step by step on a real TargetAgent (prunePropagateEvents + "
    "propagate, events queued as handleEvent does, directly and through the real event row) and, for a pattern "
    "subset, through a real truth-only Scenario; the state after EVERY step is compared with an independent DOP853 "
    "integration that thrusts only inside [t_start, t_end]; the delivered delta-v (projection of the velocity gained "
    "over the coasting reference) is compared with that of the reference burn (= acceleration*(t_end-t_start) plus "
    "the tidal term); a mismatch is labelled by the recorded defect that reproduces it exactly (thrust kept on to the "
    "end of the step containing the end / burn inside the integrator step that landed on its end skipped / no thrust "
    "at all) or 'unexplained'; plus: every (t_start, t_end) pair of 15 instants through Celestial.propagate on a "
    "gravity-free harness dynamics with a closed-form oracle (protocol), direct lattices over the thrust laws, the "
    "event function / callback, the constructor validation and the pruning rule, two-burn and burn+impulse queues, "
    "a 2-column state, and burns that start at the scenario epoch (watchdog against non-termination). "
    "TWO OR THREE FINITE EVENTS QUEUED FOR ONE AGENT (never overlapping; the later may start at the instant the "
    "earlier ends): (i) protocol2 - every chain of 2 intervals over 12 instants (715 chains, eci+eci; 126 chains over "
    "8 instants for eci+spiral and spiral+eci) and every chain of 3 intervals over 7 instants (84), in EVERY order "
    "of the event list (2 / 6 permutations), handed to four consecutive Celestial.propagate calls on the "
    "gravity-free harness dynamics either whole ('all': ended and far-future events included) or as "
    "Scenario.stepForward + pruning would ('window'), event objects persisting across the calls; closed-form velocity "
    "after every call; (ii) agent_sched2 - every chain of 2 intervals over the two-event alphabet {dt+1, 1.5dt, 2dt, "
    "2dt+1, 2.5dt, 3dt, 3dt+7, [3.5dt thorough only], 5.5dt} plus 12 named schedules, both queue orders (delivery "
    "order AB, and BA imposed on the whole queue before pruning), both dynamics, kinds rotating with the lattice "
    "index through 6 (burn, maneuver) pairs, on a real TargetAgent stepped as the propagation job does (quick: the "
    "lattice at dt=60, the named schedules at every step size); (iii) scenario2 - the 12 named schedules x both "
    "orders of the events in the config x both dynamics through a real truth-only Scenario. The region of a "
    "two-event case names the relation of the intervals: first_active_second_queued (the first is in progress at a "
    "step boundary at which the second is already in the queue, waiting), second_starts_in_step_first_ends, "
    "touching_on_grid / touching_off_grid (back-to-back), gap. "
    "A FINITE EVENT AND ANOTHER EVENT OF THE SAME AGENT AT ONE INSTANT (the solver reports only the first of several "
    "terminal events found at one time), and propagateBulk with several events: (iv) protocol_ci - on the gravity-free "
    "harness, every (t_start, t_end) pair of the 15 protocol instants x an ECI impulse at every one of the 15 instants "
    "(at the start, at the end, inside, outside; on and off the call boundaries) x both list orders (impulse ahead of / "
    "behind the burn) x {Celestial.propagate in one call [0,180], three step-sized calls with the list delivered and "
    "pruned as the propagation job does, Celestial.propagateBulk with the call boundaries as output times}; closed-form "
    "velocity at every output time (1e-12 km/s) and final position; (v) protocol_ci2 - every chain of 2 ECI burns over "
    "6 instants (35 chains, back-to-back included) x an ECI impulse at each of the 6 instants (up to three events at "
    "one instant) x all 6 orders of the three-event list x {calls given the whole list, calls given the step's window, "
    "propagateBulk}; protocol_ci3 - every interval over the same 6 instants x TWO ECI impulses at every pair of "
    "instants (equal included: burn end + two impulses at one instant) x all 6 list orders x the three modes; "
    "bulk_single - every agent_direct case and every protocol interval (ONE burn, which may start and end between two "
    "consecutive output times) through ONE propagateBulk call with the step boundaries as output times; "
    "(vi) coincide - every thrust kind {eci, ntw burn; spiral, plane-change maneuver} x 5 intervals "
    "(start / end on and off the step grid, across a boundary, inside one step) x impulse {at t_start, at t_end, at "
    "the middle, on the step boundary inside the burn, after the burn (quick: TwoBody only)} x impulse frame {ECI, NTW} x both list orders x "
    "{propagate in one call, a real TargetAgent stepped as the propagation job does, propagateBulk with the step "
    "boundaries as output times} on TwoBody (every step size) and SpecialPerturbations (quick: dt=60), compared at "
    "every output time with the independent integration (thrust only inside [t_start, t_end], the delta-v added once, "
    "at its instant, in the frame of the state it finds); delivered burn delta-v = that of the reference burn "
    "(acceleration x (t_end - t_start) plus the tidal term); (vii) columns2 - a (6,2) state, ntw burn / plane-change "
    "maneuver + ECI impulse at its start / end / inside, both orders, stepwise propagate and propagateBulk, each column "
    "against its own reference; (viii) bulk_sched2 - every two-event schedule of agent_sched2, in the same list "
    "order, through ONE propagateBulk call with the step boundaries as output times; (ix) scenario_ci - 8 patterns "
    "(impulse at the burn end / start on and off the grid, burn inside one step, across two boundaries, impulse inside) "
    "x both orders of the two events in the config x both dynamics through a real truth-only Scenario (finite_burn / "
    "finite_maneuver event + impulse event of the same target configured at the same datetime; the coincidence must "
    "survive the Julian-date rounding). A mismatch is labelled coincident_impulse_dropped / thrust_runs_to_step_end "
    "(= to the end of the call) / no_thrust_applied / start_at_previous_end_missed / error / unexplained. "
    "non-trivial = the burn start or end is not on a step boundary or the burn spans >= 2 steps (trajectory cases); "
    "every two/three-event case; every burn+impulse case whose impulse is not outside the burn (protocol_ci) / every "
    "coincide, columns2, bulk case; both hemispheres / non-circular states (thrust laws); distinct by construction "
    "(lattice points). "
    "DEGENERATE BURNS: a finite event of ZERO length (end_time == start_time - what a configuration that omits "
    "end_time asks for) delivers nothing, a 0.5 s one delivers acceleration x 0.5 s: (x) protocol - besides the 105 "
    "pairs, a zero-length burn at each of the 15 instants and five 0.5 s burns (ending on / starting on / straddling / "
    "off a call boundary), each through three calls, ONE propagate call [0,180] and propagateBulk; protocol_ci - a "
    "zero-length burn at 5 instants x an impulse at every instant (start root, end root and impulse at one instant) x "
    "orders x modes; protocol_z2 - every interval over 6 instants + a zero-length burn at every instant not strictly "
    "inside it (at its start, at its end, apart) x both list orders x three modes; (xi) degenerate - every thrust kind x "
    "the dynamics / step sizes of coincide x {zero length off the grid, on the grid, at a fractional second; 0.5 s off the "
    "grid, ending on it, starting on it} x {real TargetAgent with the event queued directly, through the real event row "
    "of a configuration WITHOUT end_time, propagate in one call, propagateBulk}; (xii) scenario - the pattern set "
    "includes a zero-length event off / on the grid (event config without end_time) and a 0.5 s burn, every kind, both "
    "dynamics. Regions of zero-length cases are named zero_length_on_grid / zero_length_off_grid; all are non-trivial."
)
ASSUMPTIONS = [
    "the library's gravity derivative (_differentialEquation with no thrust armed) is the subject of other properties "
    "and is reused by the oracle; only the thrust term and its timing are independent",
    "calendar/Julian-date conversion (C05) is trusted for the 4e-5 s rounding of event times stored as Julian dates",
    "scipy DOP853 at rtol 1e-11 / atol 1e-13, split at every discontinuity, is the reference integrator",
    "overlapping finite burns on one agent are outside the design (single Celestial.finite_thrust slot) and are not "
    "enumerated; burns that touch (the later starts at the instant the earlier ends) are not overlapping and are",
    "the order of an agent's propagate_event_queue / of the scheduled_events list is not part of the contract: "
    "every order must fly the same trajectory",
    "an impulse and a finite event of one agent at the same instant commute (the thrust term is bounded; the state is "
    "continuous across the start / end of a burn), so the reference does not depend on which is applied first; two "
    "NTW impulses at one instant (which do not commute to second order) are not enumerated here (C01)",
    "propagateBulk reports at an output time that coincides with an impulse the state AFTER the impulse (the library's "
    "documented handling of an event on a `times` entry), as propagate(t0, t) does",
    "an NTW impulse on a multi-column state is defined by the first column only (library design); the 2-column cases "
    "use ECI impulses",
    "a finite event whose end_time equals its start_time (EventConfigBase: end_time defaults to start_time) thrusts for "
    "acceleration x 0 s = nothing; a zero-length event strictly inside another burn of the same agent counts as "
    "overlapping (outside the design) and is not enumerated",
]
EXPECT_MIN_NONTRIVIAL = 10000

# ---------------------------------------------------------------------------------------------- tolerances
# Error sources: library RK45 (rtol 1e-10, atol 1e-12) vs DOP853 (1e-11): measured <= 8e-10 km/s and <= 1.0e-6 km over
# 1800 s with a burn; event times stored as Julian dates are rounded by <= 4e-5 s -> 1e-5 km/s^2 * 4e-5 s = 4e-10 km/s.
# Smallest defect to expose: a 1 s timing error at 1e-5 km/s^2 = 1e-5 km/s (and >= 6e-4 km one step later).
# TOL_V is > 100x the error sources and 100x below the defect; TOL_R is 20x the integrator error, 30x below the defect.
TOL_V = 1e-7  # km/s
TOL_R = 2e-5  # km
TOL_DV = 2e-7  # km/s, projection of a velocity difference (|d.u| <= sqrt(3)*TOL_V)

MU = 398600.4418
TARGET_ID = 10001
MODELS = {"special_perturbations": "SpecialPerturbations", "two_body": "TwoBody"}


class PropagationStall(RuntimeError):
    """Raised by the harness watchdog when Celestial.propagate restarts solve_ivp without advancing time."""


class _Watchdog:
    """Pass-through wrapper of ``solve_ivp`` in the library's namespace: counts consecutive restarts that did not
    advance the start time by 1e-9 s and aborts the case instead of letting the harness hang."""

    LIMIT = 100

    def __init__(self, real):
        self.real = real
        self.last = None
        self.stall = 0
        self.log = []

    def reset(self):
        self.last = None
        self.stall = 0
        self.log = []

    def __call__(self, fun, t_span, y0, *args, **kwargs):
        t0 = float(t_span[0])
        if self.last is not None and abs(t0 - self.last) < 1e-9:
            self.stall += 1
        else:
            self.stall = 0
        self.last = t0
        if self.stall > self.LIMIT:
            self.reset()
            raise PropagationStall(f"solve_ivp restarted >{self.LIMIT} times without advancing from t={t0!r}")
        sol = self.real(fun, t_span, y0, *args, **kwargs)
        if len(self.log) < 1000:
            self.log.append(np.array(sol.t, dtype=float))  # the integrator's own step endpoints (no t_eval in propagate)
        return sol


if not isinstance(_celestial.solve_ivp, _Watchdog):
    _celestial.solve_ivp = _Watchdog(_celestial.solve_ivp)
WATCHDOG = _celestial.solve_ivp


def worker_init():
    scen.fresh()


# ---------------------------------------------------------------------------------------------- alphabet
def _points(dt, k):
    return [k * dt, k * dt + 1, k * dt + dt // 2, (k + 1) * dt - 1, (k + 1) * dt, (k + 2) * dt + 7]


def _pairs(dt, k):
    pts = _points(dt, k)
    return [(a, b) for i, a in enumerate(pts) for b in pts[i + 1 :]]


REDUCED = [(0, 3), (1, 4), (2, 5), (0, 5), (1, 2)]  # index pairs into _points for the extra orbits


def _reduced_pairs(dt, k):
    pts = _points(dt, k)
    return [(pts[i], pts[j]) for i, j in REDUCED]


def _epoch(seed):
    # lattice phase only: which day / second of day the scenario starts at (EOP table covers 2014-2022)
    return datetime(2019, 3, 1, 0, 0, 0) + timedelta(days=(seed * 97) % 900, seconds=(seed * 7919 + 43230) % 86400)


def _spec(kind, seed):
    sgn = -1.0 if seed % 2 else 1.0
    if kind == "eci":
        return {"kind": "eci", "acc": [0.8e-5 * sgn, -0.5e-5, 0.3e-5]}
    if kind == "ntw":
        return {"kind": "ntw", "acc": [0.3e-5, 0.8e-5 * sgn, -0.5e-5]}
    if kind == "spiral":
        return {"kind": "spiral", "mag": 1.0e-5 * sgn}
    if kind == "plane_change":
        return {"kind": "plane_change", "mag": -1.0e-5 if seed % 3 == 2 else 1.0e-5}
    raise ValueError(kind)


def _acc_norm(spec):
    return float(np.linalg.norm(spec["acc"])) if "acc" in spec else abs(spec["mag"])


def _orbit(name, dt, seed):
    """ECI state of the named orbit family, rotated about the polar axis by a (slightly seed-dependent) angle."""
    inc = np.radians(50.0)
    if name in ("up", "down", "cross"):
        a = 7000.0
        period = 2 * np.pi * np.sqrt(a**3 / MU)
        if name == "up":
            u = np.radians(15.0)
        elif name == "down":
            u = np.radians(195.0)
        else:  # crosses the equatorial plane northwards about 2.2 steps after the start (inside most burns)
            u = -2 * np.pi * (2.2 * dt) / period
        r = a * np.array([np.cos(u), np.sin(u) * np.cos(inc), np.sin(u) * np.sin(inc)])
        v = 1.03 * np.sqrt(MU / a) * np.array([-np.sin(u), np.cos(u) * np.cos(inc), np.cos(u) * np.sin(inc)])
    elif name == "ecc":  # a = 12000 km, e = 0.3, true anomaly 60 deg, inclination 50 deg: N is far from radial
        a, e, nu = 12000.0, 0.3, np.radians(60.0)
        p = a * (1 - e * e)
        rm = p / (1 + e * np.cos(nu))
        rp = rm * np.array([np.cos(nu), np.sin(nu), 0.0])
        vp = np.sqrt(MU / p) * np.array([-np.sin(nu), e + np.cos(nu), 0.0])
        rot = np.array([[1, 0, 0], [0, np.cos(inc), -np.sin(inc)], [0, np.sin(inc), np.cos(inc)]])
        r, v = rot @ rp, rot @ vp
    else:
        raise ValueError(name)
    # base azimuth chosen so that sign(x) != sign(z) on "up" and sign(y) != sign(z) on "down" (a hemisphere test on the
    # wrong component then shows in the trajectories too); the seed only moves the phase by +-40 deg
    base = {"up": 135.0, "down": 315.0, "cross": 135.0, "ecc": 200.0}[name]
    phi = np.radians(base + ((seed * 37) % 81) - 40.0)
    rz = np.array([[np.cos(phi), -np.sin(phi), 0], [np.sin(phi), np.cos(phi), 0], [0, 0, 1]])
    return [float(x) for x in rz @ r], [float(x) for x in rz @ v]


def _tier_dims(tier, seed):
    if tier == "thorough":
        return {"dts": [30, 60, 300, 450], "ks": [1, 2], "orbits": ["up", "down", "ecc"], "full_extra": True,
                "sched_lattice_dts": [30, 60, 300, 450]}
    return {"dts": [60, 300], "ks": [1], "orbits": ["up", "down"], "full_extra": False, "sched_lattice_dts": [60]}


KINDS = ["eci", "ntw", "spiral", "plane_change"]
# The "cross" family (equatorial crossing inside the burn) is used for the thrust-law lattice only: the library steps
# over the plane-change law's own sign flip without an event, which costs it up to 4e-8 km/s / 3e-5 km (measured) -
# an integration-accuracy matter, not a timing one, and too close to TOL_V / TOL_R for a sound trajectory comparison.
EXTRA_QUICK = [("plane_change", "ecc"), ("ntw", "ecc"), ("spiral", "ecc")]


def items(tier, seed):
    dims = _tier_dims(tier, seed)
    out = []
    # cheap direct lattices first (also the items replayed by the determinism self-check)
    out.append(("thrust_law", seed))
    out.append(("event_function", seed))
    out.append(("prune_direct", seed))
    out.append(("protocol", seed))
    for model in MODELS:
        for dt in dims["dts"]:
            for k in dims["ks"]:
                for kind in KINDS:
                    for orbit in dims["orbits"]:
                        for chunk in fw.chunked(_pairs(dt, k), 5):
                            out.append(("agent", model, dt, k, kind, orbit, "direct", seed, chunk))
                if not dims["full_extra"]:
                    for kind, orbit in EXTRA_QUICK:
                        out.append(("agent", model, dt, k, kind, orbit, "direct", seed, _reduced_pairs(dt, k)))
    # through the real event rows (Julian-date rounded times)
    row_dts = [60] if tier == "quick" else [60, 300]
    for model in MODELS:
        for dt in row_dts:
            for kind in KINDS:
                for chunk in fw.chunked(_pairs(dt, 1), 5):
                    out.append(("agent", model, dt, 1, kind, "up", "row", seed, chunk))
    for model in MODELS:
        for dt in (60, 300):
            out.append(("epoch_start", model, dt, seed))
            out.append(("multi", model, dt, seed))
    # scenario level
    scen_dts = [60] if tier == "quick" else [60, 300]
    for model in MODELS:
        for dt in scen_dts:
            for kind in KINDS:
                pats = _scenario_patterns(dt)
                for chunk in fw.chunked(pats, 3):
                    out.append(("scenario", model, dt, kind, "up" if kind != "plane_change" else "down", seed, chunk))
    for model in MODELS:
        out.append(("scenario_epoch_start", model, 60, seed))
    # two / three finite events queued for one agent
    for variant, (kinds, pts) in PROTO2_VARIANTS.items():
        chains = [[list(iv) for iv in ch] for ch in _chains(pts, len(kinds))]
        for chunk in fw.chunked(chains, 60 if len(kinds) == 2 else 14):
            out.append(("protocol2", seed, variant, chunk))
    for model in MODELS:
        for dt in dims["dts"]:
            pairs = _sched_pairs(dt, tier == "thorough") if dt in dims["sched_lattice_dts"] else _named_pairs(dt)
            for chunk in fw.chunked(pairs, 5 if model == "special_perturbations" else 25):
                out.append(("sched2", model, dt, seed, chunk))
    for model in MODELS:
        for dt in scen_dts:
            rels = [[i, name, list(a), list(b)] for i, (name, a, b) in enumerate(_relations(dt))]
            for chunk in fw.chunked(rels, 2):
                out.append(("scenario2", model, dt, seed, chunk))
    # a finite event and an impulse of the same agent at one instant (and propagateBulk with several events)
    ci_pairs = [[a, b] for i, a in enumerate(PROTO_TIMES) for b in PROTO_TIMES[i + 1:]]
    ci_pairs += [[t, t] for t in PROTO_CI_ZERO]  # a zero-length burn: start root, end root and impulse at one instant
    for chunk in fw.chunked(ci_pairs, 15):
        out.append(("protocol_ci", seed, chunk))
    for chunk in fw.chunked([[list(iv) for iv in ch] for ch in _chains(PROTO_CI2_TIMES, 2)], 6):
        out.append(("protocol_ci2", seed, chunk))
    for chunk in fw.chunked([[a, b] for i, a in enumerate(PROTO_CI2_TIMES) for b in PROTO_CI2_TIMES[i + 1:]], 3):
        out.append(("protocol_ci3", seed, chunk))
    for chunk in fw.chunked([[a, b] for i, a in enumerate(PROTO_CI2_TIMES) for b in PROTO_CI2_TIMES[i + 1:]], 8):
        out.append(("protocol_z2", seed, chunk))
    for model, dt in _ci_dims(tier):
        for kind in KINDS:
            idxs = list(range(len(_ci_intervals(dt))))
            # items of roughly equal cost: SpecialPerturbations is ~15x dearer per trajectory than TwoBody
            for chunk in fw.chunked(idxs, 1 if model == "special_perturbations" else len(idxs)):
                out.append(("coincide", model, dt, kind, seed, chunk, _ci_with_outside(tier, model)))
        out.append(("columns2", model, dt, seed))
        for kind in KINDS:
            out.append(("degenerate", model, dt, kind, seed))
    for model in MODELS:
        for dt in scen_dts:
            pats = [[i, where, list(iv), ti] for i, (where, iv, ti) in enumerate(_scenario_ci_patterns(dt))]
            for chunk in fw.chunked(pats, 2):
                out.append(("scenario_ci", model, dt, seed, chunk))
    return out


def _scenario_patterns(dt):
    return [
        (dt + 1, 2 * dt - 1),  # inside one step
        (dt, 2 * dt),  # exactly one step, both ends on the grid
        (dt // 2, 2 * dt + dt // 2),  # spans three steps, both ends off the grid
        (dt + 1, 3 * dt),  # start off, end on the grid
        (dt, 3 * dt + 7),  # start on, end off the grid
        (2 * dt - 1, 2 * dt + 1),  # straddles a boundary
        # degenerate: zero length (the event config then OMITS end_time: the documented default is start_time) off / on
        # the grid - nothing is delivered - and a 0.5 s burn
        (dt + 1, dt + 1),
        (2 * dt, 2 * dt),
        (dt + 1, dt + 1.5),
    ]


def bounds(tier, seed):
    dims = _tier_dims(tier, seed)
    return {
        "step_sizes": dims["dts"],
        "k": dims["ks"],
        "time_points": {str(dt): _points(dt, dims["ks"][0]) for dt in dims["dts"]},
        "pairs_per_grid": 15,
        "kinds": KINDS,
        "dynamics": list(MODELS.values()),
        "orbits": dims["orbits"] + ([] if dims["full_extra"] else [f"{k}:{o} (5 pairs)" for k, o in EXTRA_QUICK]),
        "acceleration_km_s2": 1e-5,
        "epoch": _epoch(seed).isoformat(),
        "scenario_patterns": {"60": _scenario_patterns(60)},
        "two_event_schedules": {
            "protocol2": {name: {"kinds_in_time_order": list(kinds), "instants": pts,
                                 "chains": len(_chains(pts, len(kinds))),
                                 "list_orders": len(_permutations(len(kinds))), "offer_modes": ["all", "window"],
                                 "calls": PROTO2_CALLS, "velocity_tolerance_km_s": PROTO2_TOL_V}
                          for name, (kinds, pts) in PROTO2_VARIANTS.items()},
            "agent_sched2": {
                "lattice_step_sizes": dims["sched_lattice_dts"],
                "named_only_step_sizes": [dt for dt in dims["dts"] if dt not in dims["sched_lattice_dts"]],
                "instants": {str(dt): _sched_points(dt, tier == "thorough") for dt in dims["sched_lattice_dts"]},
                "lattice_pairs_per_grid": len(_chains(_sched_points(60, tier == "thorough"), 2)),
                "named_schedules": [name for name, _, _ in _relations(60)],
                "queue_orders": ["AB", "BA"],
                "kind_pairs": [list(kp) for kp in KIND_PAIRS],
                "steps": f"ceil(second end / dt) + 1, at most {SCHED_STEPS}",
                "orbit": {str(dt): _sched_orbit(dt) for dt in dims["dts"]},
            },
            "scenario2": {"step_sizes": [60] if tier == "quick" else [60, 300],
                          "named_schedules": {name: [list(a), list(b)] for name, a, b in _relations(60)},
                          "config_orders": ["AB", "BA"]},
            "relation_histogram_of_lattice": _relation_histogram(dims["sched_lattice_dts"][0], tier == "thorough"),
        },
        "coincident_events": {
            "protocol_ci": {"instants": PROTO_TIMES, "burn_intervals": len(PROTO_TIMES) * (len(PROTO_TIMES) - 1) // 2,
                            "impulse_instants": len(PROTO_TIMES), "list_orders": CI_ORDERS, "modes": CI_MODES,
                            "calls": PROTO_CI_CALLS, "impulse_dv_km_s": PROTO_CI_DV,
                            "velocity_tolerance_km_s": PROTO2_TOL_V},
            "protocol_ci2": {"instants": PROTO_CI2_TIMES, "chains": len(_chains(PROTO_CI2_TIMES, 2)),
                             "impulse_instants": len(PROTO_CI2_TIMES), "list_orders": 6, "modes": PROTO_CI2_MODES},
            "protocol_ci3": {"instants": PROTO_CI2_TIMES, "burn_intervals": 15, "impulse_instant_pairs": 21,
                             "list_orders": 6, "modes": CI_MODES},
            "bulk_single": "every agent_direct case (interval x kind x dynamics x orbit) through one propagateBulk call; "
                           "every protocol interval through propagateBulk on the harness dynamics",
            "coincide": {"dynamics_x_step": [[MODELS[m], dt] for m, dt in _ci_dims(tier)], "kinds": KINDS,
                         "intervals": {str(dt): [list(iv) for iv in _ci_intervals(dt)]
                                       for dt in sorted({dt for _, dt in _ci_dims(tier)})},
                         "impulse_positions": {str(i): _ci_positions(60, i) for i in range(len(_ci_intervals(60)))},
                         "impulse_frames": ["eci", "ntw"], "impulse_dv_km_s": CI_DV, "list_orders": CI_ORDERS,
                         "modes": CI_MODES, "steps": CI_STEPS,
                         "impulse_after_the_burn_flown_on": [MODELS[m] for m in MODELS if _ci_with_outside(tier, m)]},
            "columns2": {"dynamics_x_step": [[MODELS[m], dt] for m, dt in _ci_dims(tier)],
                         "kinds": ["ntw", "plane_change"], "interval": "[dt+1, 3dt]",
                         "impulse_at": ["t_start", "t_end", "2dt+7"], "modes": ["split", "bulk"]},
            "bulk_sched2": "every agent_sched2 schedule and list order through one propagateBulk call",
            "degenerate_burns": {
                "protocol_zero_length_at": PROTO_TIMES, "protocol_short": [list(p) for p in PROTO_SHORT],
                "protocol_modes": ["three_calls", "one_call", "bulk"],
                "protocol_ci_zero_length_at": PROTO_CI_ZERO,
                "protocol_z2": {"instants": PROTO_CI2_TIMES, "burn_intervals": 15, "list_orders": 2, "modes": CI_MODES},
                "degenerate": {"dynamics_x_step": [[MODELS[m], dt] for m, dt in _ci_dims(tier)], "kinds": KINDS,
                               "intervals": {str(dt): [list(iv) for iv in _degenerate_intervals(dt)]
                                             for dt in sorted({dt for _, dt in _ci_dims(tier)})},
                               "modes": DEGEN_MODES, "zero_length_row": "event config without end_time"},
                "scenario": "patterns (dt+1, dt+1), (2dt, 2dt) [config without end_time], (dt+1, dt+1.5)",
            },
            "scenario_ci": {"step_sizes": [60] if tier == "quick" else [60, 300],
                            "patterns": [[w, list(iv), ti] for w, iv, ti in _scenario_ci_patterns(60)],
                            "kind_and_impulse_frame": [list(_scenario_ci_kind(i, seed))
                                                       for i in range(len(_scenario_ci_patterns(60)))],
                            "config_orders": CI_ORDERS},
        },
        "tolerances": {"velocity_km_s": TOL_V, "position_km": TOL_R, "delivered_dv_km_s": TOL_DV},
    }


# ---------------------------------------------------------------------------------------------- world
class World:
    """A real clock + scenario configuration; hands out real TargetAgents with their own real dynamics."""

    def __init__(self, model, dt, start, n_steps):
        scen.fresh()
        setDBPath("sqlite://")
        self.model, self.dt, self.start, self.n_steps = model, dt, start, n_steps
        self.clock = ScenarioClock(start, float(n_steps * dt), float(dt))
        base = scen.config(
            start,
            n_steps,
            [scen.engine(1, [scen.target_eci(TARGET_ID, *scen.LEO_A)], [scen.ground_sensor(20001, 10.0, 20.0)])],
            physics=dt,
            model=model,
            truth_only=True,
        )
        self.scfg = ScenarioConfig(**base)
        self._coast = {}

    def agent(self, pos, vel):
        tcfg = AgentConfig(**scen.target_eci(TARGET_ID, pos, vel))
        dyn = dynamicsFactory(tcfg, self.scfg.propagation, self.scfg.geopotential, self.scfg.perturbations, self.clock)
        return TargetAgent.fromConfig(tcfg, self.clock, dyn, self.scfg.propagation)

    def gravity(self, agent):
        ref = copy.deepcopy(agent.dynamics)
        ref.finite_thrust = None

        def g(t, y, ref=ref):
            return ref._differentialEquation(t, y, check_collision=False)  # noqa: SLF001

        return g


def _make_event(agent, spec, ts, te, mode, start):
    """Queue the burn on the agent the way handleEvent does; returns the (start, end) scenario times of the object."""
    n0 = len(agent.propagate_event_queue)
    if mode == "direct":
        if spec["kind"] in ("eci", "ntw"):
            func = partial(ThrustFrame(spec["kind"]).thrust, acc_vector=np.array(spec["acc"], dtype=float))
            obj = ScheduledFiniteBurn(ScenarioTime(ts), ScenarioTime(te), func, agent.simulation_id)
        else:
            func = partial(ManeuverType(spec["kind"]).thrust, magnitude=spec["mag"])
            obj = ScheduledFiniteManeuver(ScenarioTime(ts), ScenarioTime(te), func, agent.simulation_id)
        agent.appendPropagateEvent(obj)
    else:
        cfg = _event_config(spec, ts, te, start, as_model=True)
        Event.concreteFromConfig(cfg).handleEvent(agent)
    new = agent.propagate_event_queue[n0:]
    if len(new) != 1:
        raise AssertionError("handleEvent did not queue exactly one event")
    return float(new[0].start_time), float(new[0].end_time)


def _event_config(spec, ts, te, start, as_model=False):
    d = {
        "scope": "agent_propagation",
        "scope_instance_id": TARGET_ID,
        "start_time": start + timedelta(seconds=ts),
        "end_time": start + timedelta(seconds=te),
        "planned": False,
    }
    if te == ts:  # zero length: as a configuration that omits end_time (the documented default is start_time)
        del d["end_time"]
    if spec["kind"] in ("eci", "ntw"):
        d.update(event_type="finite_burn", acc_vector=list(spec["acc"]), thrust_frame=spec["kind"])
        return ScheduledFiniteBurnConfig(**d) if as_model else _iso_times(d)
    d.update(event_type="finite_maneuver", maneuver_mag=spec["mag"], maneuver_type=spec["kind"])
    return ScheduledFiniteManeuverConfig(**d) if as_model else _iso_times(d)


def _iso_times(d):
    d = dict(d)
    d["start_time"] = scen.iso(d["start_time"])
    if "end_time" in d:
        d["end_time"] = scen.iso(d["end_time"])
    return d


def _on_grid(t, dt):
    return float(t) / dt == round(float(t) / dt)


def _next_grid_after(t, dt):
    """First step boundary >= t (t itself when it is exactly on the grid)."""
    q = np.ceil(float(t) / dt)
    return float(q * dt)


# ---------------------------------------------------------------------------------------------- comparison
def _compare(lib, ref, times):
    """max |dv|, max |dr| over the step boundaries and the first step at which a tolerance is exceeded."""
    worst_v = worst_r = 0.0
    first_bad = None
    for k, t in enumerate(times):
        d = np.asarray(lib[k]) - ref[t]
        dv, dr = float(np.max(np.abs(d[3:]))), float(np.max(np.abs(d[:3])))
        worst_v, worst_r = max(worst_v, dv), max(worst_r, dr)
        if first_bad is None and (dv > TOL_V or dr > TOL_R):
            first_bad = k + 1
    return worst_v, worst_r, first_bad


def _classify(res, sub_prefix, level, model, case, lib_states, times, y0, gravity, burns_nominal, burns_effective, dt,
              impulses=(), item=None, nontrivial=True, coast=None, one_step=False, region=None, extra_hyp=(),
              ref=None):
    """Compare the library trajectory with the reference; on a mismatch decide whether one of the recorded
    defects explains it exactly (thrust kept on to the end of the step containing the burn end / no thrust at all /
    one of the ``extra_hyp`` = [(label, burns[, impulses])] alternatives supplied by the caller)."""
    mname = MODELS[model]
    if ref is None:  # callers that fly one schedule several ways pass the reference they already integrated
        ref = orc.integrate(gravity, y0, 0.0, times, burns_nominal, impulses)
    wv, wr, first_bad = _compare(lib_states, ref, times)
    ok = first_bad is None
    end_eff = max(te for _, te, _ in burns_effective)
    end_region = "end_on_grid" if all(_on_grid(te, dt) for _, te, _ in burns_effective) else "end_off_grid"
    if region is None:
        region = end_region
    label = "exact"
    explained_states = None
    if not ok:
        label = "unexplained"
        # hypothesis A: thrust runs to the end of the step that contains the (effective) burn end
        if end_region == "end_off_grid":
            hyp = [(ts, _next_grid_after(te, dt), spec) for ts, te, spec in burns_effective]
            ref_a = orc.integrate(gravity, y0, 0.0, times, hyp, impulses)
            if _compare(lib_states, ref_a, times)[2] is None:
                label = "thrust_runs_to_step_end"
                explained_states = ref_a
        if label == "unexplained":
            ref_n = coast if coast is not None else orc.integrate(gravity, y0, 0.0, times, [], impulses)
            if _compare(lib_states, ref_n, times)[2] is None:
                # no thrust at all; "one_step": the integrator step that landed exactly on the burn end began before
                # the burn start (the end-of-burn zero of the event function hid the start)
                skipped = one_step and end_region == "end_on_grid"
                label = "burn_inside_one_integrator_step_skipped" if skipped else "no_thrust_applied"
                explained_states = ref_n
        if label == "unexplained":
            for hyp in extra_hyp:  # (label, burns) or (label, burns, impulses)
                hyp_label, hyp_burns = hyp[0], hyp[1]
                ref_h = orc.integrate(gravity, y0, 0.0, times, hyp_burns, hyp[2] if len(hyp) > 2 else impulses)
                if _compare(lib_states, ref_h, times)[2] is None:
                    label = hyp_label
                    explained_states = ref_h
                    break
    sig = f"C15/{level}/interval/{mname}/{region}/{label}"
    case = dict(case, region=region, first_bad_step=first_bad)
    res.case(
        f"{sub_prefix}/interval",
        case,
        ok,
        nontrivial=nontrivial,
        signature=sig,
        observed={"max_dv_km_s": wv, "max_dr_km": wr, "first_bad_step": first_bad, "explained_by": label},
        expected={"max_dv_km_s": f"<= {TOL_V}", "max_dr_km": f"<= {TOL_R}"},
        outcome=label,
        item=item,
    )
    # delivered delta-v: velocity gained over the coasting reference, projected on the reference burn's gain
    if coast is None:
        coast = orc.integrate(gravity, y0, 0.0, times, [], impulses)
    t_f = times[-1]
    gain_ref = ref[t_f][3:] - coast[t_f][3:]
    gain_lib = np.asarray(lib_states[-1])[3:] - coast[t_f][3:]
    nrm = float(np.linalg.norm(gain_ref))
    burn_s = sum(te - ts for ts, te, _ in burns_nominal)
    a_dt = sum(_acc_norm(spec) * (te - ts) for ts, te, spec in burns_nominal)
    if burn_s == 0.0:
        # a burn of zero length delivers nothing: there is no direction to project on, the whole velocity gained over
        # the coasting reference is the error (reported as the seconds of thrust it amounts to)
        got = float(np.linalg.norm(gain_lib))
        ok_dv = got <= TOL_DV
        secs = got / max(_acc_norm(spec) for _, _, spec in burns_nominal)
        res.case(
            f"{sub_prefix}/delivered_dv",
            case,
            ok_dv,
            nontrivial=nontrivial,
            signature=f"C15/{level}/delivered_dv/{mname}/{region}/{label if not ok_dv else 'exact'}",
            observed={"delivered_dv_km_s": got, "equivalent_burn_s": secs},
            expected={"delivered_dv_km_s": 0.0, "burn_s": 0.0, "acceleration_x_duration": 0.0},
            outcome=f"{label}:{secs:+.1f}s" if not ok_dv else "exact",
            item=item,
        )
        res.observe(np.asarray(lib_states[-1]), wv, wr, got)
        return ok, label, end_eff, explained_states
    proj = float(gain_lib @ gain_ref / nrm)
    ok_dv = abs(proj - nrm) <= TOL_DV
    res.case(
        f"{sub_prefix}/delivered_dv",
        case,
        ok_dv,
        nontrivial=nontrivial,
        signature=f"C15/{level}/delivered_dv/{mname}/{region}/{label if not ok_dv else 'exact'}",
        observed={"delivered_dv_km_s": proj, "equivalent_burn_s": proj / nrm * burn_s},
        expected={"delivered_dv_km_s": nrm, "burn_s": burn_s, "acceleration_x_duration": a_dt},
        outcome=f"{label}:{(proj / nrm - 1.0) * burn_s:+.1f}s" if not ok_dv else "exact",
        item=item,
    )
    res.observe(np.asarray(lib_states[-1]), wv, wr, proj)
    return ok, label, end_eff, explained_states


def _audit_queue(res, sub_prefix, level, case, agent, offered, t_now, item):
    """After prunePropagateEvents at time t_now the queue must hold, exactly once, every offered finite-thrust event
    that has not ended yet (end > t_now) and nothing else."""
    got = sorted((float(e.start_time), float(e.end_time)) for e in agent.propagate_event_queue)
    want = sorted({(s, e) for s, e in offered if e > t_now and not abs(e - t_now) < 1e-15})
    res.case(
        f"{sub_prefix}/queue_after_prune",
        dict(case, t=t_now),
        got == want,
        nontrivial=len(offered) > len(want),
        signature=f"C15/{level}/queue_after_prune/{'kept_past' if len(got) > len(want) else 'lost_or_duplicate'}",
        observed=got,
        expected=want,
        item=item,
    )


class _QuietKeeper(StationKeeper):
    """A station keeper that never has anything to do (the library's StationKeeper event function over a condition that
    is never met): with it in the agent's station-keeping list a burn must be delivered exactly as without it."""

    @classmethod
    def fromInitECI(cls, rso_id, initial_eci, julian_date_start):  # noqa: ARG003
        return cls(rso_id)

    @classmethod
    def getConfigString(cls):
        return "verif quiet keeper"

    def interruptRequired(self, time, state):  # noqa: ARG002
        return False

    def getStateChange(self, time, state):  # noqa: ARG002
        raise AssertionError("the quiet keeper never fires")


def _step_agent(agent):
    WATCHDOG.reset()
    t0 = agent.time
    new = agent.dynamics.propagate(
        t0,
        t0 + agent.dt_step,
        agent.eci_state,
        station_keeping=agent.station_keeping,
        scheduled_events=agent.propagate_event_queue,
    )
    agent.time = t0 + agent.dt_step
    agent.eci_state = new
    STEP_LOG.extend(WATCHDOG.log)
    return np.array(new, dtype=float)


STEP_LOG = []  # integrator step endpoints of the current case (harness observation only)


def _inside_one_integrator_step(ts, te):
    """True iff some internal integrator step (a, b] of the logged solve_ivp calls started before the burn start and
    ended exactly on the burn end, i.e. the whole burn lay inside the integrator step that landed on its end."""
    for arr in STEP_LOG:
        for a, b in zip(arr[:-1], arr[1:]):
            if a < ts and b == te:
                return True
    return False


# ---------------------------------------------------------------------------------------------- agent level
def _run_agent(res, item):
    _, model, dt, k, kind, orbit, mode, seed, pairs = item
    n_steps = k + 4
    start = _epoch(seed)
    world = World(model, dt, start, n_steps)
    spec = _spec(kind, seed)
    pos, vel = _orbit(orbit, dt, seed)
    times = [float((j + 1) * dt) for j in range(n_steps)]
    gravity = None
    coast = None
    for pi, pr in enumerate(pairs):
        ts, te = float(pr[0]), float(pr[1])
        agent = world.agent(pos, vel)
        if gravity is None:
            gravity = world.gravity(agent)
            coast = orc.integrate(gravity, agent.eci_state, 0.0, times, [])
        # every other interval: the agent also carries a station keeper (one that never has to act)
        keeper = bool(pr[2]) if len(pr) > 2 else pi % 2 == 1
        if keeper:
            agent._station_keeping = [_QuietKeeper(agent.simulation_id)]  # noqa: SLF001  (the property has no setter)
        y0 = np.array(agent.eci_state, dtype=float)
        one = ("agent", model, dt, k, kind, orbit, mode, seed, [[ts, te, keeper]])
        case = {"model": MODELS[model], "dt": dt, "k": k, "kind": kind, "orbit": orbit, "mode": mode,
                "t_start": ts, "t_end": te, "start_on_grid": _on_grid(ts, dt), "end_on_grid_nominal": _on_grid(te, dt),
                "steps_spanned": int(np.ceil(te / dt) - np.floor(ts / dt)), "quiet_station_keeper": keeper}
        nontriv = (not _on_grid(ts, dt)) or (not _on_grid(te, dt)) or (te - ts) > dt
        lib, offered, eff = [], [], None
        err = None
        del STEP_LOG[:]
        try:
            for j in range(n_steps):
                t_k = float(agent.time)
                # Scenario.stepForward hands an event row to the agent in every step whose window (t_k, t_k+dt]
                # satisfies start <= t_k+dt and end > t_k
                if ts <= t_k + dt and te > t_k:
                    eff = _make_event(agent, spec, ts, te, mode, start)
                    offered.append(eff)
                agent.prunePropagateEvents()
                _audit_queue(res, f"agent_{mode}", f"agent_{mode}", case, agent, offered, t_k, one)
                lib.append(_step_agent(agent))
        except PropagationStall as exc:
            err = str(exc)
        except Exception as exc:  # noqa: BLE001
            err = f"{type(exc).__name__}: {exc}"
        EventStack.logAndFlushEvents()
        if err is not None:
            res.case(f"agent_{mode}/interval", case, False, nontrivial=nontriv,
                     signature=f"C15/agent_{mode}/interval/{MODELS[model]}/error", observed=err, expected="propagates",
                     outcome="error", item=one)
            continue
        eff_burn = [(eff[0], eff[1], spec)] if eff else [(ts, te, spec)]
        ref = orc.integrate(gravity, y0, 0.0, times, [(ts, te, spec)])
        _classify(res, f"agent_{mode}", f"agent_{mode}", model, case, lib, times, y0, gravity, [(ts, te, spec)],
                  eff_burn, dt, item=one, nontrivial=nontriv, coast=coast, ref=ref,
                  one_step=_inside_one_integrator_step(eff_burn[0][0], eff_burn[0][1]))
        res.states += n_steps + 1
        res.transitions += n_steps
        res.traces += 1
        if mode != "direct":
            continue
        # the same single burn through ONE propagateBulk call with the step boundaries as output times (the burn may
        # start and end between two consecutive output times): the same states at every output time
        bcase = dict(case, mode="bulk")
        del STEP_LOG[:]
        try:
            WATCHDOG.reset()
            out = np.array(world.agent(pos, vel).dynamics.propagateBulk(
                [ScenarioTime(0.0)] + [ScenarioTime(t) for t in times], y0[:, None].copy(),
                scheduled_events=[_thrust_obj(spec, ts, te, agent.simulation_id)]), dtype=float)
            if out.shape != (6, 1, n_steps):
                raise AssertionError(f"propagateBulk returned shape {out.shape}")
        except Exception as exc:  # noqa: BLE001
            res.case("bulk_single/interval", bcase, False, nontrivial=True,
                     signature=f"C15/bulk_single/interval/{MODELS[model]}/error",
                     observed=f"{type(exc).__name__}: {exc}"[:300], expected="propagates", outcome="error", item=one)
            EventStack.logAndFlushEvents()
            continue
        EventStack.logAndFlushEvents()
        _classify(res, "bulk_single", "bulk_single", model, bcase, [out[:, 0, j] for j in range(n_steps)], times, y0,
                  gravity, [(ts, te, spec)], [(ts, te, spec)], times[-1], item=one, nontrivial=True, coast=coast, ref=ref,
                  region="between_output_times" if np.ceil(te / dt) - np.floor(ts / dt) <= 1 and not _on_grid(ts, dt)
                  and not _on_grid(te, dt) else "end_on_output_time" if _on_grid(te, dt) else "end_off_output_time")


def _run_epoch_start(res, item):
    """A burn whose start is the scenario epoch itself (scenario time 0.0)."""
    _, model, dt, seed = item
    start = _epoch(seed)
    n_steps = 4
    world = World(model, dt, start, n_steps)
    pos, vel = _orbit("up", dt, seed)
    times = [float((j + 1) * dt) for j in range(n_steps)]
    gravity = None
    for kind in ("eci", "spiral"):
        spec = _spec(kind, seed)
        for te in (dt // 2, dt, dt + 7):
            agent = world.agent(pos, vel)
            gravity = gravity or world.gravity(agent)
            y0 = np.array(agent.eci_state, dtype=float)
            case = {"model": MODELS[model], "dt": dt, "kind": kind, "t_start": 0.0, "t_end": float(te), "mode": "direct"}
            lib, err, eff = [], None, None
            try:
                for _ in range(n_steps):
                    t_k = float(agent.time)
                    if 0.0 <= t_k + dt and te > t_k:
                        eff = _make_event(agent, spec, 0.0, float(te), "direct", start)
                    agent.prunePropagateEvents()
                    lib.append(_step_agent(agent))
            except PropagationStall as exc:
                err = str(exc)
            EventStack.logAndFlushEvents()
            if err is not None:
                res.case("agent_direct/start_at_epoch", case, False, nontrivial=True,
                         signature=f"C15/agent_direct/start_at_epoch/{MODELS[model]}/propagate_does_not_terminate",
                         observed=err, expected="propagate returns", outcome="stall", item=item)
                res.observe(err)
                continue
            res.case("agent_direct/start_at_epoch", case, True, nontrivial=True, outcome="terminates", item=item)
            _classify(res, "agent_direct/start_at_epoch", "agent_direct_epoch", model, case, lib, times, y0, gravity,
                      [(0.0, float(te), spec)], [(eff[0], eff[1], spec)], dt, item=item)


def _run_multi(res, item):
    """Queues with more than one event (event index handling in _applyEvents) and a 2-column state."""
    _, model, dt, seed = item
    start = _epoch(seed)
    n_steps = 6
    world = World(model, dt, start, n_steps)
    times = [float((j + 1) * dt) for j in range(n_steps)]
    pos, vel = _orbit("up", dt, seed)
    # (a) two consecutive burns of different kinds, (b) the same in the opposite queue order, (c) burn + ECI impulse
    # inside it (the impulse stops the integration; the thrust must survive the restart), (d) impulse before the burn
    s_eci, s_spi, s_ntw = _spec("eci", seed), _spec("spiral", seed), _spec("ntw", seed)
    dv = np.array([1.0e-3, -2.0e-3, 0.5e-3])
    variants = [
        ("two_burns", [(dt + 1.0, 2.0 * dt, s_eci), (2.0 * dt + dt // 2, 4.0 * dt, s_spi)], []),
        ("two_burns_reversed", [(2.0 * dt + dt // 2, 4.0 * dt, s_ntw), (dt + 1.0, 2.0 * dt, s_eci)], []),
        ("burn_with_impulse_inside", [(dt + 1.0, 3.0 * dt, s_ntw)], [(dt + dt // 2 + 3.0, dv)]),
        ("impulse_then_burn", [(2.0 * dt - 1.0, 4.0 * dt, s_spi)], [(dt // 2 + 0.0, dv)]),
        ("two_burns_off_grid_end", [(dt + 1.0, 2.0 * dt - 1.0, s_eci), (2.0 * dt + dt // 2, 3.0 * dt + 7.0, s_spi)], []),
    ]
    gravity = None
    for name, burns, imps in variants:
        agent = world.agent(pos, vel)
        gravity = gravity or world.gravity(agent)
        y0 = np.array(agent.eci_state, dtype=float)
        case = {"model": MODELS[model], "dt": dt, "variant": name,
                "burns": [[ts, te, sp["kind"]] for ts, te, sp in burns], "impulses": [[t, list(d)] for t, d in imps]}
        lib, err, offered = [], None, []
        try:
            for _ in range(n_steps):
                t_k = float(agent.time)
                for ts, te, sp in burns:
                    if ts <= t_k + dt and te > t_k:
                        offered.append(_make_event(agent, sp, ts, te, "direct", start))
                for t_i, d in imps:
                    if t_k < t_i <= t_k + dt or (t_k == 0.0 and t_i == 0.0):
                        agent.appendPropagateEvent(ScheduledECIImpulse(ScenarioTime(t_i), np.array(d), agent.simulation_id))
                agent.prunePropagateEvents()
                got = sorted((float(e.start_time), float(e.end_time)) for e in agent.propagate_event_queue
                             if hasattr(e, "end_time"))
                want = sorted({(s, e) for s, e in offered if e > t_k})
                res.case("agent_multi/queue_after_prune", dict(case, t=t_k), got == want, nontrivial=True,
                         signature="C15/agent_multi/queue_after_prune", observed=got, expected=want, item=item)
                lib.append(_step_agent(agent))
        except PropagationStall as exc:
            err = str(exc)
        except Exception as exc:  # noqa: BLE001
            err = f"{type(exc).__name__}: {exc}"
        EventStack.logAndFlushEvents()
        if err is not None:
            res.case("agent_multi/interval", case, False, nontrivial=True,
                     signature=f"C15/agent_multi/interval/{MODELS[model]}/error", observed=err, item=item)
            continue
        _classify(res, "agent_multi", "agent_multi", model, case, lib, times, y0, gravity, burns, burns, dt,
                  impulses=imps, item=item)
    # 2-column state: both columns thrust over the same interval (one burn, end on the grid)
    dyn_agent = world.agent(pos, vel)
    dyn = dyn_agent.dynamics
    p2, v2 = _orbit("down", dt, seed)
    y2 = np.column_stack([np.array(pos + vel, dtype=float), np.array(p2 + v2, dtype=float)])
    for kind in ("ntw", "plane_change"):
        spec = _spec(kind, seed)
        ts, te = dt + 1.0, 3.0 * dt
        func = (partial(ThrustFrame(kind).thrust, acc_vector=np.array(spec["acc"])) if kind == "ntw"
                else partial(ManeuverType(kind).thrust, magnitude=spec["mag"]))
        cls = ScheduledFiniteBurn if kind == "ntw" else ScheduledFiniteManeuver
        state = y2.copy()
        lib = []
        err = None
        try:
            for j in range(4):
                WATCHDOG.reset()
                ev = [cls(ScenarioTime(ts), ScenarioTime(te), func, TARGET_ID)] if te > j * dt else []
                state = dyn.propagate(ScenarioTime(j * dt), ScenarioTime((j + 1) * dt), state, scheduled_events=ev)
                lib.append(np.array(state, dtype=float))
        except Exception as exc:  # noqa: BLE001
            err = f"{type(exc).__name__}: {exc}"
        EventStack.logAndFlushEvents()
        for col in range(2):
            case = {"model": MODELS[model], "dt": dt, "kind": kind, "column": col, "t_start": ts, "t_end": te}
            if err is not None:
                res.case("agent_multi/two_columns/interval", case, False, nontrivial=True,
                         signature=f"C15/agent_columns/interval/{MODELS[model]}/error", observed=err, item=item)
                continue
            _classify(res, "agent_multi/two_columns", "agent_columns", model, case, [s[:, col] for s in lib], times[:4],
                      y2[:, col], gravity, [(ts, te, spec)], [(ts, te, spec)], dt, item=item)


# ---------------------------------------------------------------------------------------------- scenario level
def _run_scenario(res, item):
    from resonaate.data.ephemeris import TruthEphemeris  # noqa: PLC0415
    from sqlalchemy.orm import Query  # noqa: PLC0415

    _, model, dt, kind, orbit, seed, pats = item
    start = _epoch(seed)
    spec = _spec(kind, seed)
    pos, vel = _orbit(orbit, dt, seed)
    for ts, te in pats:
        ts, te = float(ts), float(te)
        n_steps = int(np.ceil(te / dt)) + 2
        times = [float((j + 1) * dt) for j in range(n_steps)]
        cfg = scen.config(
            start,
            n_steps,
            [scen.engine(1, [scen.target_eci(TARGET_ID, pos, vel)], [scen.ground_sensor(20001, 10.0, 20.0)])],
            physics=dt,
            truth_only=True,
            model=model,
            events=[_event_config(spec, ts, te, start)],
        )
        one = ("scenario", model, dt, kind, orbit, seed, [[ts, te]])
        case = {"model": MODELS[model], "dt": dt, "kind": kind, "orbit": orbit, "mode": "scenario", "t_start": ts,
                "t_end": te, "start_on_grid": _on_grid(ts, dt), "end_on_grid_nominal": _on_grid(te, dt)}
        nontriv = (not _on_grid(ts, dt)) or (not _on_grid(te, dt)) or (te - ts) > dt or te == ts
        if te == ts:
            case["end_time_in_config"] = "omitted"
        sc = scen.build(cfg)
        agent = sc.target_agents[TARGET_ID]
        y0 = np.array(agent.eci_state, dtype=float)
        ref_dyn = copy.deepcopy(agent.dynamics)
        ref_dyn.finite_thrust = None

        def gravity(t, y, ref_dyn=ref_dyn):
            return ref_dyn._differentialEquation(t, y, check_collision=False)  # noqa: SLF001

        lib, seen, err = [], set(), None
        WATCHDOG.reset()
        try:
            for _ in range(n_steps):
                sc.stepForward()
                sc.saveDatabaseOutput()  # as Scenario.propagateTo does on every output step
                lib.append(np.array(agent.eci_state, dtype=float))
                q = [(float(e.start_time), float(e.end_time)) for e in agent.propagate_event_queue]
                seen.update(q)
                t_prev = float(agent.time) - dt
                # the queue was pruned at t_prev (after this step's delivery): one copy while the burn has not ended
                if abs(te - t_prev) < 1e-4:  # end within Julian-date rounding of the pruning time
                    allowed = {0, 1}
                    res.either_way += 1
                elif te == ts and abs(ts - (t_prev + dt)) < 1e-4:
                    # a zero-length event within Julian-date rounding of the end of the step's event window: handed
                    # over in this step or in the next one
                    allowed = {0, 1}
                    res.either_way += 1
                else:
                    allowed = {1} if (ts <= t_prev + dt and te > t_prev) else {0}
                res.case("scenario/queue_after_prune", dict(case, t=t_prev),
                         len(q) in allowed and len(q) == len(set(q)),
                         nontrivial=bool(q), signature="C15/scenario/queue_after_prune", observed=q,
                         expected=sorted(allowed), item=one)
        except Exception as exc:  # noqa: BLE001
            err = f"{type(exc).__name__}: {exc}"
        if err is not None:
            res.case("scenario/interval", case, False, nontrivial=nontriv,
                     signature=f"C15/scenario/interval/{MODELS[model]}/error", observed=err, outcome="error", item=one)
            continue
        # the event must have reached the agent, with the configured times to within Julian-date resolution
        res.case("scenario/event_delivered", case,
                 len(seen) == 1 and all(abs(s - ts) < 1e-4 and abs(e - te) < 1e-4 for s, e in seen),
                 nontrivial=nontriv, signature="C15/scenario/event_delivered", observed=sorted(seen),
                 expected=[[ts, te]], item=one)
        eff = [(s, e, spec) for s, e in sorted(seen)][:1] or [(ts, te, spec)]
        _classify(res, "scenario", "scenario", model, case, lib, times, y0, gravity, [(ts, te, spec)], eff, dt, item=one,
                  nontrivial=nontriv,
                  region=f"zero_length_{'on' if _on_grid(ts, dt) else 'off'}_grid" if te == ts else None)
        if te == ts:
            res.case("scenario/zero_length_row", case, all(s_ == e_ for s_, e_ in seen), nontrivial=True,
                     signature="C15/scenario/zero_length_row", observed=sorted(seen),
                     expected="end_time == start_time", item=one)
        # TruthEphemeris rows carry the same states
        rows = sorted(sc.database.getData(Query(TruthEphemeris).filter(TruthEphemeris.agent_id == TARGET_ID)),
                      key=lambda r: r.julian_date)
        ok_rows = len(rows) == n_steps + 1 and all(
            fw.maxabs(np.array(r.eci), s) <= 1e-12 for r, s in zip(rows[1:], lib)
        )
        res.case("scenario/truth_rows", case, ok_rows, nontrivial=nontriv, signature="C15/scenario/truth_rows",
                 observed={"rows": len(rows)}, expected={"rows": n_steps + 1}, item=one)
        res.states += n_steps + 1
        res.transitions += n_steps
        res.traces += 1


def _run_scenario_epoch_start(res, item):
    _, model, dt, seed = item
    start = _epoch(seed)
    spec = _spec("eci", seed)
    pos, vel = _orbit("up", dt, seed)
    ts, te = 0.0, float(dt + 7)
    n_steps = 3
    times = [float((j + 1) * dt) for j in range(n_steps)]
    cfg = scen.config(
        start, n_steps,
        [scen.engine(1, [scen.target_eci(TARGET_ID, pos, vel)], [scen.ground_sensor(20001, 10.0, 20.0)])],
        physics=dt, truth_only=True, model=model, events=[_event_config(spec, ts, te, start)],
    )
    case = {"model": MODELS[model], "dt": dt, "kind": "eci", "t_start": ts, "t_end": te, "mode": "scenario"}
    sc = scen.build(cfg)
    agent = sc.target_agents[TARGET_ID]
    y0 = np.array(agent.eci_state, dtype=float)
    ref_dyn = copy.deepcopy(agent.dynamics)
    ref_dyn.finite_thrust = None

    def gravity(t, y):
        return ref_dyn._differentialEquation(t, y, check_collision=False)  # noqa: SLF001

    lib, err, seen = [], None, set()
    WATCHDOG.reset()
    try:
        for _ in range(n_steps):
            sc.stepForward()
            lib.append(np.array(agent.eci_state, dtype=float))
            seen.update((float(e.start_time), float(e.end_time)) for e in agent.propagate_event_queue)
    except Exception as exc:  # noqa: BLE001
        err = f"{type(exc).__name__}: {exc}"
    if err is not None:
        stall = "without advancing" in err
        res.case("scenario/start_at_epoch", case, False, nontrivial=True,
                 signature=f"C15/scenario/start_at_epoch/{MODELS[model]}/"
                           f"{'propagate_does_not_terminate' if stall else 'error'}",
                 observed=err[:300], expected="stepForward returns", outcome="stall" if stall else "error", item=item)
        res.observe(stall)
        return
    res.case("scenario/start_at_epoch", case, True, nontrivial=True, outcome="terminates", item=item)
    eff = [(s, e, spec) for s, e in sorted(seen)][:1] or [(ts, te, spec)]
    _classify(res, "scenario/start_at_epoch", "scenario_epoch", model, case, lib, times, y0, gravity, [(ts, te, spec)],
              eff, dt, item=item)


# ---------------------------------------------------------------------------------------------- direct lattices
def _law_states(seed):
    out = []
    for name in ("up", "down", "ecc", "cross"):
        for dt in (60, 300):
            p, v = _orbit(name, dt, seed)
            out.append((name, np.array(p + v, dtype=float)))
    # exact equatorial-plane states (z == 0) going north / south, and a retrograde one
    out.append(("z0_north", np.array([7000.0, 0.0, 0.0, 0.0, 5.3, 5.3])))
    out.append(("z0_south", np.array([7000.0, 0.0, 0.0, 0.0, 5.3, -5.3])))
    out.append(("retro_south", np.array([-3000.0, 6000.0, -2500.0, 5.0, 1.0, -4.0])))
    out.append(("retro_north", np.array([-3000.0, 6000.0, 2500.0, -5.0, -1.0, -4.0])))
    return out


def _run_thrust_law(res, item):
    seed = item[1]
    vecs = [[1e-5, 0.0, 0.0], [0.0, 1e-5, 0.0], [0.0, 0.0, 1e-5], [0.8e-5, -0.5e-5, 0.3e-5], [-0.2e-5, 0.1e-5, 0.9e-5]]
    mags = [1e-5, -1e-5, 3.3e-6]
    for name, y in _law_states(seed):
        hemi = "north" if y[2] > 0 else "south" if y[2] < 0 else "plane"
        for vec in vecs:
            for kind, fn in (("eci", eciBurn), ("ntw", ntwBurn)):
                got = np.asarray(fn(y.copy(), acc_vector=np.array(vec)), dtype=float)
                want = orc.thrust_acc({"kind": kind, "acc": vec}, y)
                # a handful of flops on |a| = 1e-5: rounding <= 1e-20; smallest defect (component swap) ~ 1e-6
                ok = got.shape == (6,) and fw.maxabs(got[:3], want) <= 1e-17 and fw.maxabs(got[3:]) == 0.0
                res.case(f"thrust_law/{kind}", {"state": name, "acc": vec}, ok, nontrivial=True,
                         signature=f"C15/thrust_law/{kind}", observed=got, expected=want, item=item)
                res.observe(got)
        for mag in mags:
            got = np.asarray(spiralThrust(y.copy(), magnitude=mag), dtype=float)
            want = orc.thrust_acc({"kind": "spiral", "mag": mag}, y)
            ok = got.shape == (6,) and fw.maxabs(got[:3], want) <= 1e-17 and fw.maxabs(got[3:]) == 0.0
            res.case("thrust_law/spiral", {"state": name, "mag": mag}, ok, nontrivial=True,
                     signature="C15/thrust_law/spiral", observed=got, expected=want, item=item)
            got = np.asarray(planeChangeThrust(y.copy(), magnitude=mag), dtype=float)
            want = orc.thrust_acc({"kind": "plane_change", "mag": mag}, y)
            if hemi == "plane":
                # exactly on the equatorial plane either sign is an admissible reading of the hemisphere rule
                res.either_way += 1
                ok = got.shape == (6,) and min(fw.maxabs(got[:3], want), fw.maxabs(got[:3], -want)) <= 1e-17
            else:
                ok = got.shape == (6,) and fw.maxabs(got[:3], want) <= 1e-17 and fw.maxabs(got[3:]) == 0.0
            res.case("thrust_law/plane_change", {"state": name, "mag": mag, "hemisphere": hemi}, ok,
                     nontrivial=hemi != "plane", signature=f"C15/thrust_law/plane_change/{hemi}", observed=got,
                     expected=want, item=item)
            res.observe(got)


def _run_event_function(res, item):
    """Event function / callback / constructor contract of ScheduledFiniteThrust."""
    seed = item[1]
    y = np.array(_orbit("up", 60, seed)[0] + _orbit("up", 60, seed)[1])
    for cls, func in (
        (ScheduledFiniteBurn, partial(eciBurn, acc_vector=np.array([1e-5, 0, 0]))),
        (ScheduledFiniteBurn, partial(ntwBurn, acc_vector=np.array([0, 1e-5, 0]))),
        (ScheduledFiniteManeuver, partial(spiralThrust, magnitude=1e-5)),
        (ScheduledFiniteManeuver, partial(planeChangeThrust, magnitude=1e-5)),
    ):
        for ts, te in ((61.0, 119.0), (60.0, 120.0), (0.5, 1800.0), (300.0, 307.0)):
            mk = lambda: cls(ScenarioTime(ts), ScenarioTime(te), func, 7)  # noqa: E731
            case = {"cls": cls.__name__, "func": func.func.__name__, "t_start": ts, "t_end": te}
            ev = mk()
            g = lambda t: float(ev(ScenarioTime(t), y))  # noqa: E731
            # Only what any correct design of the event function must satisfy is asserted on a freshly built (not
            # yet thrusting) event: it interrupts the integrator at the start - exactly zero there, a sign change
            # across it, non-zero at the other probes before the end - and it is terminal.  How the end is detected is
            # decided behaviourally by the trajectory and protocol subchecks.
            res.case("event_function/zero_at_start", case, g(ts) == 0.0, nontrivial=True,
                     signature="C15/event_function/zero_at_start", observed=g(ts), expected=0.0, item=item)
            mid = 0.5 * (ts + te)
            probes = [ts - 30.0, ts - 1e-3, ts + 1e-3, mid, te - 1e-3]
            vals = [g(t) for t in probes if t >= 0]
            res.case("event_function/nonzero_elsewhere", case, all(v != 0.0 for v in vals), nontrivial=True,
                     signature="C15/event_function/nonzero_elsewhere", observed=vals, item=item)
            res.case("event_function/sign_change_at_start", case, g(ts - 1e-3) * g(ts + 1e-3) < 0.0, nontrivial=True,
                     signature="C15/event_function/sign_change_at_start", observed=[g(ts - 1e-3), g(ts + 1e-3)],
                     item=item)
            res.case("event_function/terminal", case, bool(getattr(ev, "terminal", False)) is True, nontrivial=True,
                     signature="C15/event_function/terminal", observed=getattr(ev, "terminal", None), item=item)
            # callback protocol (fresh object per probe): the thrust function when the burn starts or is re-armed
            # mid-burn; None when called at the end after the start
            cb_start = mk().getStateChangeCallback(ScenarioTime(ts))
            cb_mid = mk().getStateChangeCallback(ScenarioTime(mid))
            ev3 = mk()
            ev3.getStateChangeCallback(ScenarioTime(ts))
            cb_end = ev3.getStateChangeCallback(ScenarioTime(te))
            same = cb_start is not None and cb_mid is not None and np.array_equal(cb_start(y), func(y)) \
                and np.array_equal(cb_mid(y), func(y))
            res.case("callback/thrust_on_at_start", case, bool(same), nontrivial=True,
                     signature="C15/callback/thrust_on_at_start", observed=repr(cb_start), item=item)
            res.case("callback/thrust_off_at_end", case, cb_end is None, nontrivial=True,
                     signature="C15/callback/thrust_off_at_end", observed=repr(cb_end), expected=None, item=item)
            res.observe(vals)
    EventStack.logAndFlushEvents()
    # constructor: a burn only accepts burn functions, a maneuver only maneuver functions
    combos = [
        (ScheduledFiniteBurn, partial(eciBurn, acc_vector=np.zeros(3)), True),
        (ScheduledFiniteBurn, partial(ntwBurn, acc_vector=np.zeros(3)), True),
        (ScheduledFiniteBurn, partial(spiralThrust, magnitude=1.0), False),
        (ScheduledFiniteBurn, partial(planeChangeThrust, magnitude=1.0), False),
        (ScheduledFiniteManeuver, partial(spiralThrust, magnitude=1.0), True),
        (ScheduledFiniteManeuver, partial(planeChangeThrust, magnitude=1.0), True),
        (ScheduledFiniteManeuver, partial(eciBurn, acc_vector=np.zeros(3)), False),
        (ScheduledFiniteManeuver, partial(ntwBurn, acc_vector=np.zeros(3)), False),
    ]
    for cls, func, accept in combos:
        try:
            cls(ScenarioTime(1.0), ScenarioTime(2.0), func, 1)
            got = True
        except ValueError:
            got = False
        res.case("constructor/valid_thrust_funcs", {"cls": cls.__name__, "func": func.func.__name__}, got == accept,
                 nontrivial=True, signature="C15/constructor/valid_thrust_funcs", observed=got, expected=accept,
                 item=item)
    # frame / maneuver-type labels map to the documented functions
    maps = [(ThrustFrame("eci").thrust, eciBurn), (ThrustFrame("ntw").thrust, ntwBurn),
            (ManeuverType("spiral").thrust, spiralThrust), (ManeuverType("plane_change").thrust, planeChangeThrust)]
    for got, want in maps:
        res.case("constructor/label_mapping", {"want": want.__name__}, got is want, nontrivial=True,
                 signature="C15/constructor/label_mapping", observed=getattr(got, "__name__", repr(got)),
                 expected=want.__name__, item=item)


def _run_prune_direct(res, item):
    """prunePropagateEvents on a real agent: finite-thrust entries survive iff they end after the agent's time; one
    copy of each; burns and maneuvers over the same interval are different events."""
    seed = item[1]
    dt = 60
    world = World("two_body", dt, _epoch(seed), 4)
    pos, vel = _orbit("up", dt, seed)
    f_eci = partial(eciBurn, acc_vector=np.array([1e-5, 0, 0]))
    f_ntw = partial(ntwBurn, acc_vector=np.array([1e-5, 0, 0]))
    f_spi = partial(spiralThrust, magnitude=1e-5)
    protos = [
        ("eci", ScheduledFiniteBurn, f_eci, 61.0, 119.0),
        ("eci", ScheduledFiniteBurn, f_eci, 61.0, 120.0),
        ("ntw", ScheduledFiniteBurn, f_ntw, 61.0, 120.0),
        ("spiral", ScheduledFiniteManeuver, f_spi, 61.0, 120.0),
        ("spiral", ScheduledFiniteManeuver, f_spi, 10.0, 60.0),
        ("eci", ScheduledFiniteBurn, f_eci, 120.0, 187.0),
    ]
    for t_now in (0.0, 59.0, 60.0, 61.0, 118.999, 119.0, 119.0 + 1e-16, 120.0 - 1e-9, 120.0, 120.0 + 1e-9, 180.0, 187.0, 200.0):
        for dup in (1, 2, 3):
            agent = world.agent(pos, vel)
            agent.time = ScenarioTime(t_now)
            for _ in range(dup):
                for _, cls, fn, ts, te in protos:
                    agent.appendPropagateEvent(cls(ScenarioTime(ts), ScenarioTime(te), fn, agent.simulation_id))
            agent.prunePropagateEvents()
            got = sorted((e.thrust_func.func.__name__, float(e.start_time), float(e.end_time))
                         for e in agent.propagate_event_queue)
            near = [p for p in protos if 0 < abs(p[4] - t_now) < 1e-12]
            want = sorted((fn.func.__name__, ts, te) for _, _, fn, ts, te in protos
                          if te > t_now and not abs(te - t_now) < 1e-15)
            if near and got != want:
                # within rounding of the pruning threshold: either classification is acceptable
                alt = sorted((fn.func.__name__, ts, te) for _, _, fn, ts, te in protos if te > t_now + 1e-12)
                if got == alt:
                    res.either_way += 1
                    want = alt
            res.case("prune_direct", {"t": t_now, "copies": dup}, got == want, nontrivial=True,
                     signature=f"C15/prune_direct/{'kept_past' if len(got) > len(want) else 'lost_or_duplicate'}",
                     observed=got, expected=want, item=item)
            res.observe(got)



# ---------------------------------------------------------------------------------------------- protocol (exact oracle)
class _FreeFlight(_celestial.Celestial):
    """Harness-side dynamics with no gravity: r' = v, v' = thrust (honouring ``finite_thrust`` the way
    SpecialPerturbations does).  Everything else - propagate, _prepEvents, _applyEvents, the event objects and thrust
    functions - is the library's.  The reference is closed form: v(t) = v0 + a * (time the thrust was due)."""

    def _differentialEquation(self, time, state, check_collision=True):  # noqa: ARG002
        d = np.zeros_like(state, dtype=float)
        d[:3] = state[3:]
        if self.finite_thrust:
            d[3:] = self.finite_thrust(state)[:3]
        return d


PROTO_TIMES = [0.5, 30.0, 59.0, 60.0, 61.0, 75.0, 90.0, 110.0, 119.0, 119.5, 120.0, 121.0, 150.0, 180.0, 185.0]


PROTO_SHORT = [(30.0, 30.5), (59.5, 60.0), (60.0, 60.5), (90.25, 90.75), (119.75, 120.25)]  # 0.5 s burns


def _proto_pairs():
    """Every (t_start, t_end) pair of PROTO_TIMES, then the degenerate burns: one of ZERO length (end == start, what a
    configuration that omits end_time asks for: it delivers nothing) at every instant, and 0.5 s burns that end on /
    start on / straddle / avoid a call boundary."""
    out = [(a, b) for i, a in enumerate(PROTO_TIMES) for b in PROTO_TIMES[i + 1:]]
    return out + [(t, t) for t in PROTO_TIMES] + list(PROTO_SHORT)


def _overlap(a0, a1, b0, b1):
    return max(0.0, min(a1, b1) - max(a0, b0))


def _run_protocol(res, item):
    """Celestial.propagate over three consecutive calls [0,60], [60,120], [120,180] with one ECI burn offered to every
    call; closed-form oracle for the final velocity and position."""
    seed = item[1]
    dt = 60.0
    acc = np.array(_spec("eci", seed)["acc"])
    func = partial(eciBurn, acc_vector=acc)
    y0 = np.array([7000.0, -200.0, 350.0, 1.0, -2.0, 0.5])
    dyn = _FreeFlight()
    for ts, te in _proto_pairs():
        case = {"t_start": ts, "t_end": te, "dt": dt, "start_on_grid": _on_grid(ts, dt), "end_on_grid": _on_grid(te, dt)}
        state = y0.copy()
        del STEP_LOG[:]
        err = None
        try:
            for j in range(3):
                WATCHDOG.reset()
                ev = ScheduledFiniteBurn(ScenarioTime(ts), ScenarioTime(te), func, 1)
                state = dyn.propagate(ScenarioTime(j * dt), ScenarioTime((j + 1) * dt), state, scheduled_events=[ev])
                STEP_LOG.extend(WATCHDOG.log)
        except Exception as exc:  # noqa: BLE001
            err = f"{type(exc).__name__}: {exc}"
        if err is not None:
            res.case("protocol/on_time", case, False, nontrivial=True, signature="C15/protocol/on_time/error",
                     observed=err, item=item)
            continue
        # thrust time actually delivered, from the velocity gained along the thrust direction (exact: no gravity)
        on = float((state[3:] - y0[3:]) @ acc / (acc @ acc))
        want = _overlap(ts, te, 0.0, 180.0)
        # rounding: 1e-5 km/s^2 * 180 s on |v| ~ 2 km/s -> 1e-16/1e-5 = 1e-11 s; event roots are located to 4 ulp
        tol = 1e-8
        ok = abs(on - want) <= tol
        region = "end_on_grid" if _on_grid(te, dt) else "end_off_grid"
        if te == ts:
            region = "zero_length_on_grid" if _on_grid(te, dt) else "zero_length_off_grid"
        label = "exact"
        if not ok:
            label = "unexplained"
            if not _on_grid(te, dt) and abs(on - _overlap(ts, _next_grid_after(te, dt), 0.0, 180.0)) <= tol:
                label = "thrust_runs_to_step_end"
            elif te == ts and abs(on - _overlap(ts, ts + dt, 0.0, 180.0)) <= tol:
                label = "thrust_runs_to_step_end"  # on the grid: through the whole call that starts there
            elif region == "end_on_grid" and abs(on) <= tol and _inside_one_integrator_step(ts, te):
                label = "burn_inside_one_integrator_step_skipped"
        nontriv = (not _on_grid(ts, dt)) or (not _on_grid(te, dt)) or te - ts > dt or te == ts
        res.case("protocol/on_time", case, ok, nontrivial=nontriv,
                 signature=f"C15/protocol/on_time/FreeFlight/{region}/{label}",
                 observed={"thrust_seconds": on}, expected={"thrust_seconds": want}, outcome=label, item=item)
        # position: x(180) = x0 + v0*180 + a * (T1^2/2 ... ) for thrust on [s, e]: a*((e-s)*(180-e) + (e-s)^2/2)
        if ok:
            s_, e_ = max(ts, 0.0), min(te, 180.0)
            dx = acc * ((e_ - s_) * (180.0 - e_) + 0.5 * (e_ - s_) ** 2) if e_ > s_ else 0.0 * acc
            want_r = y0[:3] + y0[3:] * 180.0 + dx
            res.case("protocol/position", case, fw.maxabs(state[:3], want_r) <= 1e-8, nontrivial=nontriv,
                     signature="C15/protocol/position", observed=state[:3], expected=want_r, item=item)
        res.observe(state, on)
        # the same burn through ONE propagate call [0, 180] (no call boundary at any instant of the alphabet)
        ocase = dict(case, mode="one_call")
        try:
            got = _ff_fly(dyn, y0, lambda: [ScheduledFiniteBurn(ScenarioTime(ts), ScenarioTime(te), func, 1)],
                          "one_call", dt, 3)
            on1 = float((got[180.0][3:] - y0[3:]) @ acc / (acc @ acc))
            lab1 = "exact" if abs(on1 - want) <= tol else \
                "thrust_runs_to_step_end" if abs(on1 - _overlap(ts, 180.0, 0.0, 180.0)) <= tol else "unexplained"
            res.case("protocol/one_call_on_time", ocase, abs(on1 - want) <= tol, nontrivial=True,
                     signature=f"C15/protocol_one_call/on_time/FreeFlight/{region}/{lab1}",
                     observed={"thrust_seconds": on1}, expected={"thrust_seconds": want}, outcome=lab1, item=item)
            res.observe(on1)
        except Exception as exc:  # noqa: BLE001
            res.case("protocol/one_call_on_time", ocase, False, nontrivial=True,
                     signature=f"C15/protocol_one_call/on_time/FreeFlight/{region}/error",
                     observed=f"{type(exc).__name__}: {exc}"[:300], item=item)
        # the same burn through ONE propagateBulk call, output times 60, 120, 180: velocity at every output time
        bcase = dict(case, mode="bulk")
        try:
            got = _ff_fly(dyn, y0, lambda: [ScheduledFiniteBurn(ScenarioTime(ts), ScenarioTime(te), func, 1)], "bulk",
                          dt, 3)
        except Exception as exc:  # noqa: BLE001
            res.case("protocol/bulk_on_time", bcase, False, nontrivial=True,
                     signature=f"C15/protocol_bulk/on_time/FreeFlight/{region}/error",
                     observed=f"{type(exc).__name__}: {exc}"[:300], item=item)
            continue
        err_v = max(fw.maxabs(y[3:], y0[3:] + acc * _overlap(ts, te, 0.0, t)) for t, y in got.items())
        res.case("protocol/bulk_on_time", bcase, err_v <= PROTO2_TOL_V, nontrivial=True,
                 signature=f"C15/protocol_bulk/on_time/FreeFlight/{region}/"
                           f"{'exact' if err_v <= PROTO2_TOL_V else 'unexplained'}",
                 observed={"max_dv_km_s": err_v, "equivalent_thrust_s": err_v / float(np.max(np.abs(acc)))},
                 expected={"max_dv_km_s": f"<= {PROTO2_TOL_V}"}, item=item)
        res.observe(got[180.0], err_v)
    EventStack.logAndFlushEvents()

# ---------------------------------------------------------------------------------------------- two-event schedules
# Two (or three) finite events queued for ONE agent, never overlapping (a later one may start at the very instant the
# earlier one ends).  What is enumerated: every relation of the two intervals to the step grid and to each other
# (first in progress across a step boundary while the second is already queued and waiting; second starts in the
# step in which the first ends; both inside one step; back-to-back with the joint on / off the grid; a gap of several
# steps; either burn spanning several boundaries) x both queue orders x both dynamics, at three levels: the bare
# Celestial.propagate protocol (closed-form oracle), a real TargetAgent stepped as the propagation job does, and a
# real Scenario.
KIND_PAIRS = [("eci", "spiral"), ("plane_change", "ntw"), ("spiral", "eci"), ("ntw", "plane_change"),
              ("eci", "ntw"), ("spiral", "plane_change")]


def _spec_b(kind, seed):
    """Thrust of the SECOND event of a schedule: different magnitude / direction from ``_spec`` of the same kind, so
    that arming the wrong event's thrust function shows even when both events are of one kind."""
    sgn = -1.0 if seed % 2 else 1.0
    if kind == "eci":
        return {"kind": "eci", "acc": [0.2e-5, 0.6e-5 * sgn, -0.4e-5]}
    if kind == "ntw":
        return {"kind": "ntw", "acc": [-0.4e-5, 0.5e-5 * sgn, 0.3e-5]}
    if kind == "spiral":
        return {"kind": "spiral", "mag": -0.7e-5 * sgn}
    if kind == "plane_change":
        return {"kind": "plane_change", "mag": 0.7e-5 if seed % 3 == 2 else -0.7e-5}
    raise ValueError(kind)


def _sched_points(dt, full):
    """Instants of the two-event lattice: just after / in the middle of / on the boundaries of three consecutive steps,
    and one several steps later.  ``full`` (thorough tier) adds the middle of the fourth step, which the quick tier
    reaches through the named schedules of ``_relations`` only."""
    pts = [dt + 1, dt + dt // 2, 2 * dt, 2 * dt + 1, 2 * dt + dt // 2, 3 * dt, 3 * dt + 7]
    return pts + ([3 * dt + dt // 2] if full else []) + [5 * dt + dt // 2]


SCHED_STEPS = 7  # the last instant of the alphabets (6.5 dt) lies in the seventh step


def _chains(points, n, lo=None):
    """Every chain of n intervals (s_1, e_1), ..., (s_n, e_n) over ``points`` with s_i < e_i <= s_(i+1)."""
    pts = [p for p in points if lo is None or p >= lo]
    out = []
    for i, s in enumerate(pts):
        for e in pts[i + 1:]:
            if n == 1:
                out.append([(float(s), float(e))])
            else:
                out.extend([(float(s), float(e)), *rest] for rest in _chains(points, n - 1, lo=e))
    return out


def _sched_pairs(dt, full):
    """[index, a0, a1, b0, b1] of every lattice pair, followed by the named schedules (index >= 1000)."""
    out = [[i, a[0], a[1], b[0], b[1]] for i, (a, b) in enumerate(_chains(_sched_points(dt, full), 2))]
    return out + _named_pairs(dt)


def _named_pairs(dt):
    return [[1000 + i, float(a[0]), float(a[1]), float(b[0]), float(b[1])] for i, (_, a, b) in enumerate(_relations(dt))]


def _relations(dt):
    """Named two-event schedules (used where the full lattice is too dear: Scenario runs, the second step size of the
    quick tier): one representative of every relation of the two intervals to the grid and to each other."""
    d, h, q, e = dt, dt // 2, dt // 6, dt // 12  # offsets scale with the step (60 s: 30, 10, 5 s); 1 s / 7 s are absolute
    out = [
        ("first_across_boundary_second_waits", (d + q, 2 * d + q), (2 * d + 4 * q, 3 * d + q)),
        ("first_across_two_boundaries_second_waits", (d + 1, 3 * d + 7), (3 * d + h, 4 * d + h)),
        ("first_across_boundary_second_starts_next_boundary", (d + h, 2 * d + h), (3 * d, 3 * d + h)),
        ("second_inside_step_where_first_ends", (d + h, 2 * d + e), (2 * d + q, 2 * d + h)),
        ("both_inside_one_step", (d + e, d + 2 * q), (d + h, 2 * d - e)),
        ("back_to_back_joint_off_grid", (d + 1, 2 * d + h), (2 * d + h, 3 * d + 7)),
        ("back_to_back_joint_on_grid", (d + 1, 2 * d), (2 * d, 3 * d + 7)),
        ("first_ends_on_boundary_second_starts_1s_later", (d + 1, 2 * d), (2 * d + 1, 3 * d)),
        ("first_ends_1s_before_boundary_second_starts_on_it", (d + h, 2 * d - 1), (2 * d, 3 * d + 7)),
        ("gap_of_three_steps", (d + 1, 2 * d + 1), (5 * d + h, 6 * d + h)),
        ("second_long_across_three_boundaries", (d + h, 2 * d + 1), (2 * d + h, 5 * d + 7)),
        ("both_on_grid_consecutive_steps", (d, 2 * d), (3 * d, 4 * d)),
    ]
    for name, a, b in out:
        if not (0 < a[0] < a[1] <= b[0] < b[1] <= SCHED_STEPS * dt):
            raise AssertionError(f"harness: schedule {name} is not a chain of two intervals for dt={dt}: {a} {b}")
    return out


def _relation(a, b, dt):
    """Region name of a two-event schedule a = (a0, a1) before b = (b0, b1), a1 <= b0."""
    a0, a1 = a
    b0, b1 = b
    if a1 == b0:
        return "touching_on_grid" if _on_grid(a1, dt) else "touching_off_grid"
    g = (np.floor(a0 / dt) + 1.0) * dt  # first step boundary after the start of the first event
    while g < a1:
        if b0 <= g + dt:  # the second event is delivered to the agent in the step that starts at g
            return "first_active_second_queued"
        g += dt
    if np.ceil(b0 / dt) <= np.ceil(a1 / dt):
        return "second_starts_in_step_first_ends"
    return "gap"


def _relation_histogram(dt, full):
    out = {}
    for _, a0, a1, b0, b1 in _sched_pairs(dt, full):
        name = _relation((a0, a1), (b0, b1), dt)
        out[name] = out.get(name, 0) + 1
    return out


def _missed_touching_start(burns_in_queue_order, dt):
    """Recorded defect (F-C15-5): an event that starts at the very instant at which an event that precedes it in the
    queue ends, with that instant not on a step boundary, is not started (the integration restarts one ulp after the
    end root; the waiting event's root is then behind it) until the next propagate call re-arms it.  Returns the burn
    list the library then flies, or None when the precondition does not occur."""
    eff = {}
    hit = False
    for i in sorted(range(len(burns_in_queue_order)), key=lambda j: burns_in_queue_order[j][0]):
        ts, te, sp = burns_in_queue_order[i]
        late = False
        if not _on_grid(ts, dt):
            for j in range(i):  # events ahead of it in the queue
                pe = burns_in_queue_order[j][1]
                if pe == ts and j in eff and eff[j][0] < ts:  # ... thrusting up to that instant
                    late = True
        if late:
            hit = True
            g = _next_grid_after(ts, dt)
            if g < te:
                eff[i] = (g, te, sp)
        else:
            eff[i] = (ts, te, sp)
    return [eff[i] for i in sorted(eff)] if hit else None


def _first_seen_order(queue):
    out = []
    for e in queue:
        key = (float(e.start_time), float(e.end_time))
        if key not in out:
            out.append(key)
    return out


def _sched_orbit(dt):
    """Orbit family of the two-event runs: no equatorial crossing during the flight (the plane-change law flips sign
    there, which the library steps over without an event - an accuracy matter, see EXTRA_QUICK): "up" reaches the
    descending node after about 2900 s, "ecc" after about 5300 s."""
    return "up" if (SCHED_STEPS + 1) * dt <= 2500 else "ecc"


def _run_sched2(res, item):
    """Two finite events on one real TargetAgent, stepped as the propagation job does."""
    _, model, dt, seed, chunk = item
    start = _epoch(seed)
    world = World(model, dt, start, SCHED_STEPS)
    pos, vel = _orbit(_sched_orbit(dt), dt, seed)
    all_times = [float((j + 1) * dt) for j in range(SCHED_STEPS)]
    gravity = None
    coast = None
    for idx, a0, a1, b0, b1 in chunk:
        idx = int(idx)
        a, b = (float(a0), float(a1)), (float(b0), float(b1))
        n_steps = min(SCHED_STEPS, int(np.ceil(b[1] / dt)) + 1)  # one free-flying step after the last end
        times = all_times[:n_steps]
        kind_a, kind_b = KIND_PAIRS[(idx + seed) % len(KIND_PAIRS)]
        burns = [(a[0], a[1], _spec(kind_a, seed)), (b[0], b[1], _spec_b(kind_b, seed))]
        region = _relation(a, b, dt)
        ref = None
        for order in ("AB", "BA"):
            agent = world.agent(pos, vel)
            if gravity is None:
                gravity = world.gravity(agent)
                coast = orc.integrate(gravity, agent.eci_state, 0.0, all_times, [])
            y0 = np.array(agent.eci_state, dtype=float)
            if ref is None:  # one reference per schedule: it does not know about queue orders
                ref = orc.integrate(gravity, y0, 0.0, times, burns)
            one = ("sched2", model, dt, seed, [[idx, a[0], a[1], b[0], b[1]]])
            case = {"model": MODELS[model], "dt": dt, "first": [a[0], a[1], kind_a], "second": [b[0], b[1], kind_b],
                    "queue_order": order, "relation": region}
            lib, offered, err = [], [], None
            both_queued_first_active = False
            try:
                for _ in range(n_steps):
                    t_k = float(agent.time)
                    # delivery as Scenario.stepForward does it: every row with start <= t_k+dt and end > t_k
                    due = [bn for bn in burns if bn[0] <= t_k + dt and bn[1] > t_k]
                    for ts, te, sp in (due if order == "AB" else due[::-1]):
                        offered.append(_make_event(agent, sp, ts, te, "direct", start))
                    if order == "BA":
                        # the order in which rows come back from the database is not specified: impose later-first on
                        # the whole queue (entries kept from earlier steps included); stable, so copies stay adjacent
                        agent.propagate_event_queue.sort(key=lambda e: -float(e.start_time))
                    agent.prunePropagateEvents()
                    _audit_queue(res, "agent_sched2", "agent_sched2", dict(case), agent, offered, t_k, one)
                    keys = _first_seen_order(agent.propagate_event_queue)
                    want_keys = [(ts, te) for ts, te, _ in (burns if order == "AB" else burns[::-1]) if (ts, te) in keys]
                    res.case("agent_sched2/queue_order_kept", dict(case, t=t_k), keys == want_keys,
                             nontrivial=len(keys) > 1, signature="C15/agent_sched2/queue_order_kept", observed=keys,
                             expected=want_keys, item=one)
                    if len(keys) > 1 and a[0] < t_k < a[1]:
                        both_queued_first_active = True
                    lib.append(_step_agent(agent))
            except PropagationStall as exc:
                err = str(exc)
            except Exception as exc:  # noqa: BLE001
                err = f"{type(exc).__name__}: {exc}"
            EventStack.logAndFlushEvents()
            case["first_active_at_a_call_start_with_second_queued"] = both_queued_first_active
            if err is not None:
                res.case("agent_sched2/interval", case, False, nontrivial=True,
                         signature=f"C15/agent_sched2/interval/{MODELS[model]}/{region}/error", observed=err,
                         outcome="error", item=one)
                continue
            in_queue_order = burns if order == "AB" else burns[::-1]
            hyp = _missed_touching_start(in_queue_order, dt)
            _classify(res, "agent_sched2", "agent_sched2", model, case, lib, times, y0, gravity, burns, burns, dt,
                      item=one, coast=coast, region=region, ref=ref,
                      extra_hyp=[("start_at_previous_end_missed", hyp)] if hyp is not None else ())
            res.states += n_steps + 1
            res.transitions += n_steps
            res.traces += 1
            # the same schedule, same list order, through ONE propagateBulk call with the step boundaries as output
            # times (what the adaptive / particle filters call): the same states at every output time
            bcase = dict(case, mode="bulk")
            try:
                WATCHDOG.reset()
                evs = [_thrust_obj(sp, ts, te, agent.simulation_id) for ts, te, sp in in_queue_order]
                out = np.array(world.agent(pos, vel).dynamics.propagateBulk(
                    [ScenarioTime(0.0)] + [ScenarioTime(t) for t in times], y0[:, None].copy(), scheduled_events=evs),
                    dtype=float)
                if out.shape != (6, 1, n_steps):
                    raise AssertionError(f"propagateBulk returned shape {out.shape}")
            except Exception as exc:  # noqa: BLE001
                res.case("bulk_sched2/interval", bcase, False, nontrivial=True,
                         signature=f"C15/bulk_sched2/interval/{MODELS[model]}/{region}/error",
                         observed=f"{type(exc).__name__}: {exc}"[:300], outcome="error", item=one)
                EventStack.logAndFlushEvents()
                continue
            EventStack.logAndFlushEvents()
            # one call: "the step that contains the end" is the whole call; a start missed at a previous end is never
            # re-armed by a next call
            hyp_b = _missed_touching_start(in_queue_order, times[-1])
            _classify(res, "bulk_sched2", "bulk_sched2", model, bcase, [out[:, 0, k] for k in range(n_steps)], times, y0,
                      gravity, burns, burns, times[-1], item=one, coast=coast, region=region, ref=ref,
                      extra_hyp=[("start_at_previous_end_missed", hyp_b)] if hyp_b is not None else ())


def _run_scenario2(res, item):
    """Two finite events of one target through a real truth-only Scenario, listed in the config in either order."""
    from resonaate.data.ephemeris import TruthEphemeris  # noqa: PLC0415
    from sqlalchemy.orm import Query  # noqa: PLC0415

    _, model, dt, seed, rels = item
    start = _epoch(seed)
    pos, vel = _orbit(_sched_orbit(dt), dt, seed)
    for ridx, name, a, b in rels:
        ridx = int(ridx)
        a, b = (float(a[0]), float(a[1])), (float(b[0]), float(b[1]))
        kind_a, kind_b = KIND_PAIRS[(ridx + seed) % len(KIND_PAIRS)]
        burns = [(a[0], a[1], _spec(kind_a, seed)), (b[0], b[1], _spec_b(kind_b, seed))]
        n_steps = int(np.ceil(b[1] / dt)) + 1
        times = [float((j + 1) * dt) for j in range(n_steps)]
        ref = None
        for cfg_order in ("AB", "BA"):
            evs = [_event_config(sp, ts, te, start) for ts, te, sp in (burns if cfg_order == "AB" else burns[::-1])]
            cfg = scen.config(
                start, n_steps,
                [scen.engine(1, [scen.target_eci(TARGET_ID, pos, vel)], [scen.ground_sensor(20001, 10.0, 20.0)])],
                physics=dt, truth_only=True, model=model, events=evs,
            )
            one = ("scenario2", model, dt, seed, [[ridx, name, list(a), list(b)]])
            case = {"model": MODELS[model], "dt": dt, "schedule": name, "first": [a[0], a[1], kind_a],
                    "second": [b[0], b[1], kind_b], "config_order": cfg_order, "mode": "scenario"}
            sc = scen.build(cfg)
            agent = sc.target_agents[TARGET_ID]
            y0 = np.array(agent.eci_state, dtype=float)
            ref_dyn = copy.deepcopy(agent.dynamics)
            ref_dyn.finite_thrust = None

            def gravity(t, y, ref_dyn=ref_dyn):
                return ref_dyn._differentialEquation(t, y, check_collision=False)  # noqa: SLF001

            lib, seen, err = [], [], None
            both_queued_first_active = False
            WATCHDOG.reset()
            try:
                for _ in range(n_steps):
                    sc.stepForward()
                    sc.saveDatabaseOutput()
                    lib.append(np.array(agent.eci_state, dtype=float))
                    keys = _first_seen_order(agent.propagate_event_queue)  # the queue the step just flown was given
                    t_prev = float(agent.time) - dt
                    live = [k for k in keys if k[1] > t_prev + 1e-4]
                    if len(live) > 1 and abs(live[0][0] - a[0]) < 1e-4 and a[0] + 1e-4 < t_prev < a[1] - 1e-4:
                        both_queued_first_active = True
                    for k in keys:
                        if k not in seen:
                            seen.append(k)
            except Exception as exc:  # noqa: BLE001
                err = f"{type(exc).__name__}: {exc}"
            case["first_active_at_a_call_start_with_second_queued"] = both_queued_first_active
            if err is not None:
                res.case("scenario2/interval", case, False, nontrivial=True,
                         signature=f"C15/scenario2/interval/{MODELS[model]}/error", observed=err, outcome="error",
                         item=one)
                continue
            # both events reached the agent, with the configured times to within Julian-date resolution
            eff = []
            for ts, te, sp in burns:
                hit = [k for k in seen if abs(k[0] - ts) < 1e-4 and abs(k[1] - te) < 1e-4]
                eff.append((hit[0][0], hit[0][1], sp) if hit else None)
            delivered = len(seen) == 2 and all(e is not None for e in eff)
            res.case("scenario2/events_delivered", case, delivered, nontrivial=True,
                     signature="C15/scenario2/events_delivered", observed=[list(k) for k in seen],
                     expected=[[ts, te] for ts, te, _ in burns], item=one)
            if not delivered:
                continue
            region = _relation((eff[0][0], eff[0][1]), (eff[1][0], eff[1][1]), dt) if eff[0][1] <= eff[1][0] \
                else "overlap_after_rounding"
            case["relation"] = region
            in_queue_order = sorted(eff, key=lambda bn: seen.index((bn[0], bn[1])))
            hyp = _missed_touching_start(in_queue_order, dt)
            extra = [("start_at_previous_end_missed", hyp)] if hyp is not None else []
            # the recorded end-of-burn hypotheses of _classify work on the effective (Julian-date rounded) times
            if ref is None:  # same initial state, same configured times in both config orders
                ref = orc.integrate(gravity, y0, 0.0, times, burns)
            _classify(res, "scenario2", "scenario2", model, case, lib, times, y0, gravity, burns, eff, dt, item=one,
                      region=region, extra_hyp=extra, ref=ref)
            rows = sorted(sc.database.getData(Query(TruthEphemeris).filter(TruthEphemeris.agent_id == TARGET_ID)),
                          key=lambda r: r.julian_date)
            ok_rows = len(rows) == n_steps + 1 and all(
                fw.maxabs(np.array(r.eci), s) <= 1e-12 for r, s in zip(rows[1:], lib)
            )
            res.case("scenario2/truth_rows", case, ok_rows, nontrivial=True, signature="C15/scenario2/truth_rows",
                     observed={"rows": len(rows)}, expected={"rows": n_steps + 1}, item=one)
            res.states += n_steps + 1
            res.transitions += n_steps
            res.traces += 1


# ---------------------------------------------------------------------------------------------- protocol, 2-3 events
PROTO2_TIMES = [30.0, 59.0, 60.0, 61.0, 90.0, 119.0, 120.0, 121.0, 150.0, 180.0, 185.0, 210.0]
PROTO2_MIXED_TIMES = [30.0, 60.0, 61.0, 119.0, 120.0, 150.0, 185.0, 210.0]
PROTO3_TIMES = [30.0, 60.0, 61.0, 119.0, 120.0, 150.0, 185.0]
PROTO2_CALLS = 4  # consecutive propagate calls [0,60], [60,120], [120,180], [180,240]
PROTO2_VARIANTS = {
    # name: (kinds in time order, time alphabet)
    "eci_eci": (("eci", "eci"), PROTO2_TIMES),
    "eci_spiral": (("eci", "spiral"), PROTO2_MIXED_TIMES),
    "spiral_eci": (("spiral", "eci"), PROTO2_MIXED_TIMES),
    "eci_eci_eci": (("eci", "eci", "eci"), PROTO3_TIMES),
}
# Velocity tolerance of the closed-form comparison: the right-hand side is piecewise constant in magnitude and
# direction, RK45 integrates it exactly, event roots of the linear event functions are located to 4 ulp of t
# (1e-14 s -> 1e-19 km/s); what is left is rounding of |v| ~ 2.3 km/s (4.4e-16 per addition, < 100 additions over the
# four calls and their restarts: < 5e-14 km/s).  1e-12 km/s = 1e-7 s of thrust; the smallest defect is 1 s.
PROTO2_TOL_V = 1e-12


def _proto2_specs(kinds, seed):
    sgn = -1.0 if seed % 2 else 1.0
    eci = [[0.8e-5 * sgn, -0.5e-5, 0.3e-5], [0.2e-5, 0.9e-5 * sgn, -0.4e-5], [-0.5e-5, 0.1e-5, 0.7e-5 * sgn]]
    out = []
    for i, kind in enumerate(kinds):
        out.append({"kind": "eci", "acc": eci[i]} if kind == "eci" else {"kind": "spiral", "mag": 0.9e-5 * sgn})
    return out


def _ff_velocity(v0, burns, t):
    """Closed form for the gravity-free harness: velocity at time t after the (non-overlapping) burns, each applied
    over its overlap with [0, t]; a spiral burn accelerates along the velocity it finds (the direction then stays)."""
    v = np.array(v0, dtype=float)
    for ts, te, sp in sorted(burns, key=lambda bn: bn[0]):
        w = _overlap(ts, te, 0.0, t)
        if w <= 0.0:
            continue
        if sp["kind"] == "eci":
            v = v + np.array(sp["acc"], dtype=float) * w
        else:
            v = v + sp["mag"] * w * v / np.sqrt(v @ v)
    return v


def _proto2_event(ts, te, sp):
    if sp["kind"] == "eci":
        return ScheduledFiniteBurn(ScenarioTime(ts), ScenarioTime(te),
                                   partial(eciBurn, acc_vector=np.array(sp["acc"], dtype=float)), 1)
    return ScheduledFiniteManeuver(ScenarioTime(ts), ScenarioTime(te), partial(spiralThrust, magnitude=sp["mag"]), 1)


def _permutations(n):
    if n == 2:
        return [(0, 1), (1, 0)]
    return [(0, 1, 2), (0, 2, 1), (1, 0, 2), (1, 2, 0), (2, 0, 1), (2, 1, 0)]


def _chain_region(chain, dt):
    rels = [_relation(chain[i], chain[i + 1], dt) for i in range(len(chain) - 1)]
    for name in ("touching_off_grid", "first_active_second_queued", "touching_on_grid",
                 "second_starts_in_step_first_ends", "gap"):
        if name in rels:
            return name
    return "gap"


def _run_protocol2(res, item):
    """Celestial.propagate over four consecutive calls with two or three non-overlapping finite events in the list,
    in every list order; "all": the whole list is handed to every call (events that ended long ago or start much
    later included), "window": only what Scenario.stepForward would have delivered and pruning would have kept.  The
    event objects persist across the calls, as they do in an agent's queue."""
    _, seed, variant, chains = item
    kinds, _ = PROTO2_VARIANTS[variant]
    specs = _proto2_specs(kinds, seed)
    dt = 60.0
    y0 = np.array([7000.0, -200.0, 350.0, 1.0, -2.0, 0.5])
    dyn = _FreeFlight()
    checkpoints = [dt * (j + 1) for j in range(PROTO2_CALLS)]
    for chain in chains:
        chain = [(float(s), float(e)) for s, e in chain]
        burns = [(s, e, sp) for (s, e), sp in zip(chain, specs)]
        region = _chain_region(chain, dt)
        for perm in _permutations(len(burns)):
            for offer in ("all", "window"):
                one = ("protocol2", seed, variant, [[list(iv) for iv in chain]])
                case = {"variant": variant, "intervals": [list(iv) for iv in chain], "list_order": list(perm),
                        "offer": offer, "dt": dt, "relation": region}
                events = [_proto2_event(*burns[i]) for i in perm]
                state = y0.copy()
                vels, err = [], None
                try:
                    for j in range(PROTO2_CALLS):
                        WATCHDOG.reset()
                        t0, t1 = j * dt, (j + 1) * dt
                        evs = events if offer == "all" else [
                            ev for ev in events if float(ev.start_time) <= t1 and float(ev.end_time) > t0]
                        state = dyn.propagate(ScenarioTime(t0), ScenarioTime(t1), state, scheduled_events=evs)
                        vels.append(np.array(state[3:], dtype=float))
                except Exception as exc:  # noqa: BLE001
                    err = f"{type(exc).__name__}: {exc}"
                if err is not None:
                    res.case("protocol2/velocity", case, False, nontrivial=True,
                             signature=f"C15/protocol2/velocity/FreeFlight/{region}/error", observed=err, item=one)
                    continue

                def worst(hyp_burns):
                    return max(fw.maxabs(v, _ff_velocity(y0[3:], hyp_burns, t)) for v, t in zip(vels, checkpoints))

                err_v = worst(burns)
                ok = err_v <= PROTO2_TOL_V
                label = "exact"
                if not ok:
                    label = "unexplained"
                    hyp = _missed_touching_start([burns[i] for i in perm], dt)
                    if hyp is not None and worst(hyp) <= PROTO2_TOL_V:
                        label = "start_at_previous_end_missed"
                first_bad = next((j + 1 for j, (v, t) in enumerate(zip(vels, checkpoints))
                                  if fw.maxabs(v, _ff_velocity(y0[3:], burns, t)) > PROTO2_TOL_V), None)
                res.case("protocol2/velocity", case, ok, nontrivial=True,
                         signature=f"C15/protocol2/velocity/FreeFlight/{region}/{label}",
                         observed={"max_dv_km_s": err_v, "equivalent_thrust_s": err_v / 1e-5, "first_bad_call": first_bad,
                                   "v_final": vels[-1]},
                         expected={"v_final": _ff_velocity(y0[3:], burns, checkpoints[-1]), "max_dv_km_s": f"<= {PROTO2_TOL_V}"},
                         outcome=label, item=one)
                res.observe(vels[-1], err_v)
        EventStack.logAndFlushEvents()


# ---------------------------------------------------------------------------------------------- coincident events
# A finite event and ANOTHER event of the same agent at one instant.  Every scheduled event is a terminal solve_ivp
# event; of several terminal events found at one time the solver reports only the first in the list and the
# integration restarts after the time of the others.  What is enumerated: an impulse (ECI / NTW frame) exactly at the
# burn start, exactly at the burn end, inside and outside the burn x every thrust kind x burn start / end on and off the
# call boundaries x both list orders x three ways of flying the schedule: Celestial.propagate in one call, split over
# step-sized calls (real TargetAgent, queue delivered and pruned as the propagation job does) and
# Celestial.propagateBulk with the step boundaries as output times.  Oracle: the independent integration (thrust on only
# inside [t_start, t_end], the delta-v added once, at its instant, in the frame of the state it finds).
CI_DV = {"eci": [1.0e-3, -2.0e-3, 0.5e-3], "ntw": [0.5e-3, 2.0e-3, -1.0e-3]}  # km/s; 100x the delta-v of 1 s of thrust
CI_MODES = ["one_call", "split", "bulk"]
CI_ORDERS = ["impulse_first", "burn_first"]
CI_STEPS = 4


def _ci_dv(frame, seed):
    sgn = -1.0 if seed % 2 else 1.0
    return [sgn * x for x in CI_DV[frame]]


def _ci_intervals(dt):
    return [
        (dt + 1, 2 * dt + dt // 2),  # start and end off the grid, across a boundary
        (dt, 2 * dt),  # start and end on the grid
        (dt + 1, 2 * dt),  # start off, end on the grid
        (dt, 2 * dt + 7),  # start on, end off the grid
        (dt + dt // 2, 2 * dt - 1),  # inside one step
    ]


def _ci_positions(dt, idx):
    """[(relation of the impulse to the burn, impulse instant)] for interval ``idx`` of ``_ci_intervals``."""
    ts, te = _ci_intervals(dt)[idx]
    out = [("at_start", float(ts)), ("at_end", float(te)), ("inside", 0.5 * (ts + te))]
    if ts < 2 * dt < te:
        out.append(("inside", float(2 * dt)))  # inside the burn, on a step boundary
    if idx in (0, 1):
        out.append(("outside", float(3 * dt + 7)))  # after the burn, in the free-flying step
    return out


def _ci_region(pos, ti, dt):
    return f"impulse_{pos}_{'on' if _on_grid(ti, dt) else 'off'}_grid"


def _is_impulse(event):
    return isinstance(event, ScheduledImpulse)


def _thrust_obj(spec, ts, te, agent_id):
    if spec["kind"] in ("eci", "ntw"):
        func = partial(ThrustFrame(spec["kind"]).thrust, acc_vector=np.array(spec["acc"], dtype=float))
        return ScheduledFiniteBurn(ScenarioTime(ts), ScenarioTime(te), func, agent_id)
    func = partial(ManeuverType(spec["kind"]).thrust, magnitude=spec["mag"])
    return ScheduledFiniteManeuver(ScenarioTime(ts), ScenarioTime(te), func, agent_id)


def _impulse_obj(ti, dv, frame, agent_id):
    return ThrustFrame(frame).impulse(ScenarioTime(ti), np.array(dv, dtype=float), agent_id)


def _ci_dims(tier):
    if tier == "thorough":
        return [("special_perturbations", 60), ("special_perturbations", 300), ("two_body", 30), ("two_body", 60),
                ("two_body", 300), ("two_body", 450)]
    # the coincidence handling lives in Celestial (shared); SpecialPerturbations is flown at one step size in the quick tier
    return [("special_perturbations", 60), ("two_body", 60), ("two_body", 300)]


def _ci_with_outside(tier, model):
    """The control position "impulse after the burn" (nothing coincides) is flown on TwoBody at every step size; the quick
    tier leaves it out for the ~15x dearer SpecialPerturbations (the thorough tier flies it)."""
    return not (tier == "quick" and model == "special_perturbations")


def _run_coincide(res, item):
    _, model, dt, kind, seed, idxs, with_outside = item
    # without the impulse after the burn the free-flying fourth step is not needed (the burns end by 2.5 dt)
    n_steps = CI_STEPS if with_outside else CI_STEPS - 1
    start = _epoch(seed)
    world = World(model, dt, start, n_steps)
    spec = _spec(kind, seed)
    pos, vel = _orbit("up", dt, seed)
    times = [float((j + 1) * dt) for j in range(n_steps)]
    t_final = times[-1]
    probe = world.agent(pos, vel)
    gravity = world.gravity(probe)
    y0 = np.array(probe.eci_state, dtype=float)
    aid = probe.simulation_id
    for idx, where, ti in [(int(i), w, t) for i in idxs for w, t in _ci_positions(dt, int(i))
                           if with_outside or w != "outside"]:
        ts, te = (float(x) for x in _ci_intervals(dt)[idx])
        burns = [(ts, te, spec)]
        one = ("coincide", model, dt, kind, seed, [idx], bool(with_outside))
        for frame in ("eci", "ntw"):
            dv = _ci_dv(frame, seed)
            imps = [(ti, dv, frame)]
            ref = orc.integrate(gravity, y0, 0.0, times, burns, imps)
            coast = orc.integrate(gravity, y0, 0.0, times, [], imps)
            region = _ci_region(where, ti, dt)
            for order in CI_ORDERS:
                for mode in CI_MODES:
                    case = {"model": MODELS[model], "dt": dt, "kind": kind, "t_start": ts, "t_end": te,
                            "impulse_at": ti, "impulse_frame": frame, "impulse_relation": where, "queue_order": order,
                            "mode": mode, "start_on_grid": _on_grid(ts, dt), "end_on_grid_nominal": _on_grid(te, dt)}
                    level = f"coincide_{mode}"
                    lib, err = [], None
                    del STEP_LOG[:]
                    try:
                        if mode == "split":
                            agent = world.agent(pos, vel)
                            for _ in range(n_steps):
                                t_k = float(agent.time)
                                # delivery as Scenario.stepForward does it: start <= t_k+dt and end > t_k
                                if ts <= t_k + dt and te > t_k:
                                    _make_event(agent, spec, ts, te, "direct", start)
                                if t_k < ti <= t_k + dt:
                                    agent.appendPropagateEvent(_impulse_obj(ti, dv, frame, agent.simulation_id))
                                # the order in which rows come back from the database is not specified (stable sort)
                                agent.propagate_event_queue.sort(
                                    key=(lambda e: not _is_impulse(e)) if order == "impulse_first" else _is_impulse)
                                agent.prunePropagateEvents()
                                lib.append(_step_agent(agent))
                            out_times = times
                        else:
                            dyn = world.agent(pos, vel).dynamics
                            evs = [_impulse_obj(ti, dv, frame, aid), _thrust_obj(spec, ts, te, aid)]
                            if order == "burn_first":
                                evs = evs[::-1]
                            WATCHDOG.reset()
                            if mode == "one_call":
                                out = dyn.propagate(ScenarioTime(0.0), ScenarioTime(t_final), y0.copy(),
                                                    scheduled_events=evs)
                                lib = [np.array(out, dtype=float)]
                                out_times = [t_final]
                            else:
                                out = dyn.propagateBulk([ScenarioTime(0.0)] + [ScenarioTime(t) for t in times],
                                                        y0[:, None].copy(), scheduled_events=evs)
                                out = np.array(out, dtype=float)
                                if out.shape != (6, 1, n_steps):
                                    raise AssertionError(f"propagateBulk returned shape {out.shape}")
                                lib = [out[:, 0, k] for k in range(n_steps)]
                                out_times = times
                    except PropagationStall as exc:
                        err = str(exc)
                    except Exception as exc:  # noqa: BLE001
                        err = f"{type(exc).__name__}: {exc}"
                    EventStack.logAndFlushEvents()
                    if err is not None:
                        res.case(f"{level}/interval", case, False, nontrivial=True,
                                 signature=f"C15/{level}/interval/{MODELS[model]}/{region}/error", observed=err[:300],
                                 expected="propagates", outcome="error", item=one)
                        res.observe(err[:80])
                        continue
                    # within one call there are no step boundaries: "the step that contains the end" is the call
                    step = dt if mode == "split" else t_final
                    _classify(res, level, level, model, case, lib, out_times, y0, gravity, burns, burns, step,
                              impulses=imps, item=one, nontrivial=True, coast=coast, region=region, ref=ref,
                              extra_hyp=[("coincident_impulse_dropped", burns, [])])
                    res.states += len(out_times) + 1
                    res.transitions += len(out_times)
                    res.traces += 1


# ---- the same on the gravity-free harness dynamics, exhaustively, closed-form oracle
PROTO_CI_DV = [1.0e-3, -2.0e-3, 0.5e-3]
PROTO_CI_CALLS = 3  # [0,60], [60,120], [120,180]
PROTO_CI_ZERO = [30.0, 60.0, 61.0, 119.5, 120.0]  # instants of the zero-length burns flown together with an impulse


def _ff_state(y0, burns, imps, t):
    """Closed form for the gravity-free harness with ECI burns and ECI impulses: state at time t."""
    r = np.array(y0[:3], dtype=float) + np.array(y0[3:], dtype=float) * t
    v = np.array(y0[3:], dtype=float)
    for ts, te, sp in burns:
        s_, e_ = max(ts, 0.0), min(te, t)
        if e_ > s_:
            a = np.array(sp["acc"], dtype=float)
            v = v + a * (e_ - s_)
            r = r + a * ((e_ - s_) * (t - e_) + 0.5 * (e_ - s_) ** 2)
    for ti, dv in imps:
        if ti <= t:
            v = v + np.array(dv, dtype=float)
            r = r + np.array(dv, dtype=float) * (t - ti)
    return r, v


def _ff_fly(dyn, y0, make_events, mode, dt, n_calls, windowed=True):
    """Fly an event list on the harness dynamics; returns the states at the call boundaries dt, 2dt, ...

    one_call: only the last boundary is returned; split: one propagate call per step, the persistent event objects
    offered as Scenario.stepForward + pruning would (burn: start <= t1 and end > t0; impulse: t0 < t <= t1) or all of
    them every time; bulk: propagateBulk with the boundaries as output times."""
    t_final = n_calls * dt
    events = make_events()
    WATCHDOG.reset()
    if mode == "one_call":
        out = dyn.propagate(ScenarioTime(0.0), ScenarioTime(t_final), y0.copy(), scheduled_events=events)
        return {t_final: np.array(out, dtype=float)}
    if mode == "bulk":
        ts_out = [dt * (j + 1) for j in range(n_calls)]
        out = np.array(dyn.propagateBulk([ScenarioTime(0.0)] + [ScenarioTime(t) for t in ts_out], y0[:, None].copy(),
                                         scheduled_events=events), dtype=float)
        if out.shape != (6, 1, n_calls):
            raise AssertionError(f"propagateBulk returned shape {out.shape}")
        return {t: out[:, 0, k] for k, t in enumerate(ts_out)}
    state = y0.copy()
    got = {}
    for j in range(n_calls):
        WATCHDOG.reset()
        t0, t1 = j * dt, (j + 1) * dt
        evs = []
        for ev in events:
            if _is_impulse(ev):
                if (t0 < float(ev.time) <= t1) if windowed else (float(ev.time) > t0):
                    evs.append(ev)
            elif not windowed or (float(ev.start_time) <= t1 and float(ev.end_time) > t0):
                evs.append(ev)
        state = dyn.propagate(ScenarioTime(t0), ScenarioTime(t1), state, scheduled_events=evs)
        got[t1] = np.array(state, dtype=float)
    return got


def _run_protocol_ci(res, item):
    """One ECI burn + one ECI impulse on the gravity-free harness: every (t_start, t_end) pair of PROTO_TIMES x the
    impulse at every instant of PROTO_TIMES x both list orders x {one call, three calls, propagateBulk}."""
    _, seed, pairs = item
    dt = 60.0
    t_final = PROTO_CI_CALLS * dt
    spec = {"kind": "eci", "acc": _spec("eci", seed)["acc"]}
    dv = [(-1.0 if seed % 2 else 1.0) * x for x in PROTO_CI_DV]
    y0 = np.array([7000.0, -200.0, 350.0, 1.0, -2.0, 0.5])
    dyn = _FreeFlight()
    for ts, te in pairs:
        ts, te = float(ts), float(te)
        burns = [(ts, te, spec)]
        for ti in PROTO_TIMES:
            where = "at_start" if ti == ts else "at_end" if ti == te else "inside" if ts < ti < te else "outside"
            region = _ci_region(where, ti, dt)
            if te == ts:
                region = f"zero_length_{'on' if _on_grid(ts, dt) else 'off'}_grid/{region}"
            for order in CI_ORDERS:
                def make(order=order, ti=ti):
                    evs = [ScheduledECIImpulse(ScenarioTime(ti), np.array(dv), 1), _proto2_event(ts, te, spec)]
                    return evs if order == "impulse_first" else evs[::-1]

                for mode in CI_MODES:
                    case = {"t_start": ts, "t_end": te, "impulse_at": ti, "impulse_relation": where,
                            "queue_order": order, "mode": mode, "dt": dt}
                    one = ("protocol_ci", seed, [[ts, te]])
                    try:
                        got = _ff_fly(dyn, y0, make, mode, dt, PROTO_CI_CALLS)
                    except Exception as exc:  # noqa: BLE001
                        res.case("protocol_ci/velocity", case, False, nontrivial=True,
                                 signature=f"C15/protocol_ci_{mode}/velocity/FreeFlight/{region}/error",
                                 observed=f"{type(exc).__name__}: {exc}"[:300], outcome="error", item=one)
                        continue

                    def worst(hb, hi, got=got):
                        return max(fw.maxabs(y[3:], _ff_state(y0, hb, hi, t)[1]) for t, y in got.items())

                    err_v = worst(burns, [(ti, dv)])
                    ok = err_v <= PROTO2_TOL_V
                    label = "exact"
                    if not ok:
                        label = "unexplained"
                        call_end = _next_grid_after(te, dt) if mode == "split" else t_final
                        if worst(burns, []) <= PROTO2_TOL_V:
                            label = "coincident_impulse_dropped"
                        elif worst([(ts, call_end, spec)], [(ti, dv)]) <= PROTO2_TOL_V:
                            label = "thrust_runs_to_call_end"
                        elif worst([], [(ti, dv)]) <= PROTO2_TOL_V:
                            label = "no_thrust_applied"
                    v_end = got[t_final][3:]
                    acc = np.array(spec["acc"])
                    on = float((v_end - y0[3:] - (np.array(dv) if ti <= t_final else 0.0)) @ acc / (acc @ acc))
                    res.case("protocol_ci/velocity", case, ok, nontrivial=where != "outside" or te == ts,
                             signature=f"C15/protocol_ci_{mode}/velocity/FreeFlight/{region}/{label}",
                             observed={"max_dv_km_s": err_v, "thrust_seconds": on},
                             expected={"max_dv_km_s": f"<= {PROTO2_TOL_V}", "thrust_seconds": _overlap(ts, te, 0.0, t_final)},
                             outcome=label, item=one)
                    if ok:
                        # r' = v with v piecewise linear: integrated exactly by the method (and by its interpolant)
                        want_r = _ff_state(y0, burns, [(ti, dv)], t_final)[0]
                        res.case("protocol_ci/position", case, fw.maxabs(got[t_final][:3], want_r) <= 1e-8,
                                 nontrivial=where != "outside" or te == ts, signature=f"C15/protocol_ci_{mode}/position",
                                 observed=got[t_final][:3], expected=want_r, item=one)
                    res.observe(got[t_final], err_v)
        EventStack.logAndFlushEvents()


PROTO_CI2_TIMES = [30.0, 60.0, 61.0, 119.0, 120.0, 150.0]
PROTO_CI2_MODES = ["split_all", "split_window", "bulk"]


def _run_protocol_ci2(res, item):
    """Two ECI burns (never overlapping, possibly back to back) + one ECI impulse at any instant of the alphabet -
    up to three events at one instant - in every order of the three-event list."""
    _, seed, chains = item
    dt = 60.0
    specs = _proto2_specs(("eci", "eci"), seed)
    dv = [(-1.0 if seed % 2 else 1.0) * x for x in PROTO_CI_DV]
    y0 = np.array([7000.0, -200.0, 350.0, 1.0, -2.0, 0.5])
    dyn = _FreeFlight()
    for chain in chains:
        chain = [(float(s), float(e)) for s, e in chain]
        burns = [(s, e, sp) for (s, e), sp in zip(chain, specs)]
        region = _chain_region(chain, dt)
        edges = {t for iv in chain for t in iv}
        for ti in PROTO_CI2_TIMES:
            n_at = sum(1 for iv in chain for t in iv if t == ti)
            imp_region = f"{region}/impulse_with_{n_at}_burn_events"
            for perm in _permutations(3):
                def make(perm=perm, ti=ti):
                    objs = [_proto2_event(*burns[0]), _proto2_event(*burns[1]),
                            ScheduledECIImpulse(ScenarioTime(ti), np.array(dv), 1)]
                    return [objs[i] for i in perm]

                for mode in PROTO_CI2_MODES:
                    one = ("protocol_ci2", seed, [[list(iv) for iv in chain]])
                    case = {"intervals": [list(iv) for iv in chain], "impulse_at": ti, "list_order": list(perm),
                            "mode": mode, "dt": dt, "relation": region, "events_at_impulse_instant": n_at + 1}
                    try:
                        got = _ff_fly(dyn, y0, make, "bulk" if mode == "bulk" else "split", dt, PROTO_CI_CALLS,
                                      windowed=mode != "split_all")
                    except Exception as exc:  # noqa: BLE001
                        res.case("protocol_ci2/velocity", case, False, nontrivial=True,
                                 signature=f"C15/protocol_ci2_{mode}/velocity/FreeFlight/{imp_region}/error",
                                 observed=f"{type(exc).__name__}: {exc}"[:300], outcome="error", item=one)
                        continue

                    def worst(hb, hi, got=got):
                        return max(fw.maxabs(y[3:], _ff_state(y0, hb, hi, t)[1]) for t, y in got.items())

                    err_v = worst(burns, [(ti, dv)])
                    ok = err_v <= PROTO2_TOL_V
                    label = "exact"
                    if not ok:
                        label = "unexplained"
                        call_end = (lambda t: _next_grid_after(t, dt)) if mode != "bulk" else (lambda _t: PROTO_CI_CALLS * dt)
                        not_ended = [(s, call_end(e) if e == ti else e, sp) for s, e, sp in burns]
                        if worst(burns, []) <= PROTO2_TOL_V:
                            label = "coincident_impulse_dropped"
                        elif not_ended != burns and worst(not_ended, [(ti, dv)]) <= PROTO2_TOL_V:
                            label = "thrust_runs_to_call_end"
                        else:
                            order = [burns[i] for i in perm if i < 2]
                            hyp = _missed_touching_start(order, dt if mode != "bulk" else PROTO_CI_CALLS * dt)
                            if hyp is not None and worst(hyp, [(ti, dv)]) <= PROTO2_TOL_V:
                                label = "start_at_previous_end_missed"
                    res.case("protocol_ci2/velocity", case, ok, nontrivial=ti in edges,
                             signature=f"C15/protocol_ci2_{mode}/velocity/FreeFlight/{imp_region}/{label}",
                             observed={"max_dv_km_s": err_v, "equivalent_thrust_s": err_v / 1e-5},
                             expected={"max_dv_km_s": f"<= {PROTO2_TOL_V}"}, outcome=label, item=one)
                    res.observe(got[PROTO_CI_CALLS * dt], err_v)
        EventStack.logAndFlushEvents()


def _run_protocol_ci3(res, item):
    """One ECI burn + TWO ECI impulses (at one instant or at two) on the gravity-free harness - up to three events at
    one instant, two of them impulses - in every order of the three-event list."""
    _, seed, intervals = item
    dt = 60.0
    t_final = PROTO_CI_CALLS * dt
    spec = {"kind": "eci", "acc": _spec("eci", seed)["acc"]}
    sgn = -1.0 if seed % 2 else 1.0
    dvs = [[sgn * x for x in PROTO_CI_DV], [0.7e-3, 0.4e-3, -1.5e-3 * sgn]]
    y0 = np.array([7000.0, -200.0, 350.0, 1.0, -2.0, 0.5])
    dyn = _FreeFlight()
    for ts, te in intervals:
        ts, te = float(ts), float(te)
        burns = [(ts, te, spec)]
        for i1, t1 in enumerate(PROTO_CI2_TIMES):
            for t2 in PROTO_CI2_TIMES[i1:]:
                imps = [(t1, dvs[0]), (t2, dvs[1])]
                n_at = {t: sum(1 for x in (ts, te, t1, t2) if x == t) for t in (t1, t2)}
                most = max(n_at.values())
                region = f"{most}_events_at_one_instant"
                for perm in _permutations(3):
                    def make(perm=perm, t1=t1, t2=t2):
                        objs = [_proto2_event(ts, te, spec), ScheduledECIImpulse(ScenarioTime(t1), np.array(dvs[0]), 1),
                                ScheduledECIImpulse(ScenarioTime(t2), np.array(dvs[1]), 1)]
                        return [objs[i] for i in perm]

                    for mode in CI_MODES:
                        one = ("protocol_ci3", seed, [[ts, te]])
                        case = {"t_start": ts, "t_end": te, "impulses_at": [t1, t2], "list_order": list(perm),
                                "mode": mode, "dt": dt, "most_events_at_one_instant": most}
                        try:
                            got = _ff_fly(dyn, y0, make, mode, dt, PROTO_CI_CALLS)
                        except Exception as exc:  # noqa: BLE001
                            res.case("protocol_ci3/velocity", case, False, nontrivial=True,
                                     signature=f"C15/protocol_ci3_{mode}/velocity/FreeFlight/impulse_pair/{region}/error",
                                     observed=f"{type(exc).__name__}: {exc}"[:300], outcome="error", item=one)
                            continue

                        def worst(hb, hi, got=got):
                            return max(fw.maxabs(y[3:], _ff_state(y0, hb, hi, t)[1]) for t, y in got.items())

                        err_v = worst(burns, imps)
                        ok = err_v <= PROTO2_TOL_V
                        label = "exact"
                        if not ok:
                            label = "unexplained"
                            call_end = _next_grid_after(te, dt) if mode == "split" else t_final
                            if any(worst(burns, sub) <= PROTO2_TOL_V for sub in ([], imps[:1], imps[1:])):
                                label = "coincident_impulse_dropped"
                            elif worst([(ts, call_end, spec)], imps) <= PROTO2_TOL_V:
                                label = "thrust_runs_to_call_end"
                        res.case("protocol_ci3/velocity", case, ok, nontrivial=most > 1,
                                 signature=f"C15/protocol_ci3_{mode}/velocity/FreeFlight/impulse_pair/{region}/{label}",
                                 observed={"max_dv_km_s": err_v, "equivalent_thrust_s": err_v / 1e-5},
                                 expected={"max_dv_km_s": f"<= {PROTO2_TOL_V}"}, outcome=label, item=one)
                        res.observe(got[t_final], err_v)
        EventStack.logAndFlushEvents()


def _run_protocol_z2(res, item):
    """One ECI burn + a ZERO-LENGTH ECI burn at an instant that is not strictly inside it (at its start, at its end,
    before, after): the start and end roots of the zero-length event coincide with each other and possibly with a
    root of the other burn; it must deliver nothing and must not disturb the other burn; both list orders."""
    _, seed, intervals = item
    dt = 60.0
    t_final = PROTO_CI_CALLS * dt
    specs = _proto2_specs(("eci", "eci"), seed)
    y0 = np.array([7000.0, -200.0, 350.0, 1.0, -2.0, 0.5])
    dyn = _FreeFlight()
    for ts, te in intervals:
        ts, te = float(ts), float(te)
        burns = [(ts, te, specs[0])]
        for tz in [t for t in PROTO_CI2_TIMES if not ts < t < te]:
            where = "at_start" if tz == ts else "at_end" if tz == te else "apart"
            region = f"zero_length_{'on' if _on_grid(tz, dt) else 'off'}_grid/{where}_of_other_burn"
            for order in ("zero_first", "burn_first"):
                def make(order=order, tz=tz):
                    evs = [_proto2_event(tz, tz, specs[1]), _proto2_event(ts, te, specs[0])]
                    return evs if order == "zero_first" else evs[::-1]

                for mode in CI_MODES:
                    one = ("protocol_z2", seed, [[ts, te]])
                    case = {"t_start": ts, "t_end": te, "zero_length_at": tz, "relation": where, "list_order": order,
                            "mode": mode, "dt": dt}
                    try:
                        got = _ff_fly(dyn, y0, make, mode, dt, PROTO_CI_CALLS)
                    except Exception as exc:  # noqa: BLE001
                        res.case("protocol_z2/velocity", case, False, nontrivial=True,
                                 signature=f"C15/protocol_z2_{mode}/velocity/FreeFlight/{region}/error",
                                 observed=f"{type(exc).__name__}: {exc}"[:300], outcome="error", item=one)
                        continue

                    def worst(hb, got=got):
                        return max(fw.maxabs(y[3:], _ff_state(y0, hb, [], t)[1]) for t, y in got.items())

                    err_v = worst(burns)
                    ok = err_v <= PROTO2_TOL_V
                    label = "exact"
                    if not ok:
                        call_end = _next_grid_after(tz, dt) if mode == "split" and not _on_grid(tz, dt) else \
                            (tz + dt if mode == "split" else t_final)
                        label = "thrust_runs_to_step_end" if worst(burns + [(tz, call_end, specs[1])]) <= PROTO2_TOL_V \
                            else "no_thrust_applied" if worst([]) <= PROTO2_TOL_V else "unexplained"
                    res.case("protocol_z2/velocity", case, ok, nontrivial=True,
                             signature=f"C15/protocol_z2_{mode}/velocity/FreeFlight/{region}/{label}",
                             observed={"max_dv_km_s": err_v, "equivalent_thrust_s": err_v / 1e-5},
                             expected={"max_dv_km_s": f"<= {PROTO2_TOL_V}"}, outcome=label, item=one)
                    res.observe(got[t_final], err_v)
        EventStack.logAndFlushEvents()


# ---- 2-column state, burn + ECI impulse, stepwise propagate and propagateBulk
def _run_columns2(res, item):
    """A (6, 2) state (as the filters propagate sigma points / particles): one finite event + one ECI impulse at its
    start / end / inside, both list orders, through step-sized propagate calls and through propagateBulk.  (An NTW
    impulse on a multi-column state is defined by the first column only - not part of this property.)"""
    _, model, dt, seed = item
    start = _epoch(seed)
    world = World(model, dt, start, CI_STEPS)
    times = [float((j + 1) * dt) for j in range(CI_STEPS)]
    p1, v1 = _orbit("up", dt, seed)
    p2, v2 = _orbit("down", dt, seed)
    probe = world.agent(p1, v1)
    gravity = world.gravity(probe)
    y2 = np.column_stack([np.array(p1 + v1, dtype=float), np.array(p2 + v2, dtype=float)])
    ts, te = dt + 1.0, 3.0 * dt
    dv = _ci_dv("eci", seed)
    for kind in ("ntw", "plane_change"):
        spec = _spec(kind, seed)
        burns = [(ts, te, spec)]
        for where, ti in (("at_start", ts), ("at_end", te), ("inside", 2.0 * dt + 7.0)):
            imps = [(ti, dv, "eci")]
            region = _ci_region(where, ti, dt)
            refs = [orc.integrate(gravity, y2[:, c], 0.0, times, burns, imps) for c in range(2)]
            coasts = [orc.integrate(gravity, y2[:, c], 0.0, times, [], imps) for c in range(2)]
            for order in CI_ORDERS:
                for mode in ("split", "bulk"):
                    level = f"columns_{mode}"
                    dyn = world.agent(p1, v1).dynamics
                    err, lib = None, []
                    try:
                        if mode == "bulk":
                            evs = [_impulse_obj(ti, dv, "eci", TARGET_ID), _thrust_obj(spec, ts, te, TARGET_ID)]
                            if order == "burn_first":
                                evs = evs[::-1]
                            WATCHDOG.reset()
                            out = np.array(dyn.propagateBulk([ScenarioTime(0.0)] + [ScenarioTime(t) for t in times],
                                                             y2.copy(), scheduled_events=evs), dtype=float)
                            if out.shape != (6, 2, CI_STEPS):
                                raise AssertionError(f"propagateBulk returned shape {out.shape}")
                            lib = [out[:, :, k] for k in range(CI_STEPS)]
                        else:
                            state = y2.copy()
                            for j in range(CI_STEPS):
                                WATCHDOG.reset()
                                t0, t1 = j * dt, (j + 1) * dt
                                evs = []
                                if t0 < ti <= t1:
                                    evs.append(_impulse_obj(ti, dv, "eci", TARGET_ID))
                                if ts <= t1 and te > t0:
                                    evs.append(_thrust_obj(spec, ts, te, TARGET_ID))
                                if order == "burn_first":
                                    evs = evs[::-1]
                                state = dyn.propagate(ScenarioTime(t0), ScenarioTime(t1), state, scheduled_events=evs)
                                lib.append(np.array(state, dtype=float))
                    except Exception as exc:  # noqa: BLE001
                        err = f"{type(exc).__name__}: {exc}"
                    EventStack.logAndFlushEvents()
                    for col in range(2):
                        case = {"model": MODELS[model], "dt": dt, "kind": kind, "column": col, "t_start": ts, "t_end": te,
                                "impulse_at": ti, "impulse_relation": where, "queue_order": order, "mode": mode}
                        if err is not None:
                            res.case(f"{level}/interval", case, False, nontrivial=True,
                                     signature=f"C15/{level}/interval/{MODELS[model]}/{region}/error", observed=err[:300],
                                     outcome="error", item=item)
                            continue
                        _classify(res, level, level, model, case, [s[:, col] for s in lib], times, y2[:, col], gravity,
                                  burns, burns, dt if mode == "split" else times[-1], impulses=imps, item=item,
                                  coast=coasts[col], region=region, ref=refs[col],
                                  extra_hyp=[("coincident_impulse_dropped", burns, [])])


# ---- through a real Scenario: a finite event and an impulse event of the same target
def _scenario_ci_patterns(dt):
    """[(relation, (t_start, t_end), impulse instant)]"""
    return [
        ("at_end", (dt + 1, 2 * dt + dt // 2), 2 * dt + dt // 2),  # off the grid
        ("at_end", (dt, 2 * dt), 2 * dt),  # on the grid
        ("at_start", (dt + 1, 2 * dt + dt // 2), dt + 1),  # off the grid
        ("at_start", (dt, 2 * dt + 7), dt),  # on the grid
        ("at_end", (dt + dt // 2, 2 * dt - 1), 2 * dt - 1),  # burn inside one step
        ("inside", (dt + 1, 2 * dt + dt // 2), 2 * dt),  # inside the burn, on the grid
        ("at_end", (dt + 1, 3 * dt + 7), 3 * dt + 7),  # burn across two boundaries
        ("inside", (dt + 1, 2 * dt + dt // 2), dt + dt // 2),  # inside the burn, off the grid
    ]


def _scenario_ci_kind(idx, seed):
    return KINDS[(idx + seed) % len(KINDS)], ("eci", "ntw")[((idx + 1) // 2) % 2]


def _impulse_config(ti, dv, frame, start):
    return {"scope": "agent_propagation", "scope_instance_id": TARGET_ID, "start_time": scen.iso(start + timedelta(seconds=ti)),
            "event_type": "impulse", "thrust_vector": list(dv), "thrust_frame": frame, "planned": False}


def _run_scenario_ci(res, item):
    _, model, dt, seed, pats = item
    start = _epoch(seed)
    for idx, where, iv, ti in pats:
        idx, ti = int(idx), float(ti)
        ts, te = float(iv[0]), float(iv[1])
        kind, frame = _scenario_ci_kind(idx, seed)
        spec = _spec(kind, seed)
        dv = _ci_dv(frame, seed)
        pos, vel = _orbit("up" if kind != "plane_change" else "down", dt, seed)
        n_steps = int(np.ceil(te / dt)) + 1
        times = [float((j + 1) * dt) for j in range(n_steps)]
        burns = [(ts, te, spec)]
        region = _ci_region(where, ti, dt)
        ref = coast = ref_key = None
        for cfg_order in CI_ORDERS:
            evs = [_impulse_config(ti, dv, frame, start), _event_config(spec, ts, te, start)]
            if cfg_order == "burn_first":
                evs = evs[::-1]
            cfg = scen.config(
                start, n_steps,
                [scen.engine(1, [scen.target_eci(TARGET_ID, pos, vel)], [scen.ground_sensor(20001, 10.0, 20.0)])],
                physics=dt, truth_only=True, model=model, events=evs,
            )
            one = ("scenario_ci", model, dt, seed, [[idx, where, [ts, te], ti]])
            case = {"model": MODELS[model], "dt": dt, "kind": kind, "t_start": ts, "t_end": te, "impulse_at": ti,
                    "impulse_frame": frame, "impulse_relation": where, "config_order": cfg_order, "mode": "scenario"}
            sc = scen.build(cfg)
            agent = sc.target_agents[TARGET_ID]
            y0 = np.array(agent.eci_state, dtype=float)
            ref_dyn = copy.deepcopy(agent.dynamics)
            ref_dyn.finite_thrust = None

            def gravity(t, y, ref_dyn=ref_dyn):
                return ref_dyn._differentialEquation(t, y, check_collision=False)  # noqa: SLF001

            lib, err = [], None
            seen_burn, seen_imp, orders_seen = [], [], []
            WATCHDOG.reset()
            try:
                for _ in range(n_steps):
                    sc.stepForward()
                    sc.saveDatabaseOutput()
                    lib.append(np.array(agent.eci_state, dtype=float))
                    queue = list(agent.propagate_event_queue)  # the queue the step just flown was given
                    for e in queue:
                        if _is_impulse(e):
                            if float(e.time) not in seen_imp:
                                seen_imp.append(float(e.time))
                        elif (float(e.start_time), float(e.end_time)) not in seen_burn:
                            seen_burn.append((float(e.start_time), float(e.end_time)))
                    if any(_is_impulse(e) for e in queue) and not all(_is_impulse(e) for e in queue):
                        orders_seen.append("impulse_first" if _is_impulse(queue[0]) else "burn_first")
            except Exception as exc:  # noqa: BLE001
                err = f"{type(exc).__name__}: {exc}"
            if err is not None:
                res.case("scenario_ci/interval", case, False, nontrivial=True,
                         signature=f"C15/scenario_ci/interval/{MODELS[model]}/{region}/error", observed=err[:300],
                         outcome="error", item=one)
                continue
            delivered = (len(seen_burn) == 1 and len(seen_imp) == 1 and abs(seen_burn[0][0] - ts) < 1e-4
                         and abs(seen_burn[0][1] - te) < 1e-4 and abs(seen_imp[0] - ti) < 1e-4)
            res.case("scenario_ci/events_delivered", case, delivered, nontrivial=True,
                     signature="C15/scenario_ci/events_delivered", observed={"burns": seen_burn, "impulses": seen_imp},
                     expected={"burns": [[ts, te]], "impulses": [ti]}, item=one)
            if not delivered:
                continue
            eff = [(seen_burn[0][0], seen_burn[0][1], spec)]
            anchor = {"at_start": eff[0][0], "at_end": eff[0][1]}.get(where)
            # both times come from the same datetime through the same Julian-date conversion: the coincidence survives
            coincident = anchor is None or seen_imp[0] == anchor
            case = dict(case, coincident_after_rounding=coincident, queue_orders_seen=sorted(set(orders_seen)))
            res.case("scenario_ci/coincidence_survives_rounding", case, coincident, nontrivial=anchor is not None,
                     signature="C15/scenario_ci/coincidence_survives_rounding",
                     observed={"impulse": seen_imp[0], "burn": list(seen_burn[0])}, item=one)
            # The impulse is placed at the time the agent was given (the configured datetime through a Julian date, off
            # by <= 4e-5 s): an impulse configured on a step boundary may land just after it and then belongs to the
            # next step - the state reported AT the boundary differs by the whole delta-v, which no tolerance absorbs.
            # The burn keeps its configured times (a 4e-5 s shift of a 1e-5 km/s^2 thrust is 4e-10 km/s, see TOL_V).
            imps_eff = [(seen_imp[0], dv, frame)]
            if ref is None or ref_key != seen_imp[0]:
                ref_key = seen_imp[0]
                ref = orc.integrate(gravity, y0, 0.0, times, burns, imps_eff)
                coast = orc.integrate(gravity, y0, 0.0, times, [], imps_eff)
            _classify(res, "scenario_ci", "scenario_ci", model, case, lib, times, y0, gravity, burns, eff, dt,
                      impulses=imps_eff, item=one, nontrivial=coincident, coast=coast, region=region, ref=ref,
                      extra_hyp=[("coincident_impulse_dropped", burns, [])])
            res.states += n_steps + 1
            res.transitions += n_steps
            res.traces += 1


# ---------------------------------------------------------------------------------------------- degenerate burns
# A finite event of ZERO length (end_time == start_time: what a configuration that omits end_time asks for) delivers
# nothing; a very short one (0.5 s) delivers acceleration x 0.5 s.  Every thrust kind x both dynamics x instants on and
# off the step grid x four ways of flying it: a real TargetAgent stepped as the propagation job does with the event
# queued directly ("split") and through the real event row built from a configuration WITHOUT end_time ("row"),
# Celestial.propagate in one call, Celestial.propagateBulk.
DEGEN_MODES = ["split", "row", "one_call", "bulk"]


def _degenerate_intervals(dt):
    """[(class, t_start, t_end)]"""
    d = float(dt)
    return [
        ("zero_length", d + 1.0, d + 1.0),  # off the grid
        ("zero_length", 2.0 * d, 2.0 * d),  # on the grid
        ("zero_length", d + dt // 2 + 0.25, d + dt // 2 + 0.25),  # off the grid, fractional second
        ("short", d + 1.0, d + 1.5),  # off the grid
        ("short", 2.0 * d - 0.5, 2.0 * d),  # ends on the grid
        ("short", 2.0 * d, 2.0 * d + 0.5),  # starts on the grid
    ]


def _degenerate_region(cls, ts, te, dt):
    if cls == "zero_length":
        return f"zero_length_{'on' if _on_grid(ts, dt) else 'off'}_grid"
    return "short_end_on_grid" if _on_grid(te, dt) else "short_start_on_grid" if _on_grid(ts, dt) else "short_off_grid"


def _run_degenerate(res, item):
    _, model, dt, kind, seed = item
    start = _epoch(seed)
    world = World(model, dt, start, CI_STEPS)
    spec = _spec(kind, seed)
    pos, vel = _orbit("up", dt, seed)
    times = [float((j + 1) * dt) for j in range(CI_STEPS)]
    t_final = times[-1]
    probe = world.agent(pos, vel)
    gravity = world.gravity(probe)
    y0 = np.array(probe.eci_state, dtype=float)
    aid = probe.simulation_id
    coast = orc.integrate(gravity, y0, 0.0, times, [])
    for cls, ts, te in _degenerate_intervals(dt):
        burns = [(ts, te, spec)]
        ref = coast if te == ts else orc.integrate(gravity, y0, 0.0, times, burns)
        region = _degenerate_region(cls, ts, te, dt)
        for mode in DEGEN_MODES:
            case = {"model": MODELS[model], "dt": dt, "kind": kind, "t_start": ts, "t_end": te, "class": cls,
                    "mode": mode, "start_on_grid": _on_grid(ts, dt), "end_on_grid_nominal": _on_grid(te, dt),
                    "end_time_in_config": "omitted" if (mode == "row" and te == ts) else "given"}
            level = f"degenerate_{mode}"
            lib, err, eff = [], None, None
            del STEP_LOG[:]
            try:
                if mode in ("split", "row"):
                    agent = world.agent(pos, vel)
                    for _ in range(CI_STEPS):
                        t_k = float(agent.time)
                        # Scenario.stepForward: start <= t_k+dt and end > t_k (a zero-length event is handed over once)
                        if ts <= t_k + dt and te > t_k:
                            eff = _make_event(agent, spec, ts, te, "direct" if mode == "split" else "row", start)
                        agent.prunePropagateEvents()
                        lib.append(_step_agent(agent))
                    out_times = times
                else:
                    dyn = world.agent(pos, vel).dynamics
                    evs = [_thrust_obj(spec, ts, te, aid)]
                    WATCHDOG.reset()
                    if mode == "one_call":
                        out = dyn.propagate(ScenarioTime(0.0), ScenarioTime(t_final), y0.copy(), scheduled_events=evs)
                        lib, out_times = [np.array(out, dtype=float)], [t_final]
                    else:
                        out = np.array(dyn.propagateBulk([ScenarioTime(0.0)] + [ScenarioTime(t) for t in times],
                                                         y0[:, None].copy(), scheduled_events=evs), dtype=float)
                        if out.shape != (6, 1, CI_STEPS):
                            raise AssertionError(f"propagateBulk returned shape {out.shape}")
                        lib, out_times = [out[:, 0, k] for k in range(CI_STEPS)], times
            except PropagationStall as exc:
                err = str(exc)
            except Exception as exc:  # noqa: BLE001
                err = f"{type(exc).__name__}: {exc}"
            EventStack.logAndFlushEvents()
            if err is not None:
                res.case(f"{level}/interval", case, False, nontrivial=True,
                         signature=f"C15/{level}/interval/{MODELS[model]}/{region}/error", observed=err[:300],
                         expected="propagates", outcome="error", item=item)
                res.observe(err[:80])
                continue
            if mode == "row" and te == ts:
                # the event row of a configuration without end_time ends when it starts (to the last bit: both come from
                # the same datetime through the same Julian-date conversion)
                res.case(f"{level}/zero_length_row", case, eff is not None and eff[0] == eff[1], nontrivial=True,
                         signature=f"C15/{level}/zero_length_row", observed=list(eff) if eff else None,
                         expected="end_time == start_time", item=item)
            eff_burns = [(eff[0], eff[1], spec)] if (mode == "row" and eff) else burns
            _classify(res, level, level, model, case, lib, out_times, y0, gravity, burns, eff_burns,
                      dt if mode in ("split", "row") else t_final, item=item, nontrivial=True, coast=coast,
                      region=region, ref=ref)
            res.states += len(out_times) + 1
            res.transitions += len(out_times)
            res.traces += 1


# ---------------------------------------------------------------------------------------------- dispatch
def run_item(item):
    res = fw.Result()
    kind = item[0]
    del STEP_LOG[:]
    WATCHDOG.reset()
    if kind == "agent":
        _run_agent(res, item)
    elif kind == "epoch_start":
        _run_epoch_start(res, item)
    elif kind == "multi":
        _run_multi(res, item)
    elif kind == "scenario":
        _run_scenario(res, item)
    elif kind == "scenario_epoch_start":
        _run_scenario_epoch_start(res, item)
    elif kind == "thrust_law":
        _run_thrust_law(res, item)
    elif kind == "event_function":
        _run_event_function(res, item)
    elif kind == "prune_direct":
        _run_prune_direct(res, item)
    elif kind == "protocol":
        _run_protocol(res, item)
    elif kind == "protocol2":
        _run_protocol2(res, item)
    elif kind == "sched2":
        _run_sched2(res, item)
    elif kind == "scenario2":
        _run_scenario2(res, item)
    elif kind == "coincide":
        _run_coincide(res, item)
    elif kind == "protocol_ci":
        _run_protocol_ci(res, item)
    elif kind == "protocol_ci2":
        _run_protocol_ci2(res, item)
    elif kind == "protocol_ci3":
        _run_protocol_ci3(res, item)
    elif kind == "protocol_z2":
        _run_protocol_z2(res, item)
    elif kind == "degenerate":
        _run_degenerate(res, item)
    elif kind == "columns2":
        _run_columns2(res, item)
    elif kind == "scenario_ci":
        _run_scenario_ci(res, item)
    else:
        raise ValueError(kind)
    return res
